#!/usr/bin/env python3
"""C19 — expression cloning, substitution and equality obey their algebraic
laws.  For every expression of the C02/C03 enumeration that parses (plus the
query forms, whose n-ary nodes are the interesting ones), the worker checks:
deep clone equal / unshared / independent, substitution = reference
substitution and non-mutating, identity substitution, reflexivity, every
single-node perturbation detected, get_size() = stored children; equality as
a relation (symmetry, transitivity, text, discrimination) over pools."""
import os
import sys

sys.path.insert(0, os.path.join(os.path.dirname(os.path.abspath(__file__)), "..", "lib"))
import engine
import exprgen as G

PID = "C19"
CTX = {"kind": "decl", "text": G.DECL}
sys.path.insert(0, os.path.dirname(os.path.abspath(__file__)))
import c03  # query forms and model  # noqa: E402


def call(w, op, ctx, items, **kw):
    out = []
    for k in range(0, len(items), 300):
        req = {"op": op, "ctx": ctx, "items": items[k:k + 300], "laws": True}
        req.update(kw)
        r = w.call_safe(req, timeout=120)
        if r.get("died"):
            for it in items[k:k + 300]:
                req["items"] = [it]
                r1 = w.call_safe(req, timeout=30)
                out.append(r1 if r1.get("died") else r1["results"][0])
            continue
        if r["ctx"]["errors"] or r["ctx"]["exc"]:
            raise RuntimeError("generator bug: context rejected: %s" % str(r["ctx"])[:400])
        out.extend(r["results"])
    return out


def judge(part, what, text, r, rp):
    part.count()
    if engine.check_crash(part, PID, r, text, rp):
        return
    laws = r.get("laws")
    if laws is None:
        part.outcome(what + ":not-parsed")
        return
    if "harness_error" in laws:
        raise RuntimeError(laws["harness_error"])
    part.nontrivial_case(what + ":" + text)
    part.add("law_checks", laws["checks"])
    part.add("perturbations", laws["perturbations"])
    if laws["fails"]:
        part.outcome(what + ":law-violated")
        for f in laws["fails"]:
            part.violation("law:" + ":".join(f.split(":")[:3]), "%s `%s`: %s" % (what, text, f), rp)
    else:
        part.outcome(what + ":laws-hold")
        if len(part.samples) < 2:
            part.sample({"expression": text, "law_checks": laws["checks"], "perturbations": laws["perturbations"]})


def run_shard(shard):
    part = engine.Part()
    w = engine.worker("fast")
    ts = c03.trees_for(shard)
    texts = [G.render(t, False) for _, t in ts]
    res = call(w, "exprs", CTX, texts, typecheck=True)
    for text, r in zip(texts, res):
        judge(part, "expr", text, r, {"op": "exprs", "ctx": CTX, "items": [text], "laws": True})
    return part.result()


def run_queries(shard):
    part = engine.Part()
    w = engine.worker("fast")
    fi, n = shard
    ctx = {"kind": "xml", "text": c03.qmodel()}
    items = []
    for k, (fid, tpl) in enumerate(c03.query_forms()):
        if k % n != fi:
            continue
        ps = c03.BOOLS[:8] if "{p}" in tpl else [None]
        ns = c03.NUMS[:6] if "{n}" in tpl else [None]
        for p in ps:
            for nn in ns:
                q = c03.BOOLS[(c03.BOOLS.index(p) + 3) % len(c03.BOOLS)] if p is not None else "q"
                m = c03.NUMS[(c03.NUMS.index(nn) + 2) % len(c03.NUMS)] if nn is not None else "b"
                items.append(tpl.format(p=p, q=q, n=nn, m=m))
    res = call(w, "queries", ctx, items)
    for text, r in zip(items, res):
        judge(part, "query", text, r, {"op": "queries", "ctx": ctx, "items": [text], "laws": True})
    return part.result()


def run_pool(shard):
    """equality as a relation over a pool: each depth-1 constructor in three spellings/variants"""
    part = engine.Part()
    w = engine.worker("fast")
    i, n = shard
    trees = [t for _, t in G.depth1()] + [t for k, (_, t) in enumerate(G.depth2()) if k % n == i][:60]
    items = []
    for t in trees:
        items.append(G.render(t, False))
        items.append(G.render(t, True))          # same tree, other text
    items += ["a", "b", "a + b", "b + a", "1", "1.0", "true", "a + 1", "a + 2"]
    req = {"op": "equalpool", "ctx": CTX, "items": items}
    r = w.call_safe(req, timeout=300)
    part.count(len(items))
    if engine.check_crash(part, PID, r, "equality pool", req):
        return part.result()
    part.add("pool_pairs", r["pairs"])
    part.add("pool_triples", r["triples"])
    part.add("pool_equal_pairs", r["equal_pairs"])
    part.nontrivial_case("pool%d" % i)
    if r["fails"]:
        part.outcome("pool:law-violated")
        for f in r["fails"]:
            part.violation("pool:" + f.split(":")[0], f, req)
    else:
        part.outcome("pool:laws-hold")
    return part.result()


import dynspace as DS  # noqa: E402
DYN_XTA, DYN_CTX, DYN_MEMBERS, dynamic_items = DS.DYN_XTA, DS.DYN_CTX, DS.DYN_MEMBERS, DS.dynamic_items


def run_dynamic(shard):
    part = engine.Part()
    w = engine.worker("fast")
    i, n = shard
    exprs, queries = dynamic_items()
    ex = [t for k, t in enumerate(exprs) if k % n == i]
    for text, r in zip(ex, call(w, "exprs", DYN_CTX, ex, typecheck=True)):
        judge(part, "dynamic-expr", text, r, {"op": "exprs", "ctx": DYN_CTX, "items": [text], "laws": True})
    qs = [t for k, t in enumerate(queries) if k % n == i]
    for text, r in zip(qs, call(w, "queries", DYN_CTX, qs)):
        judge(part, "dynamic-query", text, r, {"op": "queries", "ctx": DYN_CTX, "items": [text], "laws": True})
    return part.result()


# ---- nodes whose *types* carry bound and size expressions with symbols in them (type_t::subst is what types P.x) -------------
TYPED_DECL = ("const int N = 3; const int M = 2; int an[N + 1]; int[0, N * M] rv; typedef struct { int[N, N + M] f; int g[M]; } rt; rt rr; "
              "int am[M][N - 1]; typedef int[-N, N] sym_t; sym_t sv; sym_t sa[N]; int fr(int[0, N + M] q) { return q; } ")
TYPED_EXPRS = ["an[1] + rv", "rr.f * 2", "am[0][1]", "rv = rr.f", "rr.g[1] + sv", "sa[2] - an[0]", "fr(rv) + fr(1)", "an", "rr", "am[1]",
               "sv == rv ? an[0] : sa[1]", "forall (i : sym_t) sa[0] >= i", "sum (i : int[0, N - 1]) an[i]"]
TYPED_XTA = (TYPED_DECL + """
process T(const int pp, int &r) { int[0, pp * 2 + 1] w2; int[-pp, pp] w3; bool wa[pp]; struct { int[0, pp + pp] f; } wr; int[0, pp] w;
  state A; init A; }
int g1; int g2;
P = T(7, g1);
P2 = T(5, g2);
system P, P2;
""")
TYPED_QUERIES = ["E<> P.w2 == P2.w2", "E<> P.w3 > 0 && P2.w3 < 0", "E<> P.wa == P.wa", "E<> P.wr.f + P2.wr.f > an[1]", "A[] P.w <= 7 && P2.w <= 5",
                 "E<> P.wr == P.wr", "E<> P.wa[1] && !P2.wa[2]"]


def run_typed(_):
    part = engine.Part()
    w = engine.worker("fast")
    ctx = {"kind": "decl", "text": TYPED_DECL}
    for text, r in zip(TYPED_EXPRS, call(w, "exprs", ctx, TYPED_EXPRS, typecheck=True)):
        judge(part, "typed-expr", text, r, {"op": "exprs", "ctx": ctx, "items": [text], "laws": True})
    qctx = {"kind": "xta", "text": TYPED_XTA}
    for text, r in zip(TYPED_QUERIES, call(w, "queries", qctx, TYPED_QUERIES)):
        judge(part, "typed-query", text, r, {"op": "queries", "ctx": qctx, "items": [text], "laws": True})
    return part.result()


DYN_SEQ_EXPRS = ["forall (w1 : Worker)(w1.load > a)", "(sum (w1 : Probe)(w1.level + b)) > c",
                 "exists (w1 : Worker)(forall (r : Probe)(w1.load > r.level + c))"]
SEQ_EXPRS = ["a + b * c", "fn2(a, rec.g) > arr[b]", "a = b", "forall (i : int[0,1]) arr[i] > a", "p ? a : rec.f", "arr[a] + arr[b]",
             "fn1(a) + fn1(a)", "(a < b) && (b < c || p)", "rec.g - rec2.g", "-a + abs(z)", "mat[a][b] * 2", "sum (i : int[0,1]) arr[i] * a",
             "a++ + --b", "fma(z, w, z) > 1.5", "x' == a", "recs[a].f + b"]


def run_sequences(shard):
    """all operation sequences (equal / clone / clone_deeper / subst / child replacement over three variables) up to the depth
    bound, each from freshly parsed objects, against a reference model of plain trees (harness/exprseq.cpp)"""
    part = engine.Part()
    w = engine.worker("fast")
    text, depth = shard[:2]
    req = {"op": "exprseq", "ctx": shard[2] if len(shard) > 2 else CTX, "items": [text], "second": "d + 1", "depth": depth}
    r = w.call_safe(req, timeout=1200)
    if engine.check_crash(part, PID, r, "operation sequences on " + text, req):
        return part.result()
    part.count(r["sequences"])
    part.add("op_sequences", r["sequences"])
    part.add("op_sequence_operations", r["operations"])
    part.add("op_sequence_equal_calls", r["equal_calls"])
    part.add("op_sequence_equal_true", r["equal_true"])
    part.nontrivial_case("seq:" + text)
    if r["sequences"] == 0:
        raise RuntimeError("C19 generator bug: `%s` does not parse" % text)
    if r["fails"]:
        part.outcome("sequences:law-violated")
        for f in r["fails"]:
            part.violation("sequence:" + f.split(":")[0], f, req)
    else:
        part.outcome("sequences:agree-with-reference")
    return part.result()


def main():
    rep = engine.Report(PID, "exploration",
                        "every parsed expression of the C02 enumeration (constructors, parent/slot/child triples%s) and the C03 query "
                        "forms: clone/subst/equal/get_size laws per expression incl. every single-node perturbation (kind -> sibling "
                        "kind, symbol -> other symbol, constant +1 / +1ulp, swap of two differing children); equality as a relation "
                        "over pools of ~170 expressions (all pairs, all triples); every sequence of up to 3 (thorough: 4) operations from {equal, "
                        "clone, clone_deeper, subst by another expression / by itself, replacement of a root operand} over three variables "
                        "for 19 expressions (3 with dynamic quantifiers), each from freshly parsed objects, against a reference model of plain "
                        "trees; the same laws for every dynamic quantifier (forall/exists/sum over the instances of a dynamic template) x "
                        "template x body x surrounding, all ordered nestings incl. one binder name twice, and numOf/foreach/sum in SMC "
                        "queries; type-level substitution laws (every symbol of a bound or size expression in the type of any node: replaced "
                        "everywhere, nothing else touched, original unchanged, identity) incl. expressions and process-member queries whose "
                        "types have compound bounds and sizes. non-trivial = parsed expression with laws evaluated."
                        % (", depth-3 chains, two-compound-operand parents" if engine.tier() == "thorough" else ""))
    n = engine.ncpu()
    shards = [("d1", 0, 1)] + [("d2", i, n) for i in range(n)]
    if rep.tier == "thorough":
        shards += [("d3", i, 4 * n) for i in range(4 * n)] + [("p2", i, 2 * n) for i in range(2 * n)]
    for res in engine.pmap(run_shard, shards):
        rep.merge(res)
    for res in engine.pmap(run_queries, [(i, n) for i in range(n)]):
        rep.merge(res)
    sdepth = 4 if rep.tier == "thorough" else 3
    for res in engine.pmap(run_sequences, [(t, sdepth) for t in SEQ_EXPRS] + [(t, sdepth, DYN_CTX) for t in DYN_SEQ_EXPRS]):
        rep.merge(res)
    for res in engine.pmap(run_dynamic, [(i, n) for i in range(n)]):
        rep.merge(res)
    rep.merge(run_typed(None))
    if not os.environ.get("UTAPV_REPO") and (rep.outcomes.get("typed-expr:not-parsed") or rep.outcomes.get("typed-query:not-parsed")):
        raise RuntimeError("C19 generator bug: a typed expression or query does not parse")
    if not os.environ.get("UTAPV_REPO"):
        ex, qs = dynamic_items()
        unparsed = rep.outcomes.get("dynamic-expr:not-parsed", 0) + rep.outcomes.get("dynamic-query:not-parsed", 0)
        if unparsed:
            raise RuntimeError("C19 generator bug: %d of %d dynamic items do not parse" % (unparsed, len(ex) + len(qs)))
    rep.extra["op_sequence_depth"] = sdepth
    for res in engine.pmap(run_pool, [(i, n) for i in range(n)]):
        rep.merge(res)
    rep.assumptions = ["node identity and stored children are read through the expression wrapper TU (harness/wrap_expression.cpp)",
                       "reference substitution is performed on the harness s-expression"]
    sys.exit(rep.finish())


if __name__ == "__main__":
    main()
