#!/usr/bin/env python3
"""C10 — only convex clock constraints are accepted as guards and invariants.
Every boolean formula tree up to the depth bound over the leaf/connective
alphabet is placed as a guard and as an invariant of a two-location template
and parsed by the real library; the verdict is compared with the reference
convexity classifier R4 (DESIGN.md §3/C10)."""
import os
import sys

sys.path.insert(0, os.path.join(os.path.dirname(os.path.abspath(__file__)), "..", "lib"))
import engine
import xmlgen

PID = "C10"

LEAVES = {  # name -> (text, clocky)
    "I": ("i == 0", False),
    "Cu": ("x <= 5", True),
    "Cl": ("x >= 5", True),
    "Ce": ("x == 5", True),
    "Du": ("x - y <= 5", True),
    "Rc": ("5 >= x", True),
    "Ib": ("b[0] == 1", False),
    # further spellings of clock comparisons (depth-2 sweep): bound on the left of a difference, inequalities, floating-point bounds,
    # clock-array elements, strict bounds, a variable bound
    "Rd": ("5 >= x - y", True), "Rl": ("3 <= x - y", True), "Nc": ("x != y", True), "Nd": ("x - y != 3", True), "Nr": ("3 != x", True),
    "Df": ("x - y > 2.5", True), "Cf": ("x > 2.5", True), "Ca": ("xs[1] <= 5", True), "Da": ("xs[0] - y < 5", True), "Cs": ("x < 5", True),
    "Cv": ("x <= i", True), "Cc": ("x < y", True), "Ed": ("x - y == 2", True),
}
BIN = ["&&", "||", "imply", "xor", "==", "!="]
UN = ["!", "forall", "exists"]
DECL = "clock x, y; int i; int b[2]; clock xs[2];"


def leaf_node(name):
    text, clocky = LEAVES[name]
    # (text, clocky, shape, pure_conjunction, leaves)
    return (text, clocky, True, True, (name,))


def bin_node(op, a, b):
    text = "(%s) %s (%s)" % (a[0], op, b[0])
    clocky = a[1] or b[1]
    if op == "&&":
        shape = a[2] and b[2]
    elif op == "||":
        shape = (not a[1] and b[2]) or (not b[1] and a[2])
    elif op == "imply":
        shape = (not a[1]) and b[2]
    else:  # xor == != : both operands clock free
        shape = (not a[1]) and (not b[1])
    if not clocky:
        shape = True
    pure = op == "&&" and a[3] and b[3]
    return (text, clocky, shape, pure, a[4] + b[4])


def un_node(op, a):
    if op == "!":
        text = "!(%s)" % a[0]
        shape = not a[1]
    elif op == "forall":
        text = "forall (k : int[0,1]) (%s)" % a[0]
        shape = a[2]
    else:
        text = "exists (k : int[0,1]) (%s)" % a[0]
        shape = not a[1]
    if not a[1]:
        shape = True
    return (text, a[1], shape, False, a[4])


def trees(depth, leaves, bins=None, uns=None):
    """all trees of depth <= depth"""
    bins = BIN if bins is None else bins
    uns = UN if uns is None else uns
    if depth == 1:
        return [leaf_node(n) for n in leaves]
    sub = trees(depth - 1, leaves, bins, uns)
    out = [leaf_node(n) for n in leaves]
    for op in uns:
        for a in sub:
            out.append(un_node(op, a))
    for op in bins:
        for a in sub:
            for b in sub:
                out.append(bin_node(op, a, b))
    return out


DEEP = (4, ["I", "Cu"], ["&&", "||", "imply"], ["!", "forall"])      # thorough: one level deeper over a reduced alphabet


def cfg():
    return 3, ["I", "Cu", "Cl", "Ce", "Du", "Rc"]      # both tiers


PLACES = ("guard", "invariant", "invariant-urgent", "invariant-committed", "invariant-second-template",
          "guard-into-branchpoint", "guard-out-of-branchpoint", "guard-with-select-and-sync", "guard-as-cdata", "invariant-as-split-cdata", "invariant-with-rate", "invariant-after-rate-label",
          "guard-in-unused-template", "invariant-in-unused-template", "guard-in-dynamic-template", "invariant-in-dynamic-template",
          "guard-read-from-fd", "invariant-read-from-file")


def model(place, text):
    if place in ("guard-as-cdata", "invariant-as-split-cdata"):
        # the same label written as a CDATA section / as escaped text followed by a CDATA section
        # (only the label: the declarations stay as they are, so that the formula is the only thing that can be lost)
        doc = model("guard" if place == "guard-as-cdata" else "invariant", text)
        plain = ">" + xmlgen._entities(text) + "</label>"
        saved = xmlgen.ENCODING
        xmlgen.ENCODING = "cdata" if place == "guard-as-cdata" else "cdata-split"
        try:
            enc = ">" + xmlgen.esc(text) + "</label>"
        finally:
            xmlgen.ENCODING = saved
        assert doc.count(plain) == 1
        return doc.replace(plain, enc, 1)
    if place in ("guard-read-from-fd", "invariant-read-from-file"):
        # the same documents handed to the other two XML entry points
        return model(place.split("-")[0], text)
    if place == "guard":
        return xmlgen.simple_model(decl=DECL, guard=text)
    if place == "invariant":
        return xmlgen.simple_model(decl=DECL, inv=text)
    if place in ("guard-into-branchpoint", "guard-out-of-branchpoint"):
        # edges through a branchpoint have one end point that is not a location
        into = place == "guard-into-branchpoint"
        t = xmlgen.template("T", locations=[xmlgen.location("id0", "L0"), xmlgen.location("id1", "L1")], branchpoints=["id2"], init="id0",
                            transitions=[xmlgen.transition("id0", "id2", guard=text if into else None),
                                         xmlgen.transition("id2", "id1", guard=None if into else text, prob="1"),
                                         xmlgen.transition("id2", "id0", prob="2")])
        return xmlgen.nta(DECL, [t], "P = T(); system P;")
    if place in ("invariant-with-rate", "invariant-after-rate-label"):
        # the location also has an exponential rate (both go through the builder's operand stack), in either order of the labels
        t = xmlgen.template("T", locations=[xmlgen.location("id0", "L0", inv=text, rate="2", rate_first=place == "invariant-after-rate-label"),
                                            xmlgen.location("id1", "L1")], init="id0", transitions=[xmlgen.transition("id0", "id1")])
        return xmlgen.nta(DECL, [t], "P = T(); system P;")
    if place == "guard-with-select-and-sync":
        return xmlgen.simple_model(decl=DECL + " broadcast chan zc[2];", select="zs : int[0,1]", sync="zc[zs]!", guard=text, assign="i = zs")
    if place in ("guard-in-unused-template", "invariant-in-unused-template", "guard-in-dynamic-template", "invariant-in-dynamic-template",
          "guard-read-from-fd", "invariant-read-from-file"):
        # a template that the system line does not name: defined and never instantiated, or instantiated at run time by `spawn`
        guard, dyn = place.startswith("guard"), "dynamic" in place
        u = xmlgen.template("U", locations=[xmlgen.location("id7", "M0", inv=None if guard else text), xmlgen.location("id8", "M1")], init="id7",
                            transitions=[xmlgen.transition("id7", "id8", guard=text if guard else None)])
        t = xmlgen.template("T", locations=[xmlgen.location("id0", "L0"), xmlgen.location("id1", "L1")], init="id0",
                            transitions=[xmlgen.transition("id0", "id1", assign="spawn U()" if dyn else "i = 1")])
        return xmlgen.nta(("dynamic U(); " if dyn else "") + DECL, [u, t] if dyn else [t, u], "system T;")
    if place == "invariant-second-template":
        t2 = xmlgen.template("U", locations=[xmlgen.location("id7", "M0"), xmlgen.location("id8", "M1", inv=text)], init="id7",
                             transitions=[xmlgen.transition("id7", "id8")])
        return xmlgen.nta(DECL, [xmlgen.template("T", locations=[xmlgen.location("id0", "L0")], init="id0"), t2], "system T, U;")
    # the invariant of an urgent / committed location (the location's symbol carries a prefixed type)
    t = xmlgen.template("T", locations=[xmlgen.location("id0", "L0", inv=text, urgent=place.endswith("urgent"),
                                                        committed=place.endswith("committed")), xmlgen.location("id1", "L1")],
                        init="id0", transitions=[xmlgen.transition("id0", "id1")])
    return xmlgen.nta(DECL, [t], "P = T(); system P;")


LEAF_OK = {}


def run_shard(shard):
    depth, leaves, kind, op, ai = shard[:5]
    bins, uns = (shard[5], shard[6]) if len(shard) > 5 else (None, None)
    sub = trees(depth - 1, leaves, bins, uns)
    if kind == "leaf":
        items = [leaf_node(n) for n in leaves]
    elif kind == "un":
        items = [un_node(op, a) for a in sub]
    else:
        a = sub[ai]
        items = [bin_node(op, a, b) for b in sub]
    part = engine.Part()
    w = engine.worker("fast")
    places = PLACES if depth <= 3 else PLACES[:2]
    if depth == 3 and engine.tier() != "thorough":
        # quick: the depth-3 enumeration on one placement of each kind; all placements get the depth-2 sweep over the 20 atom spellings
        places = ("guard", "invariant", "invariant-urgent", "invariant-second-template", "guard-into-branchpoint", "guard-as-cdata", "invariant-with-rate",
                  "invariant-in-unused-template", "guard-in-dynamic-template", "guard-read-from-fd")
    for place in places:
        docs = [model(place, it[0]) for it in items]
        via = {"guard-read-from-fd": {"via": "fd"}, "invariant-read-from-file": {"via": "file"}}.get(place)
        res = xmlgen.run_docs(w, docs, want=["noinv"], batch=200, extra=via)
        for it, r in zip(items, res):
            part.count()
            text, clocky, shape, pure, lv = it
            replay = dict({"op": "xml", "buf": model(place, text), "place": place, "formula": text}, **(via or {}))
            if engine.check_crash(part, PID, r, place + ": " + text, replay):
                continue
            acc = xmlgen.accepted(r)
            if clocky:
                part.nontrivial_case(place + ":" + text)
            part.outcome(("accepted" if acc else "rejected") + ("/shape" if shape else "/nonconvex"))
            if acc and not shape:
                part.violation("accepted-nonconvex:%s:%s" % (place, skeleton(text)),
                               "%s `%s` is accepted although clock constraints occur under a non-convex connective" %
                               (place, text), replay)
            if (not acc) and pure and all(LEAF_OK.get((place, n)) for n in lv):
                part.violation("rejected-conjunction:%s:%s" % (place, "&".join(sorted(set(lv)))),
                               "%s `%s` is a plain conjunction of atoms that are each accepted alone, but is rejected: %s"
                               % (place, text, xmlgen.msgs(r)[:2]), replay)
            if len(part.samples) < 2 and clocky:
                part.sample({"place": place, "formula": text, "accepted": acc, "reference_convex": shape})
    return part.result()


def skeleton(text):
    """formula with atoms abstracted: identifies the connective pattern, not the atoms"""
    t = text
    for name, (lt, clocky) in LEAVES.items():
        t = t.replace(lt, "C" if clocky else "I")
    return t.replace(" ", "")


def main():
    depth, leaves = cfg()
    rep = engine.Report(PID, "exploration",
                        "all boolean formula trees of depth <= %d over leaves %s and connectives %s, each as edge guard and as "
                        "location invariant (of an ordinary, an urgent, a committed location and of a location of a second template); non-trivial = the formula contains at least one clock comparison; distinct by "
                        "(placement, formula text)" % (depth, leaves, BIN + UN))
    # atoms alone, per placement (needed by the 'conjunction of accepted atoms' clause)
    w = engine.worker("fast")
    for place in PLACES:
        names = list(LEAVES)
        res = xmlgen.run_docs(w, [model(place, LEAVES[n][0]) for n in names], want=["noinv"])
        for n, r in zip(names, res):
            LEAF_OK[(place, n)] = xmlgen.accepted(r)
    rep.extra["atoms_accepted_alone"] = {"%s:%s" % k: v for k, v in LEAF_OK.items()}
    sub_n = len(trees(depth - 1, leaves))
    shards = [(depth, leaves, "leaf", None, 0)]
    shards += [(depth, leaves, "un", op, 0) for op in UN]
    shards += [(depth, leaves, "bin", op, ai) for op in BIN for ai in range(sub_n)]
    for res in engine.pmap(run_shard, shards, chunksize=4):
        rep.merge(res)
    rep.extra["trees"] = len(trees(1, leaves)) + len(UN) * sub_n + len(BIN) * sub_n * sub_n
    # depth-2 sweep over every atom spelling
    allv = list(LEAVES)
    shards = [(2, allv, "leaf", None, 0)] + [(2, allv, "un", op, 0) for op in UN] + [(2, allv, "bin", op, ai) for op in BIN for ai in range(len(allv))]
    for res in engine.pmap(run_shard, shards, chunksize=4):
        rep.merge(res)
    rep.extra["trees_depth2_all_atoms"] = len(allv) + len(UN) * len(allv) + len(BIN) * len(allv) ** 2
    if engine.tier() == "thorough":
        d4, l4, b4, u4 = DEEP
        sub4 = len(trees(d4 - 1, l4, b4, u4))
        shards = [(d4, l4, "un", op, 0, b4, u4) for op in u4] + [(d4, l4, "bin", op, ai, b4, u4) for op in b4 for ai in range(sub4)]
        for res in engine.pmap(run_shard, shards, chunksize=8):
            rep.merge(res)
        rep.extra["trees_depth4_reduced_alphabet"] = len(u4) * sub4 + len(b4) * sub4 * sub4
        rep.extra["depth4_alphabet"] = {"leaves": l4, "binary": b4, "unary": u4}
    rep.assumptions = ["reference classifier R4 transcribes the statement; acceptance of a formula is demanded only for "
                       "plain conjunctions of atoms accepted alone",
                       "small-scope: depth <= %d, atoms %s" % (depth, leaves)]
    sys.exit(rep.finish())


if __name__ == "__main__":
    main()
