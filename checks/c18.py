#!/usr/bin/env python3
"""C18 — interval operations of range_t agree with their set semantics.
Exhaustive over int8_t (all intervals x all elements; all interval pairs in
the thorough tier), exhaustive over boundary grids for int32_t/double; the
same enumeration is repeated under UBSan for the overflow clause."""
import json
import os
import re
import subprocess
import sys

sys.path.insert(0, os.path.join(os.path.dirname(os.path.abspath(__file__)), "..", "lib"))
import build
import engine

PID = "C18"


def main():
    rep = engine.Report(PID, "exploration",
                        "every non-empty int8_t interval [a,b] x every element e for gt/geq/lt/leq/contains/==/|=/&=/+=/-=/*=; "
                        "interval pairs for &,|,&&,==,<,>,<=,>=,+,-,*,min,max (quick: end points in [-9,9]U{-128,-127,126,127}; "
                        "thorough: all 32896^2 pairs); full product of boundary grids for int32_t and double. A case is "
                        "non-trivial/distinct = one (operation, operand tuple) whose true result does not overflow the type.")
    t = rep.tier
    per_op_total = {}
    for flav in ("fast", "san"):
        d = build.ensure(flav)
        tier_arg = t if flav == "fast" else "quick"   # UB clause: quick space under UBSan (9 s), full space on fast
        p = subprocess.run([os.path.join(d, "c18"), tier_arg, str(engine.ncpu())], stdout=subprocess.PIPE,
                           stderr=subprocess.PIPE, timeout=3600)
        if p.returncode != 0:
            rep.violation("c18-runner:%s:rc%d" % (flav, p.returncode), "c18 %s exited %d: %s" %
                          (flav, p.returncode, p.stderr.decode(errors="replace")[-500:]),
                          {"cmd": [os.path.join(d, "c18"), tier_arg]})
            continue
        out = json.loads(p.stdout.decode())
        rep.count(out["evaluations"])
        for k, v in out["per_op"].items():
            per_op_total[flav + ":" + k] = v
        rep.extra["skipped_overflow_" + flav] = out["skipped_overflow"]
        rep.extra["int8_intervals"] = out["int8_intervals"]
        rep.extra["int8_pairs_" + flav] = out["int8_pairs"]
        rep.outcome("ok", out["evaluations"] - sum(v["count"] for v in out["violations"]))
        rep.outcome("skipped_result_overflows_type", out["skipped_overflow"])
        for v in out["violations"]:
            rep.outcome("mismatch", v["count"])
            rep.violation(v["sig"], "%s (%d cases), e.g. %s" % (v["sig"], v["count"], v["example"]),
                          {"program": "build/%s/*/c18 %s" % (flav, tier_arg), "example": v["example"]})
        # UBSan reports (recover mode): one signature per source location
        for m in set(re.findall(r"range\.h:(\d+):\d+: runtime error: ([^\n]{0,60})", p.stderr.decode(errors="replace"))):
            rep.outcome("ub", 1)
            rep.violation("ub:range.h:%s" % re.sub(r"-?\d+", "N", m[1]).strip().replace(" ", "_"),
                          "undefined behaviour in range.h line %s: %s" % m, {"program": "build/san/*/c18 quick"})
    # distinct non-trivial = executed (operation, operands) tuples on the fast flavour
    n = sum(v for k, v in per_op_total.items() if k.startswith("fast:"))
    rep.nontrivial = set()
    rep.extra["per_op"] = per_op_total
    rep.samples = ["range_t<int8_t>{-5,5}.lt(3) -> expected [-5,2]", "range_t<int8_t>{-5,5}.gt(127) -> expected empty",
                   "range_t<int32_t>{INT32_MIN,0}.size() -> expected 2147483649",
                   "range_t<double>{-inf,lowest}.lt(lowest) -> expected {-inf}", "[-9,4]*[-3,7] vs pointwise scan"]
    rep.assumptions = ["reference semantics computed in int/__int128 (double for double) from the set definition",
                       "cases whose true result leaves the element type are skipped, as the statement allows",
                       "int32_t/double: exhaustive over the boundary grids only"]
    rep.nontrivial_count = n
    sys.exit(rep.finish())


if __name__ == "__main__":
    main()
