#!/usr/bin/env python3
"""C20 — the XML writer's template graph mirrors the document it was given.
Every accepted model of the C04 generator space is parsed, written with
write_XML_file, and the written bytes are read with an independent XML parser
(Python ElementTree) and compared with the document that was written; the label
texts are additionally judged by parsing the written file again."""
import json
import os
import sys
import xml.etree.ElementTree as ET

sys.path.insert(0, os.path.join(os.path.dirname(os.path.abspath(__file__)), "..", "lib"))
import choice
import engine
import modelgen as MG
import xmlgen

PID = "C20"
TRUE = "(CONSTANT:INT 1)"


def bound():
    return 3 if engine.tier() == "thorough" else 2


def gen(choose):
    # base model without branchpoints (the statement's scope); branchpoints are a deviation ("never crashes")
    return MG.build(choose, bp_base=False)


def has_bp_edges(m):
    return any(e.src[0] == "B" or e.dst[0] == "B" for t in m.tpls for e in t.edges)


def check_written(m, dump, written):
    """returns list of (signature, detail) for the template-graph clauses"""
    bad = []
    try:
        root = ET.fromstring(written)
    except ET.ParseError as ex:
        return [("not-well-formed", "written file is not well-formed XML: %s" % ex)]
    tpls = root.findall("template")
    dts = [t for t in dump["templates"] if t["is_TA"]]
    dyn = [t for t in dump.get("dyn_templates", []) if t.get("is_defined")]
    if dyn and len(tpls) == len(dts):
        # the templates that are instantiated at run time are templates of the model, too (the others are still compared below)
        bad.append(("dynamic-templates-not-written", "%d <template> elements for %d templates: the %d dynamic template(s) %s are not in the file" %
                    (len(tpls), len(dts) + len(dyn), len(dyn), [t["name"] for t in dyn])))
    elif len(tpls) != len(dts) + len(dyn):
        return [("template-count", "%d <template> elements for %d templates" % (len(tpls), len(dts) + len(dyn)))]
    else:
        dts = dts + dyn if dyn else dts
    for te, td in zip(tpls, dts):
        tn = td["name"]
        if (te.findtext("name") or "").strip() != tn:
            bad.append(("template-name", "template %s written as %r" % (tn, te.findtext("name"))))
        locs = te.findall("location")
        if len(locs) != len(td["locations"]):
            bad.append(("location-count", "%s: %d <location> for %d locations" % (tn, len(locs), len(td["locations"]))))
            continue
        ids = [l.get("id") for l in locs]
        if len(set(ids)) != len(ids) or None in ids:
            bad.append(("location-ids", "%s: location ids not unique: %s" % (tn, ids)))
        id2name = {}
        for le, ld in zip(locs, td["locations"]):
            nm = (le.findtext("name") or "").strip()
            id2name[le.get("id")] = ld["name"]
            if nm != ld["name"]:
                bad.append(("location-name", "%s: location %s written with name %r" % (tn, ld["name"], nm)))
            labs = {x.get("kind"): (x.text or "") for x in le.findall("label")}
            if (ld["inv"] not in ("()", TRUE)) != ("invariant" in labs):
                bad.append(("invariant-label", "%s.%s: invariant %s but label %s" % (tn, ld["name"], ld["inv"], labs.get("invariant"))))
            if (ld["exp_rate"] != "()") != ("exponentialrate" in labs):
                bad.append(("rate-label", "%s.%s: rate %s but label %s" % (tn, ld["name"], ld["exp_rate"], labs.get("exponentialrate"))))
            flags = ("C" if le.find("committed") is not None else "") or ("U" if le.find("urgent") is not None else "")
            if flags != ld["flags"]:
                bad.append(("location-flag", "%s.%s: flags %r written as %r" % (tn, ld["name"], ld["flags"], flags)))
        inits = te.findall("init")
        if len(inits) != 1:
            bad.append(("init-count", "%s: %d <init> elements" % (tn, len(inits))))
        elif id2name.get(inits[0].get("ref")) != td["init"]:
            bad.append(("init-ref", "%s: init ref %s resolves to %s, initial location is %s" %
                        (tn, inits[0].get("ref"), id2name.get(inits[0].get("ref")), td["init"])))
        loc_edges = [e for e in td["edges"]]
        trs = te.findall("transition")
        # branchpoints: the writer emits one element per branchpoint; the references of edges through them must identify them
        bps = te.findall("branchpoint")
        if len(bps) != len(td["branchpoints"]):
            bad.append(("branchpoint-count", "%s: %d <branchpoint> for %d branchpoints" % (tn, len(bps), len(td["branchpoints"]))))
            continue
        for be, bd in zip(bps, td["branchpoints"]):
            if be.get("id") in id2name or be.get("id") is None:
                bad.append(("branchpoint-ids", "%s: branchpoint id %s is missing or also the id of another element" % (tn, be.get("id"))))
            id2name[be.get("id")] = bd["name"]
        if len(trs) != len(loc_edges):
            bad.append(("transition-count", "%s: %d <transition> for %d edges" % (tn, len(trs), len(loc_edges))))
            continue
        for k, (tr, ed) in enumerate(zip(trs, loc_edges)):
            s, d = tr.find("source"), tr.find("target")
            sn = id2name.get(s.get("ref")) if s is not None else None
            dn = id2name.get(d.get("ref")) if d is not None else None
            if sn != (ed["src"] or ed["srcb"]) or dn != (ed["dst"] or ed["dstb"]):
                bad.append(("transition-endpoints" + ("-branchpoint" if ed["srcb"] or ed["dstb"] else ""), "%s edge %d: %s -> %s written as %s -> %s"
                            % (tn, k, ed["src"] or ed["srcb"], ed["dst"] or ed["dstb"], sn, dn)))
            ctrl = tr.get("controllable")
            wctrl = not (ctrl is not None and ctrl.strip().lower() == "false")
            if wctrl != ed["control"]:
                bad.append(("controllable", "%s edge %d: control=%s written as controllable=%r" % (tn, k, ed["control"], ctrl)))
            labs = {}
            for x in tr.findall("label"):
                labs.setdefault(x.get("kind"), []).append(x.text or "")
            want = {"select": ed["select"] != "[]", "guard": ed["guard"] not in (TRUE, "()"),
                    "synchronisation": ed["sync"] != "()", "assignment": ed["assign"] not in (TRUE, "()"),
                    "probability": ed["prob"] not in (TRUE, "()")}
            for kind, w in want.items():
                if w != (kind in labs):
                    bad.append(("label-presence:" + kind, "%s edge %d: %s is %s in the document but the label is %s" %
                                (tn, k, kind, ed[{"synchronisation": "sync", "assignment": "assign", "probability": "prob"}.get(kind, kind)],
                                 "present" if kind in labs else "absent")))
    return bad


def run_shard(prefs):
    part = engine.Part()
    w = engine.worker("san" if os.environ.get("C20_SAN") else "fast")
    models, docs = [], []
    for pf in prefs:
        m, r = choice.run(gen, pf)
        models.append((m, r))
        docs.append(MG.render_xml(m))
    res = xmlgen.run_docs(w, docs, want=["dump", "nosymtypes", "write"], batch=25)
    rewritten, idx = [], []
    for k, ((m, r), doc, resp) in enumerate(zip(models, docs, res)):
        part.count()
        devs = choice.deviations(r.choices, r.tags)
        key = "+".join(d.split("=")[0] for d in devs) or "base"
        rp = {"op": "xml", "buf": doc, "want": ["dump", "nosymtypes", "write"], "deviations": devs}
        if resp.get("died"):
            part.outcome("writer-crashes" if True else "")
            part.violation("crash:%s:%s" % (engine.crash_signature(resp), "branchpoint-edges" if has_bp_edges(m) else "location-edges"),
                           "parse+write of an accepted model kills the process (%s); deviations %s" %
                           (engine.crash_signature(resp), devs), rp)
            continue
        if engine.sanitizer_hit(resp):
            part.violation("san:" + engine.crash_signature(resp), "sanitizer report while writing: %s" % resp.get("stderr", "")[:300], rp)
        if not xmlgen.accepted(resp):
            part.outcome("not-accepted")
            continue
        part.nontrivial_case(json.dumps(r.choices))
        if resp.get("write_exc") or resp.get("write_rc") != 0:
            part.outcome("writer-throws")
            part.violation("writer-throws:%s" % resp.get("write_exc"), "write_XML_file fails on an accepted model: rc=%s exc=%s %s (%s)" %
                           (resp.get("write_rc"), resp.get("write_exc"), resp.get("write_what"), devs), rp)
            continue
        bad = check_written(m, resp["dump"], resp.get("written", ""))
        dyn_missing = any(sig == "dynamic-templates-not-written" for sig, _ in bad)
        if bad:
            part.outcome("graph-differs" if not (dyn_missing and len(bad) == 1) else "graph-ok/dynamic-templates-missing")
            for sig, detail in bad[:4]:
                part.violation("graph:" + sig, detail + " (deviations %s)" % devs, rp)
            if not (dyn_missing and len(bad) == 1):
                continue
        else:
            part.outcome("graph-ok" + ("/with-branchpoint-edges" if has_bp_edges(m) else ""))
        if not has_bp_edges(m) and not dyn_missing:
            rewritten.append(resp["written"])
            idx.append(k)
        if len(part.samples) < 1:
            part.sample({"deviations": devs, "written": resp.get("written", "")[:500] + "..."})
    # label texts: the written file, parsed again by the library, must give the same template graph and labels
    res2 = xmlgen.run_docs(w, rewritten, want=["dump", "nosymtypes"], batch=25)
    for k, resp2 in zip(idx, res2):
        (m, r), resp = models[k], res[k]
        part.count()
        devs = choice.deviations(r.choices, r.tags)
        rp = {"op": "xml", "buf": resp["written"], "want": ["dump", "nosymtypes"], "original": docs[k], "deviations": devs}
        if engine.check_crash(part, PID, resp2, "re-parse of written file", rp):
            continue
        a = MG.project(resp["dump"], m)
        b = MG.project(resp2["dump"], m) if resp2.get("dump") else None
        if b is None or resp2.get("exc") is not None:
            part.outcome("written-file-not-parsed")
            part.violation("reparse-fails", "the written file is not parsed by the library: %s %s" % (resp2.get("exc"), xmlgen.msgs(resp2)[:2]), rp)
            continue
        def unwrap(x):
            # the type checker rewrites an invariant I to (true && I); both read the same
            pre = "(AND (CONSTANT:INT 1) "
            return x[len(pre):-1] if isinstance(x, str) and x.startswith(pre) and x.endswith(")") else x

        def norm(t):
            return {"locations": [[unwrap(x) for x in l] for l in t["locations"]], "init": t["init"], "edges": t["edges"]}
        ta = [norm(t) for t in a["templates"]]
        tb = [norm(t) for t in b["templates"]]
        d = MG.diff(ta, tb)
        if d:
            import re
            part.outcome("labels-differ")
            part.violation("label-text:%s" % re.sub(r"\d+", "N", d[0]),
                           "the written labels do not carry the document's expressions: at %s document has %s, written file reads as %s (%s)"
                           % (d[0], json.dumps(d[1])[:150], json.dumps(d[2])[:150], devs), rp)
        else:
            part.outcome("labels-ok")
    return part.result()


def run_extras(_):
    """the base model plus each construct beyond the abstract model (records, scalar sets, functions, channel priorities, before /
    after update, progress, gantt, ...), alone and all together: writing must not crash or throw, the file must be well-formed and
    its template graph must mirror the document"""
    sys.path.insert(0, os.path.dirname(os.path.abspath(__file__)))
    import c05
    part = engine.Part()
    w = engine.worker("san" if os.environ.get("C20_SAN") else "fast")
    sets = [[e] for e in c05.EXTRAS] + [[e for e in c05.EXTRAS if e[0] != "post"] + [c05.EXTRAS[-1]]]
    models = [c05.with_extras(picks) for picks in sets]
    docs = [MG.render_xml(m) for m in models]
    res = xmlgen.run_docs(w, docs, want=["dump", "nosymtypes", "write"], batch=10)
    for picks, m, doc, resp in zip(sets, models, docs, res):
        part.count()
        key = "extras:" + "|".join(t.strip()[:25] for _, t in picks)[:120]
        rp = {"op": "xml", "buf": doc, "want": ["dump", "nosymtypes", "write"]}
        if resp.get("died"):
            part.outcome("writer-crashes")
            part.violation("crash:%s:extras" % engine.crash_signature(resp), "parse+write of an accepted model kills the process (%s): %s" %
                           (engine.crash_signature(resp), key), rp)
            continue
        if not xmlgen.accepted(resp):
            raise RuntimeError("C20 generator bug: model with extras not accepted: %s %s" % (key, xmlgen.msgs(resp)[:2]))
        part.nontrivial_case(key)
        if resp.get("write_exc") or resp.get("write_rc") != 0:
            part.outcome("writer-throws")
            part.violation("writer-throws:%s:extras" % resp.get("write_exc"), "write_XML_file fails on an accepted model: rc=%s exc=%s %s (%s)" %
                           (resp.get("write_rc"), resp.get("write_exc"), resp.get("write_what"), key), rp)
            continue
        bad = check_written(m, resp["dump"], resp.get("written", ""))
        if bad:
            part.outcome("graph-differs")
            for sig, detail in bad[:4]:
                part.violation("graph:%s:extras" % sig, detail + " (%s)" % key, rp)
        else:
            part.outcome("graph-ok/extras")
    return part.result()


LABEL_STRINGS = ["abc", "a b", "Z\u00fcrich", "\u20ac", "Malm\u00f6 to \u00c5rhus", "\U0001F600", "x\u00fc", "\u00fcx", "\u00fc\u00fc\u00fc\u00fc", "a < b", "a & b", "a > b", "]]>",
                 "&amp;", "<!-- c -->", "'", 'q\\"q', "a\\\\b", "i", "tab\there"]


def run_label_strings(_):
    """labels whose text contains a string literal (the one place where text outside ASCII and XML-special characters can stand in a
    label): every label kind x every string; the file must be well-formed, mirror the graph, and read back to the same expressions"""
    part = engine.Part()
    w = engine.worker("san" if os.environ.get("C20_SAN") else "fast")
    X = xmlgen
    decl = ("int i; clock x; broadcast chan c[3]; int sfn(const string s) { return 1; } bool sknown(const string s) { return true; } "
            "double sd(const string s) { return 2.0; }")

    def T(inv=None, rate=None, select=None, guard=None, sync=None, assign=None, prob=None):
        if prob is not None:
            return X.template("T", locations=[X.location("id0", "L0"), X.location("id1", "L1")], branchpoints=["id2"], init="id0",
                              transitions=[X.transition("id0", "id2", guard=guard), X.transition("id2", "id1", prob=prob), X.transition("id2", "id0", prob="1")])
        return X.template("T", locations=[X.location("id0", "L0", inv=inv, rate=rate), X.location("id1", "L1")], init="id0",
                          transitions=[X.transition("id0", "id1", select=select, guard=guard, sync=sync, assign=assign)])
    kinds = {"guard": lambda q: T(guard="i == 0 && sknown(%s)" % q), "assignment": lambda q: T(assign="i = sfn(%s)" % q),
             "assignment-list": lambda q: T(assign="i = 1, i = sfn(%s), i = 2" % q), "synchronisation": lambda q: T(sync="c[sfn(%s)]!" % q),
             "invariant": lambda q: T(inv="x <= 5 && sknown(%s)" % q), "select": lambda q: T(select="k : int[0, sfn(%s)]" % q),
             "exponentialrate": lambda q: T(rate="sfn(%s)" % q), "probability": lambda q: T(prob="sfn(%s)" % q),
             "guard-two-strings": lambda q: T(guard="sknown(%s) && sknown(%s)" % (q, q))}
    docs, meta = [], []
    for kid, mk in kinds.items():
        for st in LABEL_STRINGS:
            docs.append(X.nta(decl, [mk('"%s"' % st)], "P = T(); system P;"))
            meta.append("%s:%s" % (kid, st.encode("ascii", "backslashreplace").decode()))
    res = X.run_docs(w, docs, want=["dump", "nosymtypes", "write"], batch=20)
    again, idx = [], []
    for k, (key, doc, resp) in enumerate(zip(meta, docs, res)):
        part.count()
        rp = {"op": "xml", "buf": doc, "want": ["dump", "nosymtypes", "write"]}
        if resp.get("died"):
            part.outcome("writer-crashes")
            part.violation("crash:%s:label-strings" % engine.crash_signature(resp), "parse+write kills the process: %s" % key, rp)
            continue
        if not X.accepted(resp):
            raise RuntimeError("C20 generator bug: label-string model not accepted: %s %s" % (key, X.msgs(resp)[:2]))
        part.nontrivial_case("label-string:" + key)
        if resp.get("write_exc") or resp.get("write_rc") != 0:
            part.outcome("writer-throws")
            part.violation("writer-throws:%s:label-strings" % resp.get("write_exc"), "write_XML_file fails on an accepted model: rc=%s exc=%s (%s)" %
                           (resp.get("write_rc"), resp.get("write_exc"), key), rp)
            continue
        bad = check_written(None, resp["dump"], resp.get("written", ""))
        if bad:
            part.outcome("graph-differs")
            for sig, detail in bad[:2]:
                part.violation("graph:%s:label-strings" % sig, detail + " (%s)" % key, rp)
            continue
        # the same declarations with a template rebuilt from nothing but the elements and label texts of the written file (the written
        # declarations are not part of the statement)
        root = ET.fromstring(resp["written"])
        te = root.find("template")
        lab = lambda el: {x.get("kind"): (x.text or "") for x in el.findall("label")}
        locs = [X.location(l.get("id"), (l.findtext("name") or "").strip(), inv=lab(l).get("invariant"), rate=lab(l).get("exponentialrate"))
                for l in te.findall("location")]
        trs = [X.transition(t.find("source").get("ref"), t.find("target").get("ref"), select=lab(t).get("select"), guard=lab(t).get("guard"),
                            sync=lab(t).get("synchronisation"), assign=lab(t).get("assignment"), prob=lab(t).get("probability"))
               for t in te.findall("transition")]
        tpl = X.template("T", locations=locs, branchpoints=[b.get("id") for b in te.findall("branchpoint")], init=te.find("init").get("ref"),
                         transitions=trs)
        again.append(X.nta(decl, [tpl], "P = T(); system P;"))
        idx.append(k)
    res2 = X.run_docs(w, again, want=["dump", "nosymtypes"], batch=20)

    def labels(dump):
        pre = "(AND (CONSTANT:INT 1) "
        un = lambda x: x[len(pre):-1] if isinstance(x, str) and x.startswith(pre) and x.endswith(")") else x
        return [[[un(l["inv"]), l["exp_rate"]] for l in t["locations"]] + [[e["select"], e["guard"], e["sync"], e["assign"], e["prob"]] for e in t["edges"]]
                for t in dump["templates"] if t["is_TA"]]
    for k, resp2 in zip(idx, res2):
        part.count()
        key = meta[k]
        rp = {"op": "xml", "buf": again[idx.index(k)], "want": ["dump", "nosymtypes"], "original": docs[k], "written": res[k]["written"]}
        if engine.check_crash(part, PID, resp2, "parse of the model rebuilt from the written labels", rp):
            continue
        if resp2.get("dump") is None or resp2.get("exc") is not None or not X.accepted(resp2):
            part.outcome("written-labels-not-parsed")
            part.violation("reparse-fails:label-strings", "the model rebuilt from the written labels is not accepted by the library: %s %s (%s)" %
                           (resp2.get("exc"), X.msgs(resp2)[:2], key), rp)
            continue
        a, b = labels(res[k]["dump"]), labels(resp2["dump"])
        if a != b:
            part.outcome("labels-differ")
            part.violation("label-text:label-strings:" + key.split(":")[0], "the written labels do not carry the document's expressions (%s): %s vs %s" %
                           (key, json.dumps(a)[:200], json.dumps(b)[:200]), rp)
        else:
            part.outcome("labels-ok/strings")
    return part.result()


def main():
    b = bound()
    rep = engine.Report(PID, "exploration",
                        "every accepted model of the C04 choice-tree space (<= %d deviations; self loops, parallel edges, label subsets, "
                        "urgent/committed, anonymous locations, branchpoint edges): parse -> write_XML_file -> independent reader "
                        "(ElementTree) -> compare locations/ids/names/labels/init/transitions/controllable/label presence with the "
                        "document; written file parsed again to compare the label expressions; branchpoint references are compared like "
                        "those of locations. Plus the base model with each of the 21 constructs beyond the abstract model (C05's texts) and "
                        "with all of them." % b)
    prefs = choice.prefixes(gen, b)
    n = engine.ncpu()
    chunk = max(1, min(200, len(prefs) // (n * 4) + 1))
    shards = [prefs[i:i + chunk] for i in range(0, len(prefs), chunk)]
    for res in engine.pmap(run_shard, shards):
        rep.merge(res)
    rep.merge(run_extras(None))
    rep.merge(run_label_strings(None))
    rep.extra["choice_sequences"] = len(prefs)
    rep.assumptions = ["Python's xml.etree.ElementTree is the independent XML parser",
                       "label text is judged by re-parsing the written file with the library and comparing expression trees",
                       "edges through branchpoints: the statement claims that writing does not crash; since the writer emits branchpoint elements, "
                       "their references are checked like those of locations (a dangling reference is not a graph)"]
    sys.exit(rep.finish())


if __name__ == "__main__":
    main()
