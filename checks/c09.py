#!/usr/bin/env python3
"""C09 — accept/reject verdicts are invariant under meaning-preserving rewrites.

Base models (one rich accepted model and rejected variants, one per diagnostic class) are assembled from text
blocks whose expressions are abstract trees (lib/exprgen.py).  For every base model, every site of three rewrite
families is applied, one at a time, and the rewritten document is parsed by the real library:

  r1  layout     - at every token boundary of every block: blank, tab, newline, CR LF, block comment, line
                   comment, `EXPECT:` comment, backslash continuation (queries: blank, tab, block comment);
                   a redundant pair of parentheses around every sub-expression of every expression slot;
  r2  renaming   - every user identifier (constant, typedefs, struct fields, variables, clocks, channels,
                   functions, parameters, locals, templates, locations, binders, processes) consistently renamed
                   to a fresh name and to every soft keyword the grammar re-admits as an identifier
                   (A U W R E M sup inf bounds simulation);
  r3  aliases    - and/&&, or/||, not/!, :=/= in either direction at every occurrence, `a imply b` -> `!(a) || (b)`.

Oracle: the multiset of diagnostic messages (renaming mapped back, positions ignored), the supported-analysis
verdict and the document dump (renaming mapped back) are the same as for the base model; so are the parsed
queries.  Second space: every expression tree of the C02 depth-2 enumeration with a redundant pair of parentheses
around every node, parsed and type checked as a bare expression."""
import json
import os
import re
import sys

sys.path.insert(0, os.path.join(os.path.dirname(os.path.abspath(__file__)), "..", "lib"))
import engine
import exprgen as G
import xmlgen as X

PID = "C09"

ID = G.ID


def I(n):
    return ("INT", n)


def B(k, a, b):
    return (k, a, b)


# ---- the base model: blocks with expression slots ----------------------------------------------------------------
# slot syntax in block templates: {name}
def base_slots():
    arr = lambda a, i: ("ARRAY", a, i)          # noqa: E731
    dot = lambda b, f, i: ("DOT", b, f, i)      # noqa: E731
    call = lambda f, *a: ("CALL", f) + a        # noqa: E731
    q = lambda k, v, body: ("QUANT", k, v, body, "id_t")   # noqa: E731
    return {
        "n_init": I(3),
        "idt_hi": ID("N"),
        "garr_sz": B("PLUS", ID("N"), I(1)),
        "gch_sz": B("PLUS", ID("N"), I(1)),
        "gcnt_init": B("MINUS", I(4), ID("N")),
        "f_tmp": B("PLUS", ID("v"), I(1)),
        "f_cond": B("AND_KW", B("GT", ID("tmp"), ID("N")), ("NOT_KW", ID("gflag"))),
        "f_then": B("ASSIGN", ID("r"), ID("tmp")),
        "f_ret1": ID("tmp"),
        "f_else": B("ASSIGN_COLON", ID("r"), I(0)),
        "f_ret2": ID("v"),
        "g_ret": B("OR_KW", B("GT", ID("v"), I(0)), ID("gflag")),
        "lcnt_init": B("MULT", I(2), ID("N")),
        "inv0": B("AND_KW", B("LE", ID("lclk"), I(5)), B("LE", ID("gclk"), B("PLUS", I(7), ID("pid")))),
        "guard1": B("AND", B("GE", ID("gcnt"), I(0)),
                    B("IMPLY", B("OR_KW", call("pos", ID("lcnt")), ("NOT_KW", ID("gflag"))), B("GE", ID("sel"), I(0)))),
        "sync1_idx": ID("sel"),
        "asg1a": B("ASSIGN_COLON", ID("lcnt"), call("inc", ID("sel"), ID("shared"))),
        "asg1b": B("ASSIGN", arr(ID("garr"), ID("sel")), B("PLUS", dot(ID("gpair"), "fa", 0), B("MULT", ID("sel"), I(2)))),
        "asg1c": B("ASSIGN", ID("gflag"), ("NOT", ID("gflag"))),
        "guard2": B("AND", q("FORALL", "qi", B("GE", arr(ID("garr"), ID("qi")), I(0))), B("GE", ID("lclk"), I(1))),
        "asg2": B("ASSIGN", dot(ID("gpair"), "fb", 1), ("INLINE_IF", ID("gflag"), ("BOOL", 1), B("GT", ID("lcnt"), I(1)))),
        "guard3": q("EXISTS", "qe", B("AND", B("EQ", ID("qe"), ID("pid")), B("GE", arr(ID("garr"), ID("qe")), I(0)))),
        "asg3a": B("ASSIGN", ID("lclk"), I(0)),
        "asg3b": B("ASSIGN", ID("shared"), B("PLUS", B("MIN", ID("lcnt"), ID("gcnt")), ("UNARY_MINUS", ID("pid")))),
        "asg3c": B("ASSIGN", ID("lcnt"), q("SUM", "qs", B("MULT", ID("qs"), arr(ID("garr"), ID("qs"))))),
        "sync4_idx": I(0),
        "arg1": I(1),
        "arg2": B("MINUS", ID("N"), I(1)),
        "q1": B("IMPLY", B("GE", ID("gcnt"), I(0)), B("OR_KW", ID("gflag"), ("NOT_KW", ID("gflag")))),
        "q2": B("AND_KW", dot(ID("P1"), "L2", 0), B("GE", ID("gcnt"), I(0))),
        "q3": B("GE", dot(ID("P2"), "lcnt", 0), B("MINUS", I(0), ID("N"))),
    }


BLOCKS = [
    ("gdecl", "const int N = {n_init};\ntypedef int[0, {idt_hi}] id_t;\ntypedef struct { int fa; bool fb; } pair_t;\n"
              "int gcnt = {gcnt_init};\nbool gflag;\nint garr[{garr_sz}];\npair_t gpair = { 2, true };\nclock gclk;\n"
              "chan gch[{gch_sz}];\nbroadcast chan gbc;\n"
              "int inc(int v, int &r) { int tmp = {f_tmp}; if ({f_cond}) { {f_then}; return {f_ret1}; } else { {f_else}; } return {f_ret2}; }\n"
              "bool pos(const int v) { return {g_ret}; }"),
    ("t1name", "T"), ("t1params", "const id_t pid, int &shared"), ("t1decl", "clock lclk;\nint lcnt = {lcnt_init};"),
    ("l0name", "L0"), ("inv0", "{inv0}"), ("l1name", "L1"), ("l2name", "L2"),
    ("select1", "sel : id_t"), ("guard1", "{guard1}"), ("sync1", "gch[{sync1_idx}]!"), ("assign1", "{asg1a}, {asg1b}, {asg1c}"),
    ("guard2", "{guard2}"), ("sync2", "gbc?"), ("assign2", "{asg2}"),
    ("guard3", "{guard3}"), ("assign3", "{asg3a}, {asg3b}, {asg3c}"),
    ("t2name", "T2"), ("m0name", "M0"), ("sync4", "gch[{sync4_idx}]?"), ("sync5", "gbc!"),
    ("system", "P1 = T({arg1}, gcnt);\nP2 = T({arg2}, gcnt);\nQ = T2();\nsystem P1, P2, Q;"),
    ("query1", "A[] {q1}"), ("query2", "E<> {q2}"), ("query3", "A[] {q3}"),
]
NAME_BLOCKS = {"t1name", "l0name", "l1name", "l2name", "t2name", "m0name"}
QUERY_BLOCKS = {"query1", "query2", "query3"}

SKELETON = (X.HEADER + "<nta><declaration>\x01</declaration>"
            "<template><name>\x01</name><parameter>\x01</parameter><declaration>\x01</declaration>"
            '<location id="id0"><name>\x01</name><label kind="invariant">\x01</label></location>'
            '<location id="id1"><name>\x01</name></location><location id="id2"><name>\x01</name></location><init ref="id0"/>'
            '<transition><source ref="id0"/><target ref="id1"/><label kind="select">\x01</label><label kind="guard">\x01</label>'
            '<label kind="synchronisation">\x01</label><label kind="assignment">\x01</label></transition>'
            '<transition><source ref="id1"/><target ref="id2"/><label kind="guard">\x01</label>'
            '<label kind="synchronisation">\x01</label><label kind="assignment">\x01</label></transition>'
            '<transition><source ref="id2"/><target ref="id0"/><label kind="guard">\x01</label>'
            '<label kind="assignment">\x01</label></transition></template>'
            '<template><name>\x01</name><location id="id3"><name>\x01</name></location><init ref="id3"/>'
            '<transition><source ref="id3"/><target ref="id3"/><label kind="synchronisation">\x01</label></transition>'
            '<transition><source ref="id3"/><target ref="id3"/><label kind="synchronisation">\x01</label></transition></template>'
            "<system>\x01</system><queries><query><formula>\x01</formula><comment/></query>"
            "<query><formula>\x01</formula><comment/></query><query><formula>\x01</formula><comment/></query></queries></nta>\n")
assert SKELETON.count("\x01") == len(BLOCKS)

# identifiers a user chose in the base model (each is unique in the whole model, so a token-level replacement is consistent)
USER_IDS = ["N", "id_t", "pair_t", "fa", "fb", "gcnt", "gflag", "garr", "gpair", "gclk", "gch", "gbc", "inc", "v", "r", "tmp", "pos",
            "T", "pid", "shared", "lclk", "lcnt", "L0", "L1", "L2", "sel", "qi", "qe", "qs", "T2", "M0", "P1", "P2", "Q"]
# `v` is declared in both functions: two entities with one name; both are renamed together (still a consistent renaming)
SOFT = ["A", "U", "W", "R", "E", "M", "sup", "inf", "bounds", "simulation"]
FRESH = "zq_fresh7"
# The XML reader deliberately refuses keywords of the 3.x and query syntaxes as template and location names
# ("$Keywords_are_not_allowed_here"): for entities named in a <name> element those four are reserved names.
NAMED_IN_XML = {"T", "T2", "L0", "L1", "L2", "M0"}
RESERVED_AS_XML_NAME = {"sup", "inf", "bounds", "simulation"}


# Binder-like entities and the text of their scope (block names; for function parameters/locals the line of the function).
# Renaming such an entity to the name of an *outer* entity that is not used inside the scope gives a model in which the inner
# declaration shadows the outer one; renaming it (back) to a fresh name is a meaning-preserving rewrite of that model.
SCOPED = {"qi": ["guard2"], "qe": ["guard3"], "qs": ["assign3"], "sel": ["select1", "guard1", "sync1", "assign1"],
          "tmp": ["fn:inc"], "r": ["fn:inc"], "pid": ["t1params", "t1decl", "inv0", "select1", "guard1", "sync1", "assign1", "guard2", "sync2",
                                              "assign2", "guard3", "assign3"],
          "shared": ["t1params", "t1decl", "inv0", "select1", "guard1", "sync1", "assign1", "guard2", "sync2", "assign2", "guard3", "assign3"],
          "lcnt": ["t1decl", "inv0", "select1", "guard1", "sync1", "assign1", "guard2", "sync2", "assign2", "guard3", "assign3", "query3"]}
# the grammar gives parameters the production `Type NonTypeId`: a parameter cannot carry the name of a visible type, so for
# parameters the typedef names are not in the alphabet of admissible names
PARAMETERS = {"pid", "shared", "r"}
TYPE_NAMES = {"id_t", "pair_t"}
OUTER = ["N", "id_t", "pair_t", "gcnt", "gflag", "garr", "gpair", "gclk", "gch", "gbc", "inc", "pos", "T2"]


# ---- rejected variants: (name, slot overrides, raw block overrides) ----------------------------------------------
def variants(t):
    vs = [("accepted", {}, {})]
    vs += [
        ("unknown-identifier", {"guard1": B("AND", B("GE", ID("gcnt"), I(0)), B("GE", ID("nosuch"), I(0)))}, {}),
        ("type-error", {"asg2": B("ASSIGN", ID("gflag"), ID("gch"))}, {}),
        ("side-effect-in-guard", {"guard2": B("AND", B("GT", ("POST_INCREMENT", ID("gcnt")), I(0)), B("GE", ID("lclk"), I(1)))}, {}),
        ("non-convex-guard", {"guard2": B("OR_KW", B("GE", ID("lclk"), I(1)), B("GE", ID("gclk"), I(1)))}, {}),
        ("write-to-constant", {"asg3a": B("ASSIGN", ID("N"), I(0))}, {}),
        ("array-size-not-computable", {"garr_sz": B("PLUS", ID("gcnt"), I(1))}, {}),
        # the same message more than once, for an expression and for the expression it starts (their ranges share the start
        # unless a redundant pair of parentheses moves it)
        ("same-message-twice:no-effect", {"asg1a": B("EQ", ID("gcnt"), I(1)), "asg1b": B("EQ", ID("gflag"), ID("gflag"))}, {}),
        ("same-message-twice:not-a-structure", {"guard1": B("GE", ("DOT", ("DOT", ID("gcnt"), "fa", 0), "fb", 0), I(0))}, {}),
        ("same-message-twice:unknown-identifier", {"guard1": B("AND", B("GE", ID("nosuch"), I(0)), B("GE", B("PLUS", ID("nosuch"), ID("nosuch")), I(0)))}, {}),
        # names the XML reader refuses for templates and locations (keywords of the query and 3.x syntaxes): refused however the
        # <name> element is laid out
        ("keyword-as-location-name", {}, {"l2name": "inf"}),
        ("keyword-as-template-name", {}, {"t2name": "simulation"}),
        ("syntax-error-in-label", {}, {"assign2": "gpair.fb = ( gflag"}),
        ("syntax-error-in-declaration", {}, {"t1decl": "clock lclk;\nint lcnt = ;\nint later;"}),
    ]
    if t == "thorough":
        vs += [
            ("duplicate-definition", {}, {"t1decl": "clock lclk;\nint lcnt = {lcnt_init};\nint lclk;"}),
            ("wrong-argument-count", {}, {"system": "P1 = T({arg1});\nP2 = T({arg2}, gcnt);\nQ = T2();\nsystem P1, P2, Q;"}),
            ("invariant-with-side-effect", {"inv0": B("AND_KW", B("LE", ID("lclk"), I(5)), B("GT", call_inc(), I(0)))}, {}),
            ("query-unknown", {"q2": B("AND_KW", ("DOT", ID("P1"), "L9", 0), B("GE", ID("gcnt"), I(0)))}, {}),
            ("unterminated-comment-in-label", {}, {"guard3": "/* open {guard3}"}),
        ]
    return vs


def call_inc():
    return ("CALL", "inc", I(1), ID("gcnt"))


# ---- rendering ---------------------------------------------------------------------------------------------------
SLOT = re.compile(r"\{([a-z0-9_]+)\}")


def render_block(tpl, slots):
    return SLOT.sub(lambda m: G.render(slots[m.group(1)], False), tpl)


def render_blocks(slots, raw):
    out = []
    for name, tpl in BLOCKS:
        out.append(render_block(raw.get(name, tpl), slots))
    return out


TOKEN = re.compile(r"A\[\]|E<>|A<>|E\[\]|[A-Za-z_][A-Za-z_0-9]*|\d+\.\d+|\d+|<\?|>\?|==|<=|>=|!=|&&|\|\||\+\+|--|<<|>>|:=|->|/\*|"
                   r"[-+*/%<>=!?:;,.(){}\[\]&|^']")


def tokens(text):
    return [(m.start(), m.end(), m.group(0)) for m in TOKEN.finditer(text)]


def nodes(t, path=()):
    """paths of all nodes of an exprgen tree (children only where they are trees)"""
    yield path
    k = t[0]
    if k in ("ID", "INT", "DBL", "BOOL"):
        return
    idxs = range(1, len(t))
    if k == "DOT":
        idxs = [1]
    elif k == "CALL":
        idxs = range(2, len(t))
    elif k == "BUILTIN":
        idxs = range(2, len(t))
    elif k == "QUANT":
        idxs = [3]
    for i in idxs:
        if isinstance(t[i], tuple):
            yield from nodes(t[i], path + (i,))


def replace_at(t, path, fn):
    if not path:
        return fn(t)
    i = path[0]
    return t[:i] + (replace_at(t[i], path[1:], fn),) + t[i + 1:]


def get_at(t, path):
    for i in path:
        t = t[i]
    return t


ALIAS_TOGGLE = {"AND_KW": "AND", "AND": "AND_KW", "OR_KW": "OR", "OR": "OR_KW", "NOT_KW": "NOT", "NOT": "NOT_KW",
                "ASSIGN_COLON": "ASSIGN", "ASSIGN": "ASSIGN_COLON"}


def alias_rewrite(t):
    k = t[0]
    if k in ALIAS_TOGGLE:
        return (ALIAS_TOGGLE[k],) + t[1:]
    if k == "IMPLY":
        return ("OR", ("NOT", ("PAREN", t[1])), ("PAREN", t[2]))
    return None


# ---- the rewrites of one base model ----------------------------------------------------------------------------
LAYOUT_INSERTS = [("blank", " "), ("tab", "\t"), ("newline", "\n"), ("crlf", "\r\n"), ("block-comment", "/* c */"),
                  ("line-comment", "// c\n"), ("expect-comment", "/* EXPECT:T */"), ("continuation", " \\\n"),
                  ("empty-comment", "/**/"), ("star-comment", "/***/"), ("doc-comment", "/** d **/"), ("banner-comment", "/***** b *****/"),
                  ("comment-with-stars-and-slashes", "/* a * b / c // d */"), ("comment-with-opener", "/* /* x */"),
                  ("multi-line-comment", "/* a\n * b\n */"), ("line-comment-with-closer", "// */ /* c\n"), ("blank-lines", "\n \t\n\n")]
QUERY_INSERTS = [("blank", " "), ("tab", "\t"), ("block-comment", "/* c */"), ("star-comment", "/***/"), ("doc-comment", "/** d **/")]


def rewrites(slots, raw, tier):
    """yields (family, site description, blocks, renaming or None)"""
    base = render_blocks(slots, raw)
    # r1: layout at every token boundary of every block
    for bi, (name, _tpl) in enumerate(BLOCKS):
        if name in NAME_BLOCKS:
            # a <name> element is not parsed by the grammar: white space around the identifier is the only layout there is
            for c in (0, len(base[bi])):
                for iname, ins in LAYOUT_INSERTS:
                    if ins.strip() == "":
                        b2 = list(base)
                        b2[bi] = base[bi][:c] + ins + base[bi][c:]
                        yield ("layout:" + iname, "%s@%d" % (name, c), b2, None)
            continue
        text = base[bi]
        toks = tokens(text)
        cuts = sorted(set([0, len(text)] + [a for a, _, _ in toks] + [b for _, b, _ in toks]))
        if any(tok == "/*" for _, _, tok in toks):
            # everything after an unterminated comment opener is comment text: only boundaries before it are sites
            stop = min(a for a, _, tok in toks if tok == "/*")
            cuts = [c for c in cuts if c <= stop]
        for c in cuts:
            for iname, ins in (QUERY_INSERTS if name in QUERY_BLOCKS else LAYOUT_INSERTS):
                b2 = list(base)
                b2[bi] = text[:c] + ins + text[c:]
                yield ("layout:" + iname, "%s@%d" % (name, c), b2, None)
    # r1: redundant parentheses around every sub-expression of every slot; r3: alias at every node
    for sname in sorted(slots):
        t = slots[sname]
        used = any(("{%s}" % sname) in raw.get(n, tpl) for n, tpl in BLOCKS)
        if not used:
            continue
        for p in nodes(t):
            s2 = dict(slots)
            s2[sname] = replace_at(t, p, lambda x: ("PAREN", x))
            yield ("parens", "%s%s:%s" % (sname, list(p), get_at(t, p)[0]), render_blocks(s2, raw), None)
            a = alias_rewrite(get_at(t, p))
            if a is not None:
                s3 = dict(slots)
                s3[sname] = replace_at(t, p, lambda x: a)
                yield ("alias:" + get_at(t, p)[0], "%s%s" % (sname, list(p)), render_blocks(s3, raw), None)
    # r2': a scoped entity named like an outer entity (shadowing) vs. the same entity under its own fresh name
    names = [n for n, _ in BLOCKS]
    for ent, scope in (SCOPED.items() if not raw else []):      # only where every declaration of the model is intact
        idxs, fnline = [], None
        for sc in scope:
            if sc.startswith("fn:"):
                fnline = sc[3:]
            else:
                idxs.append(names.index(sc))
        scope_toks = set()
        for bi in idxs:
            scope_toks |= set(tok for _, _, tok in tokens(base[bi]))
        glines = base[0].split("\n")
        if fnline:
            li = [k for k, ln in enumerate(glines) if (" %s(" % fnline) in ln]
            if not li:
                continue
            scope_toks |= set(tok for _, _, tok in tokens(glines[li[0]]))
        if ent not in scope_toks:
            continue
        for outer in OUTER:
            if outer in scope_toks or (ent in ("pid", "shared", "lcnt") and outer in ("T2",)):
                continue
            if ent in PARAMETERS and outer in TYPE_NAMES:
                continue
            b2 = list(base)

            def ren(text):
                out, pos = [], 0
                for a, b, tok in tokens(text):
                    if tok == ent:
                        out.append(text[pos:a] + outer)
                        pos = b
                out.append(text[pos:])
                return "".join(out)
            for bi in idxs:
                b2[bi] = ren(base[bi])
            if fnline:
                gl = list(glines)
                gl[li[0]] = ren(gl[li[0]])
                b2[0] = "\n".join(gl)
            yield ("rename:shadowing", "%s->%s" % (ent, outer), b2, ("shadow", ent, outer))
    # r2: renaming, token level over all blocks
    toks_per_block = [tokens(b) for b in base]
    present = set(tok for tl in toks_per_block for _, _, tok in tl)
    for old in USER_IDS:
        if old not in present:
            continue
        for new in [FRESH] + SOFT:
            if old in NAMED_IN_XML and new in RESERVED_AS_XML_NAME:
                continue
            b2 = []
            for text, tl in zip(base, toks_per_block):
                out, pos = [], 0
                for a, b, tok in tl:
                    if tok == old:
                        out.append(text[pos:a] + new)
                        pos = b
                out.append(text[pos:])
                b2.append("".join(out))
            yield ("rename:" + ("fresh" if new == FRESH else "soft-keyword"), "%s->%s" % (old, new), b2, (old, new))


# ---- observation and comparison ----------------------------------------------------------------------------------
def canon(resp, ren):
    """what the property compares: diagnostics (messages), verdict, document; renaming mapped back"""
    if resp.get("died"):
        return {"died": True}
    msgs = sorted(e["msg"] for e in resp.get("errors", []))
    wmsgs = sorted(e["msg"] for e in resp.get("warnings", []))
    qs = [{"exc": q.get("exc"), "ret": q.get("ret"), "props": q.get("props"), "msgs": sorted(q.get("msgs", []))}
          for q in resp.get("queries", [])]
    dump = resp.get("dump")
    if isinstance(dump, dict):
        dump = dict(dump)
        dump.pop("queries", None)       # the formula text itself (compared through the parsed queries)
    c = {"exc": resp.get("exc"), "ret": resp.get("ret"), "errors": msgs, "warnings": wmsgs, "methods": resp.get("methods"),
         "dump": dump, "queries": qs}
    if ren is not None:
        old, new = ren
        s = json.dumps(c, sort_keys=True)
        s = re.sub(r"(?<![A-Za-z0-9_$#])%s(?![A-Za-z0-9_$#])" % re.escape(new), old, s)
        c = json.loads(s)
        resort(c)
    return c


def resort(x):
    """the dump prints pointer-ordered symbol sets sorted by name; after mapping a renaming back they are re-sorted"""
    if isinstance(x, dict):
        for k, v in x.items():
            if k in ("changes", "depends") and isinstance(v, list):
                v.sort()
            else:
                resort(v)
    elif isinstance(x, list):
        for v in x:
            resort(v)


def first_difference(a, b, path=""):
    if type(a) != type(b):
        return path, a, b
    if isinstance(a, dict):
        for k in ("exc", "ret", "errors", "warnings", "methods", "queries", "dump"):
            if k in a or k in b:
                d = first_difference(a.get(k), b.get(k), path + "/" + k)
                if d:
                    return d
        for k in sorted(set(a) | set(b)):
            d = first_difference(a.get(k), b.get(k), path + "/" + k)
            if d:
                return d
        return None
    if isinstance(a, list):
        for i in range(min(len(a), len(b))):
            d = first_difference(a[i], b[i], "%s[%d]" % (path, i))
            if d:
                return d
        return None if len(a) == len(b) else (path + "[len]", len(a), len(b))
    return None if a == b else (path, a, b)


WANT = ["dump", "queries", "noinv"]


def run_fills(w, fills):
    out = []
    Bsz = 40
    for i in range(0, len(fills), Bsz):
        chunk = fills[i:i + Bsz]
        req = {"op": "xmls", "tpl": SKELETON, "fills": [[X.esc(b) for b in f] for f in chunk], "want": WANT}
        try:
            r = w.call(req, 60.0)
            if "harness_error" in r:
                raise RuntimeError(r["harness_error"])
            out.extend(r["results"])
        except engine.WorkerDied:
            for f in chunk:
                r = w.call_safe({"op": "xmls", "tpl": SKELETON, "fills": [[X.esc(b) for b in f]], "want": WANT}, 20.0)
                out.append(r if r.get("died") else r["results"][0])
    return out


def doc_of(blocks):
    parts = SKELETON.split("\x01")
    s = parts[0]
    for b, p in zip(blocks, parts[1:]):
        s += X.esc(b) + p
    return s


def model_shard(arg):
    vname, vi, lo, hi, tier = arg
    part = engine.Part()
    w = engine.worker("fast")
    slots = base_slots()
    _, so, raw = variants(tier)[vi]
    slots.update(so)
    base_blocks = render_blocks(slots, raw)
    rws = list(rewrites(slots, raw, tier))[lo:hi]
    res = run_fills(w, [base_blocks] + [r[2] for r in rws])
    base = canon(res[0], None)
    if res[0].get("died"):
        raise RuntimeError("base model %s kills the worker" % vname)
    for (fam, site, blocks, ren), r in zip(rws, res[1:]):
        if ren is not None and ren[0] == "shadow":
            judge_shadow(part, vname, res[0], r, fam, site, blocks, base_blocks, ren)
            continue
        part.count()
        part.nontrivial_case("%s|%s|%s" % (vname, fam, site))
        rp = {"op": "xml", "buf": doc_of(blocks), "want": WANT, "base": doc_of(base_blocks), "variant": vname, "family": fam, "site": site}
        if engine.check_crash(part, PID, r, "%s %s %s" % (vname, fam, site), rp):
            continue
        c = canon(r, ren)
        d = first_difference(base, c)
        if d is None:
            part.outcome("%s:invariant" % fam.split(":")[0])
            if len(part.samples) < 1 and fam.startswith("rename"):
                part.sample({"variant": vname, "family": fam, "site": site, "block": blocks[0][:200]})
            continue
        part.outcome("%s:verdict-changed" % fam.split(":")[0])
        what = d[0].split("/")[1].split("[")[0] if "/" in d[0] else d[0]
        sig = signature(fam, site, ren, what)
        part.violation(sig, "%s model, rewrite %s at %s changes %s: base=%s rewritten=%s" %
                       (vname, fam, site, d[0], json.dumps(d[1])[:160], json.dumps(d[2])[:160]), rp)
    return part.result()


def judge_shadow(part, vname, base_resp, r, fam, site, blocks, base_blocks, ren):
    """variant: the scoped entity `ent` carries the name of the outer entity `outer`.  Expected: the base model's result
    with ent spelled outer (the two stay distinguishable through their declared types), plus shadowing warnings."""
    _, ent, outer = ren
    part.count()
    part.nontrivial_case("%s|%s|%s" % (vname, fam, site))
    rp = {"op": "xml", "buf": doc_of(blocks), "want": WANT, "base": doc_of(base_blocks), "variant": vname, "family": fam, "site": site}
    if engine.check_crash(part, PID, r, "%s %s %s" % (vname, fam, site), rp):
        return
    exp = canon(base_resp, (outer, ent))        # spell ent as outer in the base result
    got = canon(r, None)
    for c in (exp, got):
        c["warnings"] = [w for w in c["warnings"] if "hadows" not in w]
    d = first_difference(exp, got)
    if d is None:
        part.outcome("rename:invariant")
        return
    part.outcome("rename:verdict-changed")
    what = d[0].split("/")[1].split("[")[0] if "/" in d[0] else d[0]
    part.violation("%s:%s:%s" % (fam, site, what), "%s model: with the scoped declaration %s named like the outer %s the result differs from the "
                   "same model with a fresh name at %s: fresh=%s shadowing=%s" % (vname, ent, outer, d[0], json.dumps(d[1])[:160], json.dumps(d[2])[:160]), rp)


def signature(fam, site, ren, what):
    if ren is not None:
        return "%s:%s:%s" % (fam, site, what)
    # layout / parens / alias: the block (or slot) and the kind of site, not the byte offset
    blk = re.split(r"[@\[]", site)[0]
    tail = site.split(":")[-1] if fam == "parens" else ""
    return "%s:%s%s:%s" % (fam, blk, (":" + tail) if tail else "", what)


# ---- second space: redundant parentheses around every node of every depth-2 expression tree ---------------------
def expr_shard(arg):
    shard, nshards = arg
    part = engine.Part()
    w = engine.worker("fast")
    items = []
    for i, (name, t) in enumerate(G.depth2()):
        if i % nshards != shard:
            continue
        items.append((name, None, G.render(t, False)))
        for p in nodes(t):
            items.append((name, p, G.render(replace_at(t, p, lambda x: ("PAREN", x)), False)))
    ctx = {"kind": "decl", "text": G.DECL}
    Bsz = 400
    results = []
    for i in range(0, len(items), Bsz):
        req = {"op": "exprs", "ctx": ctx, "items": [it[2] for it in items[i:i + Bsz]], "typecheck": True}
        r = w.call_safe(req, 60.0)
        if r.get("died"):
            raise RuntimeError("expression batch died: %s" % json.dumps(r)[:300])
        results.extend(r["results"])
    base = None
    for (name, p, text), r in zip(items, results):
        obs = {"exc": r.get("exc"), "perr": sorted(e["msg"] for e in r.get("perr", [])), "sexpr": r.get("sexpr"),
               "terr": sorted(e["msg"] for e in r.get("terr", [])), "twarn": sorted(e["msg"] for e in r.get("twarn", [])),
               "tkind": r.get("tkind")}
        if p is None:
            base = obs
            continue
        part.count()
        part.nontrivial_case(text)
        if obs == base:
            part.outcome("expr-parens:invariant" + ("/rejected" if base["perr"] or base["terr"] else "/accepted"))
            continue
        part.outcome("expr-parens:verdict-changed")
        d = first_difference(base, obs)
        part.violation("expr-parens:%s:%s" % (name.split("/")[0], d[0]), "expression `%s` (tree %s): a redundant pair of parentheses changes %s: %s -> %s"
                       % (text, name, d[0], json.dumps(d[1])[:160], json.dumps(d[2])[:160]),
                       {"op": "exprs", "ctx": ctx, "items": [text], "typecheck": True})
    return part.result()


# ---- one name declared in two scopes: renaming the declaration of ONE scope (with its uses) is a meaning-preserving rewrite ---
# {X} is the shared name, {s} a scope suffix for the auxiliary names; kinds with a well-formed and several ill-formed spellings
SAME_NAME_KINDS = {
    "range-typedef": ("typedef int[0,{a}] {X}; {X} v{s};", {"good": dict(a="3"), "bound-not-computable": dict(a="gn"), "empty-range": dict(a="-1")}),
    "record-typedef": ("typedef struct {{ int fa; {a} }} {X}; {X} v{s};", {"good": dict(a="int fb;"), "duplicate-field": dict(a="int fa;"),
                                                                          "void-field": dict(a="void fb;")}),
    "array-typedef": ("typedef int {X}[{a}]; {X} v{s};", {"good": dict(a="2"), "size-not-computable": dict(a="gn"), "negative-size": dict(a="-2")}),
    "array-variable": ("int {X}[{a}];", {"good": dict(a="2"), "size-not-computable": dict(a="gn")}),
    "constant": ("const int {X} = {a}; int w{s}[{X}];", {"good": dict(a="2"), "initialiser-not-computable": dict(a="gn")}),
    "function": ("int {X}(int q) {{ {a} }} int u{s} = 1;", {"good": dict(a="return q;"), "missing-return": dict(a="q = 1;"),
                                                            "unknown-name-in-body": dict(a="return nosuch;")}),
    "scalar-typedef": ("typedef scalar[{a}] {X}; {X} v{s};", {"good": dict(a="2"), "size-not-computable": dict(a="gn")}),
}
SAME_NAME_SCOPES = ("global", "template-P", "template-Q", "function-body")


def same_name_doc(kind, names, health):
    """names/health: scope -> name of the declaration in that scope (None: not declared there) / spelling id"""
    tpl, spell = SAME_NAME_KINDS[kind]
    text = {}
    for sc in SAME_NAME_SCOPES:
        text[sc] = tpl.format(X=names[sc], s=sc[-1].lower() + "x", **spell[health[sc]]) if names.get(sc) else ""
    g = "int gn; " + text["global"] + (" void holder() { %s }" % text["function-body"] if text["function-body"] else "")
    mk = lambda n, d, lid: X.template(n, decl=d or None, locations=[X.location(lid, "L" + n)], init=lid)      # noqa: E731
    return X.nta(g, [mk("P", text["template-P"], "id0"), mk("Q", text["template-Q"], "id1")], "system P, Q;")


def same_name_cases():
    import itertools
    for kind, (tpl, spell) in SAME_NAME_KINDS.items():
        for sa, sb in itertools.combinations(SAME_NAME_SCOPES, 2):
            if kind == "function" and "function-body" in (sa, sb):
                continue        # no nested functions
            for ha in spell:
                for hb in spell:
                    for renamed in (sa, sb):
                        yield kind, sa, sb, ha, hb, renamed


def run_same_name(arg):
    i, n = arg
    part = engine.Part()
    w = engine.worker("fast")
    cases = [c for k, c in enumerate(same_name_cases()) if k % n == i]
    docs = []
    for kind, sa, sb, ha, hb, renamed in cases:
        health = {sa: ha, sb: hb}
        base = same_name_doc(kind, {sa: "xname", sb: "xname"}, health)
        rw = same_name_doc(kind, {sa: FRESH if renamed == sa else "xname", sb: FRESH if renamed == sb else "xname"}, health)
        docs += [base, rw]
    res = X.run_docs(w, docs, want=["noinv"], batch=50)
    for k, (kind, sa, sb, ha, hb, renamed) in enumerate(cases):
        rb, rr = res[2 * k], res[2 * k + 1]
        part.count()
        key = "%s:%s=%s:%s=%s:renamed-%s" % (kind, sa, ha, sb, hb, renamed)
        rp = {"op": "xml", "buf": docs[2 * k], "rewritten": docs[2 * k + 1], "case": key}
        if engine.check_crash(part, PID, rb, "same-name base " + key, rp) or engine.check_crash(part, PID, rr, "same-name rewritten " + key, rp):
            continue
        part.nontrivial_case("same-name:" + key)
        mb = sorted(m.replace(FRESH, "xname") for m in X.msgs(rb))
        mr = sorted(m.replace(FRESH, "xname") for m in X.msgs(rr))
        if mb != mr or rb.get("exc") != rr.get("exc"):
            part.outcome("same-name:verdict-changes")
            part.violation("same-name:diagnostics:%s:%s:%s" % (kind, ha + "+" + hb, "fewer-in-base" if len(mb) < len(mr) else "more-in-base"),
                           "%s: renaming the declaration of scope %s changes the diagnostics: %s -> %s" % (key, renamed, mb[:3], mr[:3]), rp)
        elif rb.get("methods") != rr.get("methods"):
            part.outcome("same-name:verdict-changes")
            part.violation("same-name:methods:%s" % kind, "%s: supported methods change under renaming" % key, rp)
        else:
            part.outcome("same-name:invariant/" + ("rejected" if mb else "accepted"))
    return part.result()


# ---- the keyword operators in models of the 3.x syntax ---------------------------------------------------------------------
OLD_ALIASES = {"and": "&&", "or": "||", "not": "!", "imply": None}      # imply has no symbolic spelling: a imply b == !(a) || (b)
OLD_TEXTS = {       # place -> texts with {0} {1} slots for an alias each
    "guard": ["i == 0 {0} j > 1", "{0} (i == 0) {1} j > 1", "i == 0 {0} j > 1 {1} i < 3", "{0} {1} (i == 0)", "(i == 0 {0} j > 1) {1} x >= 2"],
    "invariant": ["x <= 5 {0} i >= 0", "{0} (i < 0) {1} x <= 5"],
    "assign": ["i := (j > 1 {0} i == 0) ? 1 : 0", "j := {0} (i == 0) ? 2 : 3"],
    "initialiser": ["(2 > 1 {0} 1 > 0) ? 1 : 0"],
}


def old_syntax_cases():
    import itertools
    for place, texts in OLD_TEXTS.items():
        for tx in texts:
            nslots = 2 if "{1}" in tx else 1
            binary = ["and", "or", "imply"]
            for combo in itertools.product(binary + ["not"], repeat=nslots):
                # a slot directly in front of an operand takes the unary alias, one between operands a binary alias
                ok = True
                for k, a in enumerate(combo):
                    unary_slot = (tx.split("{%d}" % k)[0].rstrip() == "" or tx.split("{%d}" % k)[0].rstrip().endswith(("(", "{0}", ":=", "and", "or")))
                    if unary_slot != (a == "not"):
                        ok = False
                if ok:
                    yield place, tx, combo


def old_model(place, text, xml):
    d = {"guard": "i == 0", "invariant": "x <= 5", "assign": "i := 1", "initialiser": "1"}
    d[place] = text
    if xml:
        t = X.template("T", locations=[X.location("id0", "A", inv=d["invariant"]), X.location("id1", "B")], init="id0",
                       transitions=[X.transition("id0", "id1", guard=d["guard"], assign=d["assign"])])
        return X.nta("int i; int j; clock x; int k := %s;" % d["initialiser"], [t], "system T;")
    return ("int i; int j; clock x; int k := %s;\nprocess T { state A { %s }, B; init A; trans A -> B { guard %s; assign %s; }; }\nsystem T;\n"
            % (d["initialiser"], d["invariant"], d["guard"], d["assign"]))


def symbolic(text, combo):
    """the same expression with the aliases in their symbolic forms"""
    out = text
    for k, a in enumerate(combo):
        if a == "imply":
            # a imply b  ->  !(a) || (b): only used with a parenthesis-free left operand up to the previous slot / start
            left, right = out.split("{%d}" % k, 1)
            head = ""
            m = re.search(r"^(.*(?:\{\d\}|:=|\())(.*)$", left, re.S)
            if m:
                head, left = m.group(1), m.group(2)
            out = "%s !(%s) || (%s" % (head, left.strip(), right.strip())
            # close the right operand at the first top-level closer or the end
            depth, pos = 0, len(out)
            start = out.rindex("|| (") + 4
            for j in range(start, len(out)):
                ch = out[j]
                if ch == "(":
                    depth += 1
                elif ch == ")":
                    if depth == 0:
                        pos = j
                        break
                    depth -= 1
                elif ch == "?" and depth == 0:
                    pos = j
                    break
            out = out[:pos].rstrip() + ")" + (" " if pos < len(out) else "") + out[pos:]
        else:
            out = out.replace("{%d}" % k, OLD_ALIASES[a], 1)
    return out


def run_old_syntax(_):
    part = engine.Part()
    w = engine.worker("fast")
    for place, tx, combo in old_syntax_cases():
        if "imply" in combo and (len(combo) > 1 or place == "assign"):
            continue        # (imply next to another alias: its symbolic form depends on the grouping; kept to the single-alias texts)
        kw = tx.format(*combo)
        sym = symbolic(tx, combo)
        for xml in (False, True):
            a, b = old_model(place, kw, xml), old_model(place, sym, xml)
            ra, rb = X.run_docs(w, [a, b], want=["dump", "nosymtypes", "noinv"], kind="xml" if xml else "xta", newxta=False)
            part.count()
            key = "old-syntax:%s:%s:%s" % ("xml" if xml else "xta", place, kw)
            rp = {"op": "xml" if xml else "xta", "newxta": False, "buf": a, "rewritten": b, "want": ["dump", "nosymtypes"]}
            if engine.check_crash(part, PID, ra, key, rp) or engine.check_crash(part, PID, rb, key + " (symbolic)", rp):
                continue
            part.nontrivial_case(key)
            if X.msgs(ra) != X.msgs(rb) or ra.get("exc") != rb.get("exc"):
                part.outcome("old-syntax:verdict-changes")
                part.violation("old-syntax:diagnostics:%s:%s" % (place, "+".join(combo)),
                               "3.x %s `%s` vs `%s`: diagnostics %s vs %s" % (place, kw, sym, X.msgs(ra)[:2], X.msgs(rb)[:2]), rp)
            elif not X.msgs(ra) and (first_difference(ra.get("dump"), rb.get("dump")) or ra.get("methods") != rb.get("methods")):
                part.outcome("old-syntax:verdict-changes")
                part.violation("old-syntax:document:%s:%s" % (place, "+".join(combo)), "3.x %s `%s` vs `%s`: documents differ at %s" %
                               (place, kw, sym, first_difference(ra.get("dump"), rb.get("dump"))), rp)
            else:
                part.outcome("old-syntax:invariant/" + ("rejected" if X.msgs(ra) else "accepted"))
    return part.result()


def main():
    t = engine.tier()
    rep = engine.Report(PID, "exploration",
                        "metamorphic enumeration on the real parser/checker: for every base model (a rich accepted model and one "
                        "rejected variant per diagnostic class) every site of three rewrite families is applied singly - layout "
                        "(8 insertions at every token boundary of every text block; a redundant pair of parentheses around every "
                        "sub-expression), consistent renaming of every user identifier to a fresh name and to each soft keyword, "
                        "keyword-operator aliases in either direction at every occurrence - and diagnostics (messages), supported "
                        "methods, document dump and parsed queries are compared with the base model's; plus redundant parentheses "
                        "around every node of every depth-2 expression tree of the C02 enumeration. One name in two scopes: 7 kinds of "
                        "declaration (typedefs of ranges, records, arrays and scalar sets, array variables, constants, functions) x every "
                        "pair of scopes (global, two templates, a function body) x every pair of well-formed / ill-formed spellings x the "
                        "renaming of either declaration alone. Models of the 3.x syntax (XTA and XML): the keyword operators and / or / not / imply "
                        "at every slot of 10 guard, invariant, update and initialiser texts against their symbolic forms. A case is one (model, rewrite site).")
    vs = variants(t)
    jobs = []
    for vi, (vname, so, raw) in enumerate(vs):
        slots = base_slots()
        slots.update(so)
        n = sum(1 for _ in rewrites(slots, raw, t))
        rep.extra["rewrites:" + vname] = n
        step = 400
        for lo in range(0, n, step):
            jobs.append((vname, vi, lo, min(n, lo + step), t))
    for res in engine.pmap(model_shard, jobs):
        rep.merge(res)
    ns = engine.ncpu() * 2
    for res in engine.pmap(expr_shard, [(i, ns) for i in range(ns)]):
        rep.merge(res)
    for res in engine.pmap(run_same_name, [(i, engine.ncpu()) for i in range(engine.ncpu())]):
        rep.merge(res)
    rep.merge(run_old_syntax(None))
    if not os.environ.get("UTAPV_REPO") and not rep.outcomes.get("old-syntax:invariant/accepted"):
        raise RuntimeError("C09 generator bug: no 3.x model is accepted")
    rep.assumptions = ["a newline inside a query is not a layout rewrite (it separates queries); queries get blank/tab/comment only",
                       "messages are compared as multisets, positions ignored, the renaming mapped back by whole-word replacement",
                       "the base model uses every identifier for one entity (the function parameter v twice), so token-level renaming is consistent",
                       "trusts lib/exprgen.py to render a tree with a marked redundant pair of parentheses / an alias spelling"]
    sys.exit(rep.finish())


if __name__ == "__main__":
    main()
