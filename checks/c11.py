#!/usr/bin/env python3
"""C11 — expressions that must be side-effect free are rejected if they can
write state.  Full matrix of side-effect-free contexts x write forms; every
cell has a twin in which the write is replaced by a read (must be accepted), so
a vacuous "always rejects" cannot pass."""
import os
import sys

sys.path.insert(0, os.path.join(os.path.dirname(os.path.abspath(__file__)), "..", "lib"))
import engine
import xmlgen as X

PID = "C11"

# v: the global that is written; k: a constant (twins in compile-time contexts may only read constants)
GDECL = """int v; int w[2]; struct { int f; int g; } st; const int k = 1; clock x; chan c[3]; int other;
int rd() { return v; }
int rk() { return k; }
"""


def fn(name, body):
    return "int %s() { %s }\n" % (name, body)


# (id, declarations needed, expression that writes, twin expression that only reads, twin expression reading constants only)
def write_forms():
    F = []
    ops = ["=", "+=", "-=", "*=", "/=", "%=", "|=", "&=", "^=", "<<=", ">>="]
    for op in ops:
        F.append(("assign" + op, "", "(v %s 1)" % op, "(v + 1)", "(k + 1)"))
    F.append(("post++", "", "(v++)", "(v + 1)", "(k + 1)"))
    F.append(("pre++", "", "(++v)", "(v + 1)", "(k + 1)"))
    F.append(("post--", "", "(v--)", "(v - 1)", "(k - 1)"))
    F.append(("pre--", "", "(--v)", "(v - 1)", "(k - 1)"))
    F.append(("array-element", "", "(w[0] = 1)", "(w[0] + 1)", "(k + 1)"))
    F.append(("array-element++", "", "(w[1]++)", "(w[1] + 1)", "(k + 1)"))
    F.append(("struct-field", "", "(st.f = 1)", "(st.f + 1)", "(k + 1)"))
    F.append(("inline-if-lvalue", "", "((v > 0 ? v : other) = 1)", "(v > 0 ? v : other)", "(k > 0 ? k : 2)"))
    F.append(("comma", "", "(other == 0 ? (v = 1) : 2)", "(other == 0 ? v : 2)", "(k == 0 ? k : 2)"))
    # every write operator again inside a function body (the function's write set is computed separately)
    for op in ops:
        F.append(("fn-assign" + op, fn("fo", "v %s 1; return k;" % op), "fo()", "rd()", "rk()"))
    for nm, st in (("fn-post++", "v++;"), ("fn-pre--", "--v;"), ("fn-array", "w[1] = 2;"), ("fn-field", "st.g = 2;"),
                   ("fn-inline-if-lvalue", "(k > 0 ? v : other) = 1;"), ("fn-nested-call-arg", "other = rd() + (v = 2);")):
        F.append((nm, fn("fo", st + " return k;"), "fo()", "rd()", "rk()"))
    # functions: direct writer and call chains
    F.append(("call-writer", fn("f1", "v = 1; return k;"), "f1()", "rd()", "rk()"))
    F.append(("call-chain-2", fn("f1", "v = 1; return k;") + fn("f2", "return f1();"), "f2()", "rd()", "rk()"))
    F.append(("call-chain-3", fn("f1", "v = 1; return k;") + fn("f2", "return f1();") + fn("f3", "return f2() + 1;"), "f3()",
              "rd()", "rk()"))
    F.append(("call-chain-stmt", fn("f1", "v = 1; return k;") + fn("f2", "int t = 0; t = f1(); return t;"), "f2()", "rd()", "rk()"))
    # the write inside every statement form (twin: same statement form, reading)
    stm = {
        "if": ("if (k == 1) { %s } return k;", "if (k == 1) { return k; } return k;"),
        "else": ("if (k == 0) { return k; } else { %s } return k;", "if (k == 0) { return k; } else { return 2; }"),
        "for-body": ("for (i = 0; i < 2; i++) { %s } return k;", "for (i = 0; i < 2; i++) { t = t + k; } return t;"),
        "for-init": ("for (%s i < 2; i++) { } return k;", "for (i = 0; i < 2; i++) { } return k;"),
        "for-step": ("for (i = 0; i < 2; i++, v++) { } return k;", "for (i = 0; i < 2; i++) { } return k;"),
        "for-cond": ("for (i = 0; (v = 1) < 0; i++) { } return k;", "for (i = 0; k < 0; i++) { } return k;"),
        "while-body": ("while (i < 1) { i++; %s } return k;", "while (i < 1) { i++; } return k;"),
        "while-cond": ("while ((v = 0) > 0) { i++; } return k;", "while (k < 0) { i++; } return k;"),
        "do-while": ("do { i++; %s } while (i < 1); return k;", "do { i++; } while (i < 1); return k;"),
        "do-while-cond": ("do { i++; } while ((v = 0) > 0); return k;", "do { i++; } while (k < 0); return k;"),
        "for-init-expression": ("for (i = (v = 0); i < 2; i++) { } return k;", "for (i = k - k; i < 2; i++) { } return k;"),
        "if-condition": ("if ((v = 1) > 0) { i++; } return k;", "if (k > 0) { i++; } return k;"),
        "return-in-branch": ("if (k > 5) { return (v = 1); } return k;", "if (k > 5) { return k; } return k;"),
        "after-returning-loop": ("while (i < 0) { i++; return k; } v = 1; return k;", "while (i < 0) { i++; return k; } i = 1; return k;"),
        "iteration": ("for (j : int[0,1]) { %s } return k;", "for (j : int[0,1]) { t = t + j; } return t;"),
        "nested-block": ("{ { { %s } } } return k;", "{ { { t = k; } } } return t;"),
        "return-expr": ("return (v = 1);", "return k;"),
        "local-initialiser-then-write": ("int u = k; %s return u;", "int u = k; return u;"),
    }
    for sid, (wt, rt) in stm.items():
        wbody = "int i = 0; int t = 0; " + (wt % "v = 1;" if "%s" in wt else wt)
        rbody = "int i = 0; int t = 0; " + rt
        F.append(("stmt-" + sid, fn("g1", wbody) + fn("g0", rbody), "g1()", "g0()", "g0()"))
    # through reference parameters
    F.append(("ref-param-write", "int h1(int &r) { r = 1; return k; }\nint h0(const int &r) { return r; }\n", "h1(v)", "h0(v)", "h0(k)"))
    F.append(("ref-param-array", "int h1(int &r[2]) { r[0] = 1; return k; }\nint h0(const int &r[2]) { return r[0]; }\nconst int kw[2] = {1, 2};\n",
              "h1(w)", "h0(w)", "h0(kw)"))
    F.append(("ref-param-chain", "int h1(int &r) { r++; return k; }\nint h2(int &r) { return h1(r); }\nint h0(const int &r) { return r; }\n",
              "h2(v)", "h0(v)", "h0(k)"))
    # product of target shapes x write operators inside a function that also has locals: the function's may-write set must
    # contain the non-local alternative of every conditional / indexed / selected target; twin: the same operator on a local
    shapes = [("global", "v"), ("array-const-index", "w[0]"), ("array-local-index", "w[loc]"), ("field", "st.f"),
              ("cond-global-global", "(k > 0 ? v : other)"), ("cond-local-global", "(k > 0 ? loc : v)"),
              ("cond-global-local", "(k > 0 ? v : loc)"), ("cond-localarr-globalarr", "(k > 0 ? la[0] : w[1])"),
              ("cond-nested-else", "(k > 0 ? loc : (k > 1 ? loc : v))"), ("cond-nested-then", "(k > 0 ? (k > 1 ? loc : v) : loc)"),
              ("cond-param-global", "(k > 0 ? par : v)"), ("cond-field", "(k > 0 ? lst : st).f"),
              ("cond-array-base", "(k > 0 ? la : w)[0]")]
    wops = [("=", "%s = 1;"), ("+=", "%s += 1;"), ("post++", "%s++;"), ("pre--", "--%s;")]
    for sid, target in shapes:
        for oid, stmt in wops:
            body = "int loc = 0; int la[2]; struct { int f; int g; } lst; " + (stmt % target) + " return k;"
            twin = "int loc = 0; int la[2]; struct { int f; int g; } lst; " + (stmt % "loc") + " return k + loc;"
            F.append(("target-%s-%s" % (sid, oid), "int fo(int par) { %s }\nint fl(int par) { %s }\n" % (body, twin), "fo(1)", "fl(1)", "fl(1)"))
    # negative controls: writes that stay local to the function are fine
    return F


# where inside the context's expression the (int valued) writing sub-expression sits
WRAPPERS = [("bare", "%s"), ("operand", "(%s + 1)"), ("right-operand", "(2 * %s)"), ("call-argument", "idf(%s)"), ("array-index", "kw2[(%s) & 1]"),
            ("inline-if-condition", "(%s > 0 ? 1 : 2)"), ("inline-if-branch", "(k > 0 ? %s : 1)"), ("unary-minus", "(-%s)"),
            ("nested-call-argument", "idf(idf(%s) + 1)"), ("comparison", "(%s >= 0 ? 1 : 0)")]
WRAP_DECL = "int idf(int q) { return q; }\nconst int kw2[2] = {1, 2};\n"

CORE_FORMS = {"array-element", "struct-field", "inline-if-lvalue", "target-cond-local-global-=", "target-global-post++", "stmt-if",
              "stmt-while-cond", "call-chain-3"}
LOCAL_ONLY = ("local-only-writer", "int lw() { int t = 0; t = 1; t++; return t + k; }\n", None, "lw()", "lw()")


def T(params=None, decl="", inv=None, guard=None, sync=None, assign=None, select=None, prob=None, kind=None):
    if kind is not None:        # the invariant on an urgent / committed location
        return X.template("T", params=params, decl=decl, locations=[X.location("id0", "L0", inv=inv, urgent=kind == "urgent", committed=kind == "committed"),
                                                                  X.location("id1", "L1")],
                          init="id0", transitions=[X.transition("id0", "id1", select=select, guard=guard, sync=sync, assign=assign)])
    if prob is not None:
        return X.template("T", params=params, decl=decl,
                          locations=[X.location("id0", "L0", inv=inv), X.location("id1", "L1")], branchpoints=["id2"], init="id0",
                          transitions=[X.transition("id0", "id2", guard=guard), X.transition("id2", "id1", prob=prob),
                                       X.transition("id2", "id0", prob="1")])
    return X.template("T", params=params, decl=decl, locations=[X.location("id0", "L0", inv=inv), X.location("id1", "L1")],
                      init="id0", transitions=[X.transition("id0", "id1", select=select, guard=guard, sync=sync, assign=assign)])


LSC_OBS = ('<lsc><name>Obs</name><parameter>const int a, const int b</parameter><type>Universal</type><mode>Invariant</mode><declaration></declaration>'
           '<yloccoord number="0" y="10"/><yloccoord number="1" y="20"/><yloccoord number="2" y="30"/>'
           '<instance id="id7" x="0" y="0"><name>P</name></instance><instance id="id8" x="10" y="0"><name>P2</name></instance>'
           '<prechart x="0" y="0"><lsclocation>1</lsclocation></prechart>'
           '<message x="0" y="0"><source ref="id7"/><target ref="id8"/><lsclocation>0</lsclocation><label kind="message">c[0]</label></message>'
           '<condition x="0" y="0"><anchor instanceid="id7"/><lsclocation>2</lsclocation><temperature>hot</temperature>'
           '<label kind="condition">x &gt;= a + b</label></condition></lsc>')


def lsc_nta(d, instantiation):
    return X.nta(d, [T()], "P = T(); P2 = T();\n%s\nsystem P, P2;" % instantiation).replace("<system>", LSC_OBS + "<system>", 1)


SYS = "P = T(); system P;"

# context id -> (builder(decl, e) -> document, compile_time?)   e is int valued
CONTEXTS = {
    "guard": (lambda d, e: X.nta(d, [T(guard="%s == 1" % e)], SYS), False),
    "invariant": (lambda d, e: X.nta(d, [T(inv="%s >= 0" % e)], SYS), False),
    "invariant-clock-bound": (lambda d, e: X.nta(d, [T(inv="x <= %s" % e)], SYS), False),
    "invariant-urgent-location": (lambda d, e: X.nta(d, [T(inv="%s >= 0" % e, kind="urgent")], SYS), False),
    "invariant-committed-location": (lambda d, e: X.nta(d, [T(inv="%s >= 0" % e, kind="committed")], SYS), False),
    "sync-index": (lambda d, e: X.nta(d, [T(sync="c[%s]!" % e)], SYS), False),
    "probability": (lambda d, e: X.nta(d, [T(prob=e)], SYS), False),
    "select-bound": (lambda d, e: X.nta(d, [T(select="s : int[0,%s]" % e)], SYS), True),
    "global-initialiser": (lambda d, e: X.nta(d + "int q = %s;" % e, [T()], SYS), True),
    "local-initialiser": (lambda d, e: X.nta(d, [T(decl="int q = %s;" % e)], SYS), True),
    "array-size": (lambda d, e: X.nta(d + "int arr[%s + 1];" % e, [T()], SYS), True),
    "range-bound": (lambda d, e: X.nta(d + "int[0, %s + 5] r;" % e, [T()], SYS), True),
    "instantiation-argument": (lambda d, e: X.nta(d, [T(params="const int p")], "P = T(%s); system P;" % e), True),
    "argument-of-a-partial-instance": (lambda d, e: X.nta(d, [T(params="const int p, const int p2")], "Q(const int c) = T(c, 5); P = Q(%s); system P;" % e), True),
    "argument-of-a-partial-instance-of-one": (lambda d, e: X.nta(d, [T(params="const int p, const int p2")],
                                                                    "Q(const int c, const int c2) = T(c, c2); R(const int r) = Q(r, 1); P = R(%s); system P;" % e), True),
    "argument-inside-a-partial-instance": (lambda d, e: X.nta(d, [T(params="const int p, const int p2")], "Q(const int c) = T(c, %s); P = Q(1); system P;" % e), True),
    # arguments of an LSC chart and of a partial instance of one (their instantiations are kept apart from those of templates)
    "argument-of-lsc-chart": (lambda d, e: lsc_nta(d, "Scenario = Obs(%s, 3);" % e), True),
    "argument-of-partial-instance-of-lsc-chart": (lambda d, e: lsc_nta(d, "Half(const int hk) = Obs(hk, 3); Scenario = Half(%s);" % e), True),
    # a template that the system line does not name is checked like any other
    "guard-in-unused-template": (lambda d, e: X.nta(d, [T(), X.template("U", locations=[X.location("id7", "M0"), X.location("id8", "M1")], init="id7",
                                                                        transitions=[X.transition("id7", "id8", guard="%s == 1" % e)])], SYS), False),
    "invariant-in-unused-template": (lambda d, e: X.nta(d, [X.template("U", locations=[X.location("id7", "M0", inv="%s >= 0" % e)], init="id7"), T()], SYS), False),
    "local-initialiser-in-unused-template": (lambda d, e: X.nta(d, [T(), X.template("U", decl="int q = %s;" % e, locations=[X.location("id7", "M0")], init="id7")], SYS), True),
    # initialisers and sizes of function-local declarations, also in blocks that consist of declarations only (no statement follows)
    "function-local-initialiser": (lambda d, e: X.nta(d + "void lf() { int u = %s; }" % e, [T(assign="lf()")], SYS), False),
    "function-local-initialiser-in-declaration-only-block": (lambda d, e: X.nta(d + "void lf() { { int u0 = k; int u = %s; } }" % e, [T(assign="lf()")], SYS), False),
    "function-local-initialiser-in-declaration-only-loop-body": (lambda d, e: X.nta(d + "void lf() { for (j : int[0,1]) { int u = %s; } }" % e, [T(assign="lf()")], SYS), False),
    "function-local-initialiser-in-declaration-only-branch": (lambda d, e: X.nta(d + "void lf() { if (k == 1) { } else { const int u = %s; } }" % e, [T(assign="lf()")], SYS), False),
    "function-local-array-size-in-declaration-only-block": (lambda d, e: X.nta(d + "void lf() { { { int u[%s + 1]; } } }" % e, [T(assign="lf()")], SYS), True),
    "template-function-local-initialiser-in-declaration-only-block": (lambda d, e: X.nta(d, [T(decl="void lf() { while (k < 0) { int u = %s; } }" % e, assign="lf()")], SYS), False),
    "forall-body": (lambda d, e: X.nta(d, [T(guard="forall (i : int[0,1]) %s + i >= 0" % e)], SYS), False),
    "exists-body": (lambda d, e: X.nta(d, [T(guard="exists (i : int[0,1]) %s + i >= 0" % e)], SYS), False),
    "sum-body": (lambda d, e: X.nta(d, [T(guard="(sum (i : int[0,1]) %s) >= 0" % e)], SYS), False),
    "assert": (lambda d, e: X.nta(d + "void chk() { assert(%s >= 0); }" % e, [T(assign="chk()")], SYS), False),
    "chan-priority-index": (lambda d, e: X.nta(d + "chan priority c[%s] < default;" % e, [T()], SYS), True),
    "guard-nested-in-update-call-arg": (lambda d, e: X.nta(d, [T(guard="(%s > 0 ? 1 : 0) == 1" % e)], SYS), False),
}
QUERY_CONTEXTS = {"query-E<>": "E<> %s >= 0", "query-A[]": "A[] %s >= 0", "query-leadsto": "%s >= 0 --> true",
                  "query-sup": "sup: %s"}


def run_shard(cid):
    part = engine.Part()
    w = engine.worker("fast")
    forms = write_forms() + [LOCAL_ONLY]
    # a write form is a cell only if the library accepts it where writes are allowed (as an update)
    cal = X.run_docs(w, [X.nta(GDECL + decl, [T(assign="other = %s" % we)], SYS) for fid, decl, we, re_, rk in forms if we is not None],
                     want=["noinv"], batch=50)
    valid = {}
    for (fid, decl, we, re_, rk), r in zip([f for f in forms if f[2] is not None], cal):
        valid[fid] = (not r.get("died")) and X.accepted(r)
    for fid, ok in valid.items():
        if not ok:
            part.add("forms_not_valid_as_update", [fid])
    forms = [f for f in forms if f[2] is None or valid.get(f[0])]
    docs, meta = [], []
    if cid in CONTEXTS:
        mk, ct = CONTEXTS[cid]
        for fid, decl, we, re_, rk in forms:
            # every wrapper for the core forms, the bare placement for the rest (the product stays small)
            wrs = WRAPPERS if (engine.tier() == "thorough" or fid.startswith(("assign", "post", "pre", "call-", "fn-assign=", "ref-param")) or fid in CORE_FORMS) else WRAPPERS[:1]
            for wid, wr in wrs:
                tag = fid if wid == "bare" else fid + "@" + wid
                if we is not None:
                    docs.append(mk(GDECL + WRAP_DECL + decl, wr % we))
                    meta.append((tag, "write", wr % we))
                twin = rk if ct else re_
                docs.append(mk(GDECL + WRAP_DECL + decl, wr % twin))
                meta.append((tag, "twin", wr % twin))
        res = X.run_docs(w, docs, want=["noinv"], batch=50)
        verdicts = [(None if r.get("died") else X.accepted(r), r) for r in res]
    else:
        tpl = QUERY_CONTEXTS[cid]
        verdicts = []
        for fid, decl, we, re_, rk in forms:
            ctx = {"kind": "xml", "text": X.nta(GDECL + decl, [T()], SYS)}
            items = ([tpl % we] if we is not None else []) + [tpl % re_]
            r = w.call_safe({"op": "queries", "ctx": ctx, "items": items}, timeout=60)
            if r.get("died"):
                for it in items:
                    verdicts.append((None, r))
                    docs.append(it)
            else:
                if r["ctx"]["errors"] or r["ctx"]["exc"]:
                    raise RuntimeError("C11 generator bug: query context model rejected: %s" % r["ctx"]["errors"][:2])
                for it, qr in zip(items, r["results"]):
                    ok = qr.get("exc") is None and not qr.get("err") and qr.get("nprops") == 1
                    verdicts.append((ok, {"errors": qr.get("err", []), "exc": qr.get("exc"), "stderr": r.get("stderr", "")}))
                    docs.append({"op": "queries", "ctx": ctx, "items": [it]})
            if we is not None:
                meta.append((fid, "write", we))
            meta.append((fid, "twin", re_))
    for (fid, role, e), doc, (acc, r) in zip(meta, docs, verdicts):
        part.count()
        rp = doc if isinstance(doc, dict) else {"op": "xml", "buf": doc}
        what = "%s in %s" % (e, cid)
        if engine.check_crash(part, PID, r, what, rp):
            continue
        part.nontrivial_case(cid + ":" + fid + ":" + role)
        msgs = sorted(set(x["msg"] for x in r.get("errors", [])))[:3]
        if role == "write":
            if acc:
                part.outcome("write-accepted")
                part.violation("write-accepted:%s:%s" % (cid, fid), "%s: the expression can write state but the model is accepted" % what, rp)
            else:
                part.outcome("write-rejected")
        else:
            if acc:
                part.outcome("twin-accepted")
                if len(part.samples) < 1 and fid.startswith("stmt"):
                    part.sample({"context": cid, "form": fid, "twin": e})
            else:
                part.outcome("twin-rejected")
                part.violation("twin-rejected:%s:%s" % (cid, fid), "%s: the read-only twin is rejected (%s) - the context rejects "
                               "without looking at writes" % (what, msgs), rp)
    return part.result()


def run_shadowed(_):
    """template-local writers of a global whose name is declared again *later* in the same template: what the function writes is
    the global (the later declaration is not in scope inside it), so the contexts must still reject it"""
    part = engine.Part()
    w = engine.worker("fast")
    writers = {"assign": "v = 1;", "increment": "v++;", "array-element": "w[0] = 1;", "compound": "v += other;"}
    shadows = {"after-the-function": ("{F}{C}int v; int w[2];", ), "between-function-and-caller": ("{F}int v; int w[2];{C}",),
               "no-later-declaration": ("{F}{C}",), "typedef-of-that-name-later": ("{F}{C}typedef int[0,1] v_t;",)}
    ctxs = {"guard": lambda d, e: X.nta(GDECL, [T(decl=d, guard="%s == 1" % e)], SYS),
            "invariant": lambda d, e: X.nta(GDECL, [T(decl=d, inv="%s >= 0" % e)], SYS),
            "sync-index": lambda d, e: X.nta(GDECL, [T(decl=d, sync="c[%s]!" % e)], SYS)}
    docs, meta = [], []
    for wid, stmt in writers.items():
        for sid, (layout,) in shadows.items():
            F = "int lf() { %s return k; } int lr() { return v + w[1]; }\n" % stmt
            C = "int lc() { return lf(); } int lcr() { return lr(); }\n"
            d = layout.format(F=F, C=C)
            for cid, mk in ctxs.items():
                for call, role in (("lf()", "write"), ("lc()", "write"), ("lr()", "twin"), ("lcr()", "twin")):
                    docs.append(mk(d, call))
                    meta.append(("%s:%s:%s:%s" % (cid, wid, sid, call), role))
    res = X.run_docs(w, docs, want=["noinv"], batch=50)
    for (key, role), doc, r in zip(meta, docs, res):
        part.count()
        rp = {"op": "xml", "buf": doc}
        if engine.check_crash(part, PID, r, key, rp):
            continue
        part.nontrivial_case("shadowed:" + key)
        acc = X.accepted(r)
        if role == "write" and acc:
            part.outcome("write-accepted")
            part.violation("write-accepted:later-declaration:" + key, "%s: a template-local function writes a global whose name is declared again later "
                           "in the template; the model is accepted" % key, rp)
        elif role == "twin" and not acc:
            part.outcome("twin-rejected")
            part.violation("twin-rejected:later-declaration:" + key, "%s: the read-only twin is rejected: %s" % (key, X.msgs(r)[:2]), rp)
        else:
            part.outcome("write-rejected" if role == "write" else "twin-accepted")
    return part.result()


def run_dynamic_orders(_):
    """the contexts inside the definition of a dynamic template whose announcement `dynamic D();` stands before, between or after
    the functions they call: a dynamic template is the one construct with a forward declaration, so its body may call functions
    that are declared after the announcement"""
    part = engine.Part()
    w = engine.worker("fast")
    F1 = "int f1() { v = 1; return k; } int rd1() { return v + k; }\n"
    F2 = "int f2() { return f1(); } int rd2() { return rd1(); }\nvoid wr(int &r) { r = 1; } int f4() { wr(v); return k; } int rd4() { int t = 0; wr(t); return t; }\n"
    layouts = {"announcement-first": "dynamic D();\n" + F1 + F2, "announcement-between": F1 + "dynamic D();\n" + F2,
               "announcement-last": F1 + F2 + "dynamic D();\n"}

    def D(decl="", inv=None, guard=None, sync=None, assign=None):
        return X.template("D", decl=decl, locations=[X.location("d0", "A", inv=inv), X.location("d1", "B")], init="d0",
                          transitions=[X.transition("d0", "d1", guard=guard, sync=sync, assign=assign)])
    ctxs = {"guard": lambda e: D(guard="%s == 1" % e), "invariant": lambda e: D(inv="%s >= 0" % e), "sync-index": lambda e: D(sync="c[%s]!" % e),
            "local-initialiser": lambda e: D(decl="int q = %s;" % e), "forall-body": lambda e: D(guard="forall (i : int[0,1]) %s + i >= 0" % e),
            "local-function-called-in-guard": lambda e: D(decl="int lf() { return %s; }" % e, guard="lf() == 1")}
    main_t = X.template("T", locations=[X.location("id0", "L0")], init="id0")
    docs, meta = [], []
    for lid, g in layouts.items():
        for cid, mk in ctxs.items():
            for call, role in (("f1()", "write"), ("f2()", "write"), ("f4()", "write"), ("rd1()", "twin"), ("rd2()", "twin"), ("rd4()", "twin")):
                if cid == "local-initialiser" and role == "twin":
                    call = "k + 1"      # an initialiser must be computable at compile time: the twin reads constants only
                for order in ("definition-first", "definition-last"):
                    tpls = [mk(call), main_t] if order == "definition-first" else [main_t, mk(call)]
                    docs.append(X.nta(GDECL + g, tpls, "system T;"))
                    meta.append(("%s:%s:%s:%s" % (lid, cid, order, call), role))
    res = X.run_docs(w, docs, want=["noinv"], batch=50)
    for (key, role), doc, r in zip(meta, docs, res):
        part.count()
        rp = {"op": "xml", "buf": doc}
        if engine.check_crash(part, PID, r, key, rp):
            continue
        part.nontrivial_case("dynamic-order:" + key)
        acc = X.accepted(r)
        if role == "write" and acc:
            part.outcome("write-accepted")
            part.violation("write-accepted:dynamic-template:" + key, "%s: a side-effect-free context inside the definition of a dynamic template "
                           "calls a function that writes a global; the model is accepted" % key, rp)
        elif role == "twin" and not acc:
            part.outcome("twin-rejected")
            part.violation("twin-rejected:dynamic-template:" + key, "%s: the read-only twin is rejected: %s" % (key, X.msgs(r)[:2]), rp)
        else:
            part.outcome("write-rejected" if role == "write" else "twin-accepted")
    return part.result()


# ---- the declared type of the variable whose initialiser / size / bound holds the expression ---------------------------------
# A type is a base, 0-3 array dimensions (each of size 2) cut into groups; every group but the last is a typedef of its own, the
# last group stands either on the variable or in one more typedef; prefixes on the variable and on the innermost typedef.
BASES = {"int": ("int", lambda e: e), "ranged": ("int[0, 9]", lambda e: "(%s) & 1" % e), "typedef-int": ("ti_t", lambda e: e),
         "record": ("rec_t", lambda e: "{ %s, 0 }" % e)}
BASE_DECL = "typedef int ti_t; typedef struct { int f; int g; } rec_t;\n"


def compositions(n):
    if n == 0:
        return [[]]
    return [[h] + t for h in range(1, n + 1) for t in compositions(n - h)]


def type_shapes(max_depth):
    out = []
    for depth in range(0, max_depth + 1):
        for groups in compositions(depth):
            for last_on_variable in ((True, False) if groups else (True,)):
                for vprefix in ("", "const ", "meta "):
                    for iprefix in (("", "const ") if (len(groups) > 1 or (groups and not last_on_variable)) else ("",)):
                        out.append((depth, tuple(groups), last_on_variable, vprefix, iprefix))
    return out


def declare(shape, base, place, e, filler):
    """(typedefs, variable declaration) with the int valued expression e at `place`; None if the shape has no such place"""
    depth, groups, on_var, vprefix, iprefix = shape
    btext, leaf = BASES[base]
    used = [False]

    def size(where):
        if place == where and not used[0]:
            used[0] = True
            return "(%s) * 0 + 2" % e
        return "2"
    if place == "range-bound":
        if base != "ranged":
            return None
        btext = "int[0, (%s) * 0 + 9]" % e
        used[0] = True
    tds, cur = [], btext
    inner = list(groups[:-1]) if on_var else list(groups)
    # groups are listed outermost first: the innermost group is declared first
    for n, g in enumerate(reversed(inner)):
        name = "t%d_t" % n
        dims = "".join("[%s]" % size("typedef-size" if n == 0 else "outer-typedef-size") for _ in range(g))
        tds.append("typedef %s%s %s%s;" % (iprefix if n == 0 else "", cur, name, dims))
        cur = name
    vdims = "".join("[%s]" % size("variable-size") for _ in range(groups[-1])) if (groups and on_var) else ""
    if place in ("typedef-size", "outer-typedef-size", "variable-size") and not used[0]:
        return None

    def init(d, path):
        if d == depth:
            first, last = all(i == 0 for i in path), all(i == 1 for i in path)
            if (place == "init-first" and first and not used[0]) or (place == "init-last" and last and (depth > 0 or not used[0])):
                used[0] = True
                return leaf(e)
            return leaf(filler)
        return "{ " + ", ".join(init(d + 1, path + [i]) for i in range(2)) + " }"
    need_init = place.startswith("init") or vprefix == "const " or iprefix == "const "
    text = "%s%s q%s%s;" % (vprefix, cur, vdims, (" = " + init(0, [])) if need_init else "")
    if place.startswith("init") and not used[0]:
        return None
    return "\n".join(tds), text


TYPE_PLACES = ["init-first", "init-last", "variable-size", "typedef-size", "outer-typedef-size", "range-bound"]
TYPE_FORMS = ["assign=", "post++", "array-element", "struct-field", "call-writer", "call-chain-3", "stmt-for-body", "ref-param-write"]


def type_items(thorough):
    forms = [f for f in write_forms() if f[0] in TYPE_FORMS or thorough and (f[0].startswith(("stmt-", "fn-", "ref-", "call-", "pre", "post", "assign")))]
    shapes = type_shapes(3)
    items = []
    for shape in shapes:
        for base in BASES:
            if shape[0] == 3 and base in ("typedef-int",) and not thorough:
                continue
            for place in TYPE_PLACES:
                if declare(shape, base, place, "1", "0") is None:
                    continue
                items.append((shape, base, place))
    return forms, items


def run_types(arg):
    """the writing expression in the initialiser, an array size or the range bound of a variable of every declared-type shape: the
    visitor that checks these dispatches on the variable's type with all array dimensions peeled off, whatever typedef names and
    prefixes sit between the dimensions"""
    thorough, shard, nshards = arg
    part = engine.Part()
    w = engine.worker("fast")
    forms, items = type_items(thorough)
    docs, meta = [], []
    for n, (shape, base, place) in enumerate(items):
        if n % nshards != shard:
            continue
        sid = "d%d:%s:%s:%s%s" % (shape[0], "+".join(map(str, shape[1])) or "-", "on-variable" if shape[2] else "all-in-typedefs",
                                  (shape[3].strip() or "plain"), ":inner-const" if shape[4] else "")
        for scope in ("global", "template-local", "typedefs-local-too"):
            for fid, decl, we, re_, rk in forms:
                for role, e in (("write", we), ("twin", rk)):
                    td, v = declare(shape, base, place, e, "0")
                    g = GDECL + BASE_DECL + decl
                    if scope == "global":
                        doc = X.nta(g + td + "\n" + v, [T()], SYS)
                    elif scope == "template-local":
                        doc = X.nta(g + td, [T(decl=v)], SYS)
                    else:
                        doc = X.nta(g, [T(decl=td + "\n" + v)], SYS)
                    docs.append(doc)
                    meta.append(("%s:%s:%s:%s:%s" % (scope, sid, base, place, fid), role, v))
    res = X.run_docs(w, docs, want=["noinv"], batch=50)
    for (key, role, v), doc, r in zip(meta, docs, res):
        part.count()
        rp = {"op": "xml", "buf": doc}
        if engine.check_crash(part, PID, r, key, rp):
            continue
        part.nontrivial_case("declared-type:%s:%s" % (key, role))
        acc = X.accepted(r)
        if role == "write" and acc:
            part.outcome("write-accepted")
            part.violation("write-accepted:declared-type:" + key, "`%s`: the declaration writes a variable but the model is accepted" % v, rp)
        elif role == "twin" and not acc:
            part.outcome("twin-rejected")
            part.violation("twin-rejected:declared-type:" + key, "`%s`: the twin that reads constants only is rejected: %s" % (v, X.msgs(r)[:2]), rp)
        else:
            part.outcome("write-rejected" if role == "write" else "twin-accepted")
    return part.result()


def run_builtins(_):
    """the write as an argument of a built-in function: every function x every argument position, in a guard and in an initialiser"""
    import exprgen as G
    part = engine.Part()
    w = engine.worker("fast")
    fns = dict(G.BUILTIN_ALL)
    fns.update(G.BUILTIN)
    decl = GDECL + "int f1() { v = 1; return k; }\n"
    cells = []
    for key, (name, arity) in sorted(fns.items()):
        for pos in range(arity):
            for wid, we, twin_run, twin_ct in (("assign", "(v = 1)", "(v + 1)", "(k + 1)"), ("increment", "v++", "v", "k"), ("writer-call", "f1()", "rd()", "rk()")):
                def call_(e):
                    args = ["1.0"] * arity
                    args[pos] = e
                    return "%s(%s)" % (name, ", ".join(args))
                cells.append(("builtin-argument:%s:arg%d:%s:guard" % (name, pos + 1, wid),
                              X.nta(decl, [T(guard="%s >= 0.0" % call_(we))], SYS), X.nta(decl, [T(guard="%s >= 0.0" % call_(twin_run))], SYS)))
                cells.append(("builtin-argument:%s:arg%d:%s:initialiser" % (name, pos + 1, wid),
                              X.nta(decl + "double q = %s;" % call_(we), [T()], SYS), X.nta(decl + "double q = %s;" % call_(twin_ct), [T()], SYS)))
    rw = X.run_docs(w, [c[1] for c in cells], want=["noinv"], batch=50)
    rt = X.run_docs(w, [c[2] for c in cells], want=["noinv"], batch=50)
    for (cid, dw, dt), a, b in zip(cells, rw, rt):
        part.count()
        rp = {"op": "xml", "buf": dw, "twin": dt}
        if engine.check_crash(part, PID, a, cid, rp) or engine.check_crash(part, PID, b, cid, rp):
            continue
        if not X.accepted(b):
            part.outcome("builtin-form-not-valid")      # the function does not take such an argument at all
            continue
        part.nontrivial_case(cid)
        if X.accepted(a):
            part.outcome("write-accepted")
            part.violation("write-accepted:" + cid, "%s: the argument writes a variable but the model is accepted" % cid, rp)
        else:
            part.outcome("write-rejected")
    return part.result()


def run_process_queries(_):
    """queries that call template-local functions through a process (P1.f()) or an element of a process set (T(1).f())"""
    part = engine.Part()
    w = engine.worker("fast")
    decl = ("int lv; int la[2]; int lw() { lv = 1; return 1; } int lg() { v = 2; return 1; } int linc() { return lv++; } int larr() { la[1] = 1; return 1; }\n"
            "int lchain() { return lw(); } void wr(int &r) { r = 1; } int lref() { wr(lv); return 1; } int lstmt() { if (k == 1) { for (i : int[0,1]) { lv += i; } } return 1; }\n"
            "int lr() { return lv + la[0] + v; } int lrchain() { return lr(); } int lloc() { int t = 0; wr(t); t++; return t; }")
    # (no non-broadcast channel: the SMC query forms are refused for such models whatever the query)
    doc = X.nta("int v; const int k = 1; clock x; broadcast chan bc;", [T(params="const int[0,1] pid", decl=decl)], "P1 = T(0); system P1, T;")
    writers = ["lw", "lg", "linc", "larr", "lchain", "lref", "lstmt"]
    readers = ["lr", "lrchain", "lloc"]
    forms = ["E<> {c} > 0", "A[] {c} >= 0", "{c} > 0 --> true", "sup: {c}", "E<> {c} + {c} > 0", "A[] forall (i : int[0,1]) {c} + i >= 0",
             "Pr[<=10](<> {c} > 0)", "simulate [<=10] {{ {c} }}", "E[<=10; 5](max: {c})"]
    items, meta = [], []
    for proc in ("P1", "T(1)"):
        for fname in writers + readers:
            for form in forms:
                items.append(form.format(c="%s.%s()" % (proc, fname)))
                meta.append((proc, fname, "write" if fname in writers else "twin"))
    req = {"op": "queries", "ctx": {"kind": "xml", "text": doc}, "items": items}
    r = w.call_safe(req, timeout=120)
    if r.get("died"):
        engine.check_crash(part, PID, r, "process-member queries", req)
        return part.result()
    if r["ctx"]["errors"] or r["ctx"]["exc"]:
        raise RuntimeError("C11 generator bug: model for process-member queries rejected: %s" % str(r["ctx"])[:300])
    for q, (proc, fname, role), x in zip(items, meta, r["results"]):
        part.count()
        part.nontrivial_case("process-query:" + q)
        rp = dict(req, items=[q])
        acc = x.get("sexpr") is not None and not x.get("err")
        if role == "write" and acc:
            part.outcome("write-accepted")
            part.violation("write-accepted:process-member-query:%s:%s" % (fname, q.split()[0]), "query `%s` is accepted although %s writes a variable" % (q, fname), rp)
        elif role == "twin" and not acc:
            part.outcome("twin-rejected")
            part.violation("twin-rejected:process-member-query:%s:%s" % (fname, q.split()[0]), "query `%s` (read-only function) is rejected: %s" %
                           (q, [e["msg"] for e in x.get("err", [])][:2]), rp)
        else:
            part.outcome("write-rejected" if role == "write" else "twin-accepted")
    return part.result()


def main():
    nforms = len(write_forms())
    rep = engine.Report(PID, "exploration",
                        "full matrix of %d side-effect-free contexts (guard, invariant, sync index, probability, select bound, "
                        "initialisers, array size, range bound, instantiation argument, forall/exists/sum body, assert, channel "
                        "priority, 4 query forms) x %d write forms (11 assignment operators, ++/-- pre/post, "
                        "array element, struct field, inline-if/comma lvalues, writer calls and chains of depth 1-3, the write inside "
                        "13 statement forms, reference parameters; 13 target shapes x 4 operators inside functions with locals) - each cell with a "
                        "read-only twin and a local-only-writer control; the core forms additionally at %d positions inside the "
                        "context's expression (operand, call argument, array index, inline-if condition/branch, ...). Declaration order: six contexts "
                        "inside the definition of a dynamic template x its announcement before / between / after the called functions x "
                        "{writer, call chain, reference-parameter wrapper} with read-only twins. Queries that call template-local functions through "
                        "a process or an element of a process set: 7 writers and 3 readers x 9 query forms x {P1.f(), T(1).f()}."
                        % (len(CONTEXTS) + len(QUERY_CONTEXTS), nforms, len(WRAPPERS)))
    for res in engine.pmap(run_shard, list(CONTEXTS) + list(QUERY_CONTEXTS)):
        rep.merge(res)
    rep.merge(run_shadowed(None))
    rep.merge(run_dynamic_orders(None))
    rep.merge(run_process_queries(None))
    rep.merge(run_builtins(None))
    thorough = engine.tier() == 'thorough'
    for res in engine.pmap(run_types, [(thorough, i, 32) for i in range(32)]):
        rep.merge(res)
    rep.assumptions = ["in compile-time contexts the twin reads constants only (a read of a variable is rejected there for C13's reason)",
                       "small scope: call chains up to depth 3, one representative per statement form"]
    sys.exit(rep.finish())


if __name__ == "__main__":
    main()
