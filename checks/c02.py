#!/usr/bin/env python3
"""C02 — parsed expression trees follow the language's precedence and
associativity.  Every abstract tree of the enumeration is rendered fully and
minimally parenthesised (reference operator table R1, lib/exprgen.py), parsed
by the real parser, and the tree handed to clients is compared with the
abstract tree; plus declaration/label/statement/query contexts and the literal
boundary grid."""
import os
import struct
import sys

sys.path.insert(0, os.path.join(os.path.dirname(os.path.abspath(__file__)), "..", "lib"))
import engine
import exprgen as G
import xmlgen

PID = "C02"
CTX = {"kind": "decl", "text": G.DECL}


def call(w, items, **kw):
    out = []
    for k in range(0, len(items), 500):
        req = {"op": "exprs", "ctx": CTX, "items": items[k:k + 500], "typecheck": False}
        req.update(kw)
        r = w.call_safe(req, timeout=120)
        if r.get("died"):
            for it in items[k:k + 500]:
                req["items"] = [it]
                r1 = w.call_safe(req, timeout=30)
                out.append(r1 if r1.get("died") else r1["results"][0])
            continue
        if r["ctx"]["errors"] or r["ctx"]["exc"]:
            raise RuntimeError("generator bug: declaration context rejected: %s" % r["ctx"])
        out.extend(r["results"])
    return out


def trees_for(shard):
    kind, i, n = shard
    if kind == "d1":
        return G.depth1()
    if kind == "d2":
        return [t for k, t in enumerate(G.depth2()) if k % n == i]
    if kind == "d3":
        return list(G.depth3_chains(i, n))
    if kind == "p2":
        return list(G.depth2_pairs(i, n))
    raise ValueError(kind)


def shape_sig(name):
    """(parent, slot, child) without deeper detail: the unit a precedence bug shows up in"""
    return "/".join(name.split("/")[:3])


def run_shard(shard):
    part = engine.Part()
    w = engine.worker("fast")
    ts = trees_for(shard)
    for mode in ("full", "min"):
        texts = [G.render(t, mode == "full") for _, t in ts]
        res = call(w, texts)
        for (name, t), text, r in zip(ts, texts, res):
            part.count()
            rp = {"op": "exprs", "ctx": CTX, "items": [text], "typecheck": False, "expected": G.expected(t)}
            if engine.check_crash(part, PID, r, text, rp):
                continue
            exp = G.expected(t)
            part.nontrivial_case(text)
            if r.get("exc") is not None or r.get("perr") or r.get("nfrag") != 1:
                part.outcome("rejected")
                part.violation("%s-rejected:%s" % (mode, shape_sig(name)),
                               "valid expression `%s` (%s parenthesisation of %s) is not parsed: %s" %
                               (text, mode, exp, [e["msg"] for e in r.get("perr", [])][:2] or r.get("exc")), rp)
                continue
            if r["sexpr"] == exp:
                part.outcome("tree-ok")
            else:
                part.outcome("tree-mismatch")
                part.violation("%s-tree:%s" % (mode, shape_sig(name)),
                               "`%s` parses to %s, operator table says %s" % (text, r["sexpr"], exp), rp)
            if len(part.samples) < 2 and mode == "min" and name.count("/") >= 2:
                part.sample({"tree": exp, "min_parens": text, "parsed": r["sexpr"]})
    return part.result()


# ---- contexts: the same text inside a declaration, a label, a statement and a query ----------------

def context_docs(text):
    decl = G.DECL
    t_init = xmlgen.nta(decl + "\nint v0 = " + text + ";",
                        [xmlgen.template("T", locations=[xmlgen.location("id0", "L0")], init="id0")], "system T;")
    t_guard = xmlgen.nta(decl, [xmlgen.template("T", locations=[xmlgen.location("id0", "L0")], init="id0",
                                               transitions=[xmlgen.transition("id0", "id0", guard=text)])], "system T;")
    t_assign = xmlgen.nta(decl, [xmlgen.template("T", locations=[xmlgen.location("id0", "L0")], init="id0",
                                                transitions=[xmlgen.transition("id0", "id0", assign=text)])], "system T;")
    t_stmt = xmlgen.nta(decl + "\nvoid ff() { " + text + "; }",
                        [xmlgen.template("T", locations=[xmlgen.location("id0", "L0")], init="id0")], "system T;")
    return [("init", t_init), ("guard", t_guard), ("assign", t_assign), ("stmt", t_stmt)]


def extract(ctx, dump):
    try:
        if ctx == "init":
            for v in dump["globals"]["vars"]:
                if v["name"] == "v0":
                    return v["init"]
        if ctx == "guard":
            return dump["templates"][0]["edges"][0]["guard"]
        if ctx == "assign":
            return dump["templates"][0]["edges"][0]["assign"]
        if ctx == "stmt":
            for f in dump["globals"]["funcs"]:
                if f["name"] == "ff":
                    b = f["body"]
                    i = b.index("(expr ")
                    return b[i + 6:b.rindex(")", 0, len(b) - 1)].strip()
    except (KeyError, IndexError, ValueError):
        pass
    return None


# ---- expressions in the positions of control statements, next to blocks that declare things -----------------------------------
STMT_BODIES = ["", "int t[2]; t[0] = 1;", "int t[2][3];", "int t[c + 1];", "typedef int[0,1] lt; lt q9;", "struct { int f; } sq;", "int t[int[0,1]];",
               "{ int u[2]; }", "int q9 = 1;", "int t[2] = { 1, 2 };", "const int n9 = 2; int t[n9];"]
STMT_POSITIONS = {      # name -> (function text with {E} and {B}, how the expected tree shows in the body)
    "if-condition": ("void ff() {{ if ({E}) {{ {B} }} }}", lambda b, e: ("(if " + e + " (block ") in b),
    "if-else-condition": ("void ff() {{ if ({E}) {{ {B} }} else {{ {B} }} }}", lambda b, e: ("(if " + e + " (block ") in b),
    "while-condition": ("void ff() {{ while ({E}) {{ {B} }} }}", lambda b, e: ("(while " + e + " (block ") in b),
    "do-while-condition": ("void ff() {{ do {{ {B} }} while ({E}); }}", lambda b, e: b.startswith("(block frame=[] (do (block ") and b.endswith(" " + e + "))")),
    "for-condition": ("void ff() {{ for (a = 0; {E}; a++) {{ {B} }} }}",
                      lambda b, e: ("(for (ASSIGN (IDENTIFIER a) (CONSTANT:INT 0)) " + e + " (POST_INCREMENT (IDENTIFIER a)) (block ") in b),
    "for-initialisation": ("void ff() {{ for ({E}; a < 3; a++) {{ {B} }} }}", lambda b, e: ("(for " + e + " (LT (IDENTIFIER a) (CONSTANT:INT 3)) ") in b),
    "for-step": ("void ff() {{ for (a = 0; a < 3; {E}) {{ {B} }} }}", lambda b, e: ("(LT (IDENTIFIER a) (CONSTANT:INT 3)) " + e + " (block ") in b),
    "return-after-block": ("int ff() {{ {{ {B} }} return {E}; }}", lambda b, e: b.endswith("(return " + e + "))")),
    "assert-after-block": ("void ff() {{ {{ {B} }} assert({E}); }}", lambda b, e: b.endswith("(assert " + e + "))")),
    "inner-if-in-while": ("void ff() {{ while (p) {{ if ({E}) {{ {B} }} }} }}", lambda b, e: ("(while (IDENTIFIER p) (block frame=[] (if " + e + " (block ") in b),
    "statement-after-if": ("void ff() {{ if (p) {{ {B} }} {E}; }}", lambda b, e: b.endswith("(expr " + e + "))")),
    "iteration-body": ("void ff() {{ for (i9 : int[0,1]) {{ {B} d = {E}; }} }}", lambda b, e: ("(expr (ASSIGN (IDENTIFIER d) " + e + "))") in b),
}


def run_statements(shard):
    i, n = shard
    part = engine.Part()
    w = engine.worker("fast")
    ts = [t for k, t in enumerate(G.depth1()) if k % n == i]
    docs, meta = [], []
    for name, t in ts:
        text = G.render(t, False)
        for pos, (tpl, _) in STMT_POSITIONS.items():
            for body in STMT_BODIES:
                docs.append(xmlgen.nta(G.DECL + "\n" + tpl.format(E=text, B=body),
                                       [xmlgen.template("T", locations=[xmlgen.location("id0", "L0")], init="id0")], "system T;"))
                meta.append((name, t, text, pos, body))
    res = xmlgen.run_docs(w, docs, want=["dump", "nosymtypes", "noinv"], batch=50)
    for (name, t, text, pos, body), doc, r in zip(meta, docs, res):
        part.count()
        rp = {"op": "xml", "buf": doc, "want": ["dump", "nosymtypes"], "position": pos, "expected": G.expected(t)}
        if engine.check_crash(part, PID, r, pos + ": " + text, rp):
            continue
        syntax = [e for e in r.get("errors", []) if "syntax" in e["msg"] or "unexpected" in e["msg"]]
        fb = [f["body"] for f in r.get("dump", {}).get("globals", {}).get("funcs", []) if f["name"] == "ff"]
        part.nontrivial_case("stmt:%s:%s:%s" % (pos, body, text))
        if syntax or not fb:
            part.outcome("stmt-rejected")      # (an assignment as a condition etc. may be refused by the grammar; nothing to compare)
            continue
        if STMT_POSITIONS[pos][1](fb[0], G.expected(t)):
            part.outcome("stmt-tree-ok")
        else:
            part.outcome("stmt-tree-mismatch")
            part.violation("stmt-tree:%s:%s" % (pos, "with-declarations" if body else "plain"),
                           "`%s` as the %s next to a block `{ %s }`: the statement handed to clients is %s, the expression's tree is %s"
                           % (text, pos, body, fb[0][:300], G.expected(t)), rp)
    return part.result()


def run_contexts(shard):
    part = engine.Part()
    w = engine.worker("fast")
    ts = trees_for(shard)
    docs, meta = [], []
    for name, t in ts:
        text = G.render(t, False)
        for ctx, doc in context_docs(text):
            docs.append(doc)
            meta.append((name, t, text, ctx))
    res = xmlgen.run_docs(w, docs, want=["dump", "nosymtypes", "noinv"], batch=50)
    for (name, t, text, ctx), doc, r in zip(meta, docs, res):
        part.count()
        rp = {"op": "xml", "buf": doc, "want": ["dump", "nosymtypes"], "context": ctx, "expected": G.expected(t)}
        if engine.check_crash(part, PID, r, ctx + ": " + text, rp):
            continue
        syntax = [e for e in r.get("errors", []) if "syntax" in e["msg"] or "unexpected" in e["msg"]]
        got = extract(ctx, r.get("dump", {}))
        exp = G.expected(t)
        part.nontrivial_case(ctx + ":" + text)
        if syntax or got is None:
            part.outcome("ctx-rejected")
            part.violation("ctx-%s-rejected:%s" % (ctx, shape_sig(name)),
                           "valid expression `%s` is not parsed inside a %s: %s" % (text, ctx, [e["msg"] for e in syntax][:2]), rp)
            continue
        if got != exp:
            part.outcome("ctx-tree-mismatch")
            part.violation("ctx-%s-tree:%s" % (ctx, shape_sig(name)),
                           "`%s` inside a %s parses to %s, operator table says %s" % (text, ctx, got, exp), rp)
        else:
            part.outcome("ctx-tree-ok")
    # queries: the same text as the state predicate of E<>
    qitems = [G.render(t, False) for _, t in ts]
    for k in range(0, len(qitems), 300):
        req = {"op": "queries", "ctx": {"kind": "decl", "text": G.DECL}, "items": ["E<> " + q for q in qitems[k:k + 300]]}
        r = w.call_safe(req, timeout=120)
        if r.get("died"):
            engine.check_crash(part, PID, r, "query batch", req)
            continue
        for (name, t), q, qr in zip(ts[k:k + 300], qitems[k:k + 300], r["results"]):
            part.count()
            exp = "(EF %s)" % G.expected(t)
            rp = {"op": "queries", "ctx": {"kind": "decl", "text": G.DECL}, "items": ["E<> " + q], "expected": exp}
            syntax = [e for e in qr.get("err", []) if "syntax" in e["msg"] or "unexpected" in e["msg"]]
            if qr.get("exc") and qr.get("std") is False:
                part.violation("query-nonstd-exc", "query `E<> %s` ends in a non-std exception" % q, rp)
                continue
            part.nontrivial_case("query:" + q)
            if syntax:
                part.outcome("query-rejected")
                part.violation("ctx-query-rejected:%s" % shape_sig(name), "valid expression `%s` is not parsed in a query: %s"
                               % (q, [e["msg"] for e in syntax][:2]), rp)
            elif qr.get("sexpr") is not None:
                if qr["sexpr"] != exp:
                    part.outcome("query-tree-mismatch")
                    part.violation("ctx-query-tree:%s" % shape_sig(name), "`E<> %s` parses to %s, expected %s" %
                                   (q, qr["sexpr"], exp), rp)
                else:
                    part.outcome("query-tree-ok")
            else:
                part.outcome("query-typeerror")   # rejected by the query type checker: tree not observable
    return part.result()


# ---- literals ----------------------------------------------------------------------------------------

def hexd(x):
    return float.hex(x).replace("0x1.0000000000000p", "0x1p").replace("0x0.0p+0", "0x0p+0")


def c_hex(x):
    """printf("%a") formatting of a double"""
    if x == 0:
        return "0x0p+0"
    m, e = float.hex(x).split("p")
    m = m.rstrip("0").rstrip(".") if "." in m else m
    return m + "p" + ("+" if not e.startswith("-") and not e.startswith("+") else "") + e


INT_LITS = ["0", "1", "007", "2147483647", "2147483648", "2147483649", "4294967295", "4294967296", "4294967297",
            "99999999999999999999", "000000000000000000001", "32767", "32768"]
FLT_LITS = ["0.0", "1.0", "0.1", "0.5", "1e308", "1.7976931348623157e308", "1.7976931348623158e308", "4.9e-324", "5e-324",
            "2.2250738585072011e-308", "2.2250738585072014e-308", "1e22", "1e23", "9007199254740993.0", "9007199254740992.0",
            "0.30000000000000004", "123456789012345678901234567890.0", "1.0000000001", "3.141592653589793115997963468544",
            "1E+2", "1e-2", "1.5e3", "2.5E-3", "1e0", "0.1e1", "100.0e-2", "1.0e+308", "2.4703282292062328e-324",
            "1.00000000000000011102230246251565404236316680908203125", "1.00000000000000011102230246251565404236316680908203126",
            "0.000001", "179769313486231570000000000000000000000000000000000000000000000000000000000000000000000000000000000000000"
            "000000000000000000000000000000000000000000000000000000000000000000000000000000000000000000000000000000000000000000"
            "00000000000000000000000000000000000000000000000000000000000000000000000000000000000000.0"]


def run_literals(rep):
    part = engine.Part()
    w = engine.worker("fast")
    items, meta = [], []
    for lit in INT_LITS:
        for form in ("%s", "- %s", "a - %s", "( %s )", "a + %s"):
            items.append(form % lit)
            meta.append(("int", lit, form))
    for lit in FLT_LITS:
        for form in ("%s", "- %s", "( %s )"):
            items.append(form % lit)
            meta.append(("flt", lit, form))
    res = call(w, items)
    for (kind, lit, form), text, r in zip(meta, items, res):
        part.count()
        rp = {"op": "exprs", "ctx": CTX, "items": [text], "typecheck": False}
        if engine.check_crash(part, PID, r, text, rp):
            continue
        part.nontrivial_case("lit:" + text)
        diag = bool(r.get("perr")) or r.get("exc") is not None
        sx = r.get("sexpr")
        if kind == "int":
            v = int(lit)
            if form == "%s" or form == "( %s )":
                exp = "(CONSTANT:INT %d)" % v if v <= 2147483647 else None
            elif form == "- %s":
                if v == 2147483648:
                    exp = "(CONSTANT:INT -2147483648)"
                else:
                    exp = "(UNARY_MINUS (CONSTANT:INT %d))" % v if v <= 2147483647 else None
            elif form == "a - %s":
                exp = "(MINUS (IDENTIFIER a) (CONSTANT:INT %d))" % v if v <= 2147483647 else None
            else:
                exp = "(PLUS (IDENTIFIER a) (CONSTANT:INT %d))" % v if v <= 2147483647 else None
            if exp is None:
                # not representable: must be rejected with a diagnostic, never silently changed
                if diag:
                    part.outcome("literal-rejected-with-diagnostic")
                else:
                    part.outcome("literal-silently-changed")
                    part.violation("int-literal-silent:%s:%s" % (form.replace(" ", ""), lit),
                                   "integer literal in `%s` is not representable but is accepted as %s" % (text, sx), rp)
            else:
                if diag:
                    part.outcome("literal-rejected-with-diagnostic")   # allowed by the statement ("or rejected")
                elif sx == exp:
                    part.outcome("literal-exact")
                else:
                    part.outcome("literal-changed")
                    part.violation("int-literal-changed:%s:%s" % (form.replace(" ", ""), lit),
                                   "`%s` parses to %s, expected %s" % (text, sx, exp), rp)
        else:
            try:
                v = float(lit)
            except (ValueError, OverflowError):
                v = float("inf")
            if v == float("inf"):
                part.outcome("float-out-of-range")
                continue   # outside the range of double: the statement makes no claim
            hx = c_hex(v)
            if form == "- %s":
                exp = "(UNARY_MINUS (CONSTANT:DOUBLE %s))" % hx
            else:
                exp = "(CONSTANT:DOUBLE %s)" % hx
            if diag:
                part.outcome("float-rejected")
                part.violation("float-literal-rejected:%s" % lit, "floating literal `%s` within the range of double is rejected: %s"
                               % (text, [e["msg"] for e in r.get("perr", [])][:2]), rp)
            elif sx == exp:
                part.outcome("float-nearest")
            else:
                part.outcome("float-not-nearest")
                part.violation("float-literal:%s" % lit, "`%s` parses to %s, the nearest double is %s" % (text, sx, exp), rp)
    part.sample({"literal": "- 2147483648", "expected": "(CONSTANT:INT -2147483648)"})
    rep.merge(part.result())


# ---- postfix chains on process sets: P(a, b, c).member - the arguments index the set in the order they are written -------------
def run_process_lookups(rep):
    import itertools
    part = engine.Part()
    w = engine.worker("fast")
    T = xmlgen.template("T", params="const int[0,1] u, const int[0,2] v, const int[0,3] k", decl="int x; int arr[2]; struct { int f; } st;",
                        locations=[xmlgen.location("id0", "L0")], init="id0")
    doc = xmlgen.nta("const int c0 = 0; const int c1 = 1; int gi;", [T],
                     "R(const int[0,1] u2, const int[0,2] v2) = T(u2, v2, c1);\nQ1(const int[0,1] u3) = T(u3, 1, 2);\nsystem T, R, Q1;")
    ARGS = {"0": "(CONSTANT:INT 0)", "1": "(CONSTANT:INT 1)", "c0": "(IDENTIFIER c0)", "c1": "(IDENTIFIER c1)",
            "1 - 1": "(MINUS (CONSTANT:INT 1) (CONSTANT:INT 1))", "c0 + 1": "(PLUS (IDENTIFIER c0) (CONSTANT:INT 1))"}
    MEMBERS = {".x == 0": "(EQ (DOT:3 %s) (CONSTANT:INT 0))", ".arr[1] == 0": "(EQ (ARRAY (DOT:4 %s) (CONSTANT:INT 1)) (CONSTANT:INT 0))",
               ".st.f == 0": "(EQ (DOT:0 (DOT:5 %s)) (CONSTANT:INT 0))", ".L0": "(DOT:6 %s)"}
    items, exp = [], []
    for name, arity in (("T", 3), ("R", 2), ("Q1", 1)):
        for combo in itertools.product(ARGS, repeat=arity):
            look = "(IDENTIFIER %s)" % name
            for a in combo:
                look = "(ARRAY %s %s)" % (look, ARGS[a])
            for m, mt in MEMBERS.items():
                items.append("E<> %s(%s)%s" % (name, ", ".join(combo), m))
                exp.append("(EF %s)" % (mt % look))
    for k in range(0, len(items), 300):
        req = {"op": "queries", "ctx": {"kind": "xml", "text": doc}, "items": items[k:k + 300]}
        r = w.call_safe(req, timeout=120)
        if r.get("died"):
            engine.check_crash(part, PID, r, "process lookups", req)
            continue
        if r["ctx"]["errors"] or r["ctx"]["exc"]:
            raise RuntimeError("C02 generator bug: process-set model rejected: %s" % str(r["ctx"])[:300])
        for q, e, qr in zip(items[k:k + 300], exp[k:k + 300], r["results"]):
            part.count()
            part.nontrivial_case("process-lookup:" + q)
            rp = dict(req, items=[q], expected=e)
            if qr.get("sexpr") is None or qr.get("err"):
                part.outcome("process-lookup-rejected")
                part.violation("process-lookup-rejected:%s" % q.split("(")[0][4:], "`%s` is not accepted: %s" % (q, qr.get("err")), rp)
            elif qr["sexpr"] != e:
                part.outcome("process-lookup-tree-mismatch")
                part.violation("process-lookup-tree:%s:arity%d" % (q.split("(")[0][4:], q.count(",") + 1), "`%s` parses to %s, expected %s" % (q, qr["sexpr"], e), rp)
            else:
                part.outcome("process-lookup-tree-ok")
    rep.merge(part.result())


# ---- string literals: every constant carries the text it was written with, whatever other strings the document holds ------------
def run_strings(rep):
    import itertools
    part = engine.Part()
    w = engine.worker("fast")
    decl = G.DECL + " int sfn(const string s) { return 1; } bool sknown(const string s, int n, const string t) { return true; }"
    pool = ["abc", "abc.def", "ab", "a", "abcd", "b", "abc def", "Abc"]
    items, exp = [], []
    for s1, s2 in itertools.product(pool, repeat=2):
        items.append('sknown ( "%s" , a , "%s" )' % (s1, s2))
        exp.append('(FUN_CALL:v4 (IDENTIFIER sknown) (CONSTANT:STRING "%s") (IDENTIFIER a) (CONSTANT:STRING "%s"))' % (s1, s2))
        items.append('sfn ( "%s" ) + sfn ( "%s" )' % (s1, s2))
        exp.append('(PLUS (FUN_CALL:v2 (IDENTIFIER sfn) (CONSTANT:STRING "%s")) (FUN_CALL:v2 (IDENTIFIER sfn) (CONSTANT:STRING "%s")))' % (s1, s2))
    # one request per item and one request for all: the strings a document already holds must not matter
    batches = [[k] for k in range(len(items))] + [list(range(len(items)))] + [list(range(len(items)))[::-1]]
    for b in batches:
        req = {"op": "exprs", "ctx": {"kind": "decl", "text": decl}, "items": [items[k] for k in b]}
        r = w.call_safe(req, timeout=120)
        if r.get("died"):
            engine.check_crash(part, PID, r, "string literals", req)
            continue
        for k, x in zip(b, r["results"]):
            part.count()
            part.nontrivial_case("string-literal:%s:%d" % (items[k], len(b)))
            rp = dict(req, expected=exp[k], item=items[k])
            if x.get("sexpr") != exp[k]:
                part.outcome("string-tree-mismatch")
                part.violation("string-literal-tree:%s" % ("alone" if len(b) == 1 else "after-other-strings"),
                               "`%s` parses to %s, expected %s" % (items[k], x.get("sexpr"), exp[k]), rp)
            else:
                part.outcome("string-tree-ok")
    rep.merge(part.result())


def main():
    rep = engine.Report(PID, "exploration",
                        "abstract expression trees over the full operator set (25 binary incl. aliases, 12 assignment, 6 prefix, "
                        "3 postfix, inline-if, index, field, calls with 0-2 args, 1/2/3-ary builtins, forall/exists/sum): every "
                        "constructor, every (parent,slot,child) triple%s; each rendered fully and minimally parenthesised and parsed "
                        "(S_EXPRESSION), plus inside an initialiser, a guard, an update, a statement and a query; plus the literal "
                        "boundary grid. distinct = distinct rendered text per context."
                        % (", every parent/slot/child/slot/grandchild chain and every binary parent with two non-leaf operands"
                           if engine.tier() == "thorough" else ""))
    n = engine.ncpu()
    shards = [("d1", 0, 1)] + [("d2", i, n) for i in range(n)]
    if rep.tier == "thorough":
        shards += [("d3", i, 4 * n) for i in range(4 * n)] + [("p2", i, 2 * n) for i in range(2 * n)]
    for res in engine.pmap(run_shard, shards):
        rep.merge(res)
    cshards = [("d1", 0, 1)] + [("d2", i, n) for i in range(n)]
    for res in engine.pmap(run_contexts, cshards):
        rep.merge(res)
    for res in engine.pmap(run_statements, [(i, engine.ncpu()) for i in range(engine.ncpu())]):
        rep.merge(res)
    run_literals(rep)
    run_process_lookups(rep)
    run_strings(rep)
    rep.assumptions = ["reference R1 (lib/exprgen.py) is an independent transcription of the UPPAAL operator table",
                       "?: and the assignment family are one right-associative group (C++ reading): an assignment as the else "
                       "operand needs no parentheses, an inline-if as the left operand of an assignment does; quantifier operands "
                       "are rendered with explicit parentheses",
                       "float reference = Python float() (correctly rounded)"]
    sys.exit(rep.finish())


if __name__ == "__main__":
    main()
