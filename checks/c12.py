#!/usr/bin/env python3
"""C12 — no accepted model writes to a constant.  Matrix of constness sources x
type shapes x write forms; each cell has a mutable twin that must be accepted."""
import os
import sys

sys.path.insert(0, os.path.join(os.path.dirname(os.path.abspath(__file__)), "..", "lib"))
import engine
import xmlgen as X

PID = "C12"

TYPES = "typedef int[0,5] Rng; typedef struct { int f; int g; } St; typedef const int CI;\nint m; bool b;\n"

# type shapes: (id, declaration template with {c} = "const " or "", {n} name, lvalue expression built from n)
SHAPES = [
    ("int", "{c}int {n}{i};", "{n}", " = 1"),
    ("bounded-typedef", "{c}Rng {n}{i};", "{n}", " = 1"),
    ("array-element", "{c}int {n}[2]{i};", "{n}[0]", " = {1, 2}"),
    ("array-element-var-index", "{c}int {n}[2]{i};", "{n}[m]", " = {1, 2}"),
    ("struct-field", "{c}St {n}{i};", "{n}.f", " = {1, 2}"),
    ("array-of-struct-field", "{c}St {n}[2]{i};", "{n}[1].g", " = {{1, 2}, {3, 4}}"),
    ("matrix-element", "{c}int {n}[2][2]{i};", "{n}[1][0]", " = {{1, 2}, {3, 4}}"),
    # record types written out in place (the prefix stands in front of `struct`, not in front of a type name)
    ("anonymous-struct-field", "{c}struct {{ int f; int a[2]; }} {n}{i};", "{n}.f", " = {1, {2, 3}}"),
    ("anonymous-struct-array-field", "{c}struct {{ int f; int a[2]; }} {n}{i};", "{n}.a[1]", " = {1, {2, 3}}"),
    ("array-of-anonymous-struct", "{c}struct {{ int f; int g; }} {n}[2]{i};", "{n}[1].g", " = {{1, 2}, {3, 4}}"),
    ("anonymous-struct-in-anonymous-struct", "{c}struct {{ struct {{ int f; }} in; int g; }} {n}{i};", "{n}.in.f", " = {{1}, 2}"),
    # initialisers and sizes with quantifiers in them (the declared type is decided after the initialiser has been parsed)
    ("int-sum-initialiser", "{c}int {n}{i};", "{n}", " = sum (qi : int[0,2]) qi"),
    ("int-forall-initialiser", "{c}int {n}{i};", "{n}", " = (forall (qi : int[0,1]) qi >= 0) ? 1 : 2"),
    ("int-exists-initialiser", "{c}int {n}{i};", "{n}", " = (exists (qi : int[0,1]) qi == 1) ? 1 : 2"),
    ("bounded-sum-initialiser", "{c}Rng {n}{i};", "{n}", " = sum (qi : int[0,1]) qi"),
    ("array-element-sum-initialiser", "{c}int {n}[2]{i};", "{n}[0]", " = {sum (qi : int[0,1]) qi, 2}"),
    ("array-size-with-quantifier", "{c}int {n}[(forall (qi : int[0,1]) qi >= 0) ? 2 : 3]{i};", "{n}[0]", " = {1, 2}"),
    ("second-declarator-after-quantifier", "{c}int first{n} = sum (qi : int[0,1]) qi, {n}{i};", "{n}", " = 1"),
]
# write forms on an lvalue X (statement text); {X} the target, {other} a mutable int of the same type
WRITES = [
    ("assign", "{X} = 1"), ("add-assign", "{X} += 1"), ("sub-assign", "{X} -= 1"), ("mul-assign", "{X} *= 2"),
    ("shift-assign", "{X} <<= 1"), ("xor-assign", "{X} ^= 1"),
    ("post-inc", "{X}++"), ("pre-inc", "++{X}"), ("post-dec", "{X}--"), ("pre-dec", "--{X}"),
    ("inline-if-then", "(b ? {X} : mo) = 1"), ("inline-if-else", "(b ? mo : {X}) = 1"),
    ("nested-inline-if", "(b ? (b ? mo : {X}) : mo) = 1"),
    ("chained-assign", "mo = {X} = 1"), ("ref-arg-function", "wr({X})"), ("ref-arg-function-chain", "wr2({X})"),
]
FUNS = "{E} mo; void wr({E} &r) {{ r = 1; }}\nvoid wr2({E} &r) {{ wr(r); }}\n"


def model(gdecl="", ldecl="", params=None, select=None, assign=None, system="P = T(); system P;", elem="int", unused=False):
    t = X.template("T", params=params, decl=ldecl, locations=[X.location("id0", "L0"), X.location("id1", "L1")], init="id0",
                   transitions=[X.transition("id0", "id1", select=select, assign=assign)])
    if unused:      # the template with the write is defined and never instantiated
        u = X.template("U", locations=[X.location("id7", "M0")], init="id7")
        return X.nta(TYPES + FUNS.format(E=elem) + gdecl, [t, u], "system U;")
    return X.nta(TYPES + FUNS.format(E=elem) + gdecl, [t], system)


def cells():
    """yields (cell id, const document, twin document or None)"""
    for sid, decl, lv, init in SHAPES:
        el = "Rng" if sid.startswith("bounded") else "int"
        for wid, wtext in WRITES:
            stmt = wtext.format(X=lv.format(n="t"))
            for c in ("const ", ""):
                d = decl.format(c=c, n="t", i=init)
                key = "%s:%s" % (sid, wid)
                # constness sources that admit this shape
                yield ("const-global:" + key, c, model(gdecl=d, assign=stmt, elem=el))
                # the global update hooks are updates, too
                if sid not in ("array-element-var-index",):
                    yield ("const-global-written-in-before-update:" + key, c, model(gdecl=d + " before_update { %s }" % stmt, elem=el))
                    yield ("const-global-written-in-after-update:" + key, c, model(gdecl=d + " after_update { mo = 2, %s }" % stmt, elem=el))
                    yield ("const-global-written-in-after-update-next-to-before-update:" + key, c,
                           model(gdecl=d + " before_update { mo = 1 } after_update { %s }" % stmt, elem=el))
                yield ("const-template-local:" + key, c, model(ldecl=d, assign=stmt, elem=el))
                yield ("const-template-local-of-unused-template:" + key, c, model(ldecl=d, assign=stmt, elem=el, unused=True))
                yield ("const-global-written-in-unused-template:" + key, c, model(gdecl=d, assign=stmt, elem=el, unused=True))
                yield ("const-in-function-local:" + key, c, model(gdecl="void fn() { %s %s; }" % (d, stmt), assign="fn()", elem=el))
                if sid == "second-declarator-after-quantifier" or sid == "array-size-with-quantifier":
                    continue        # (declaration lists and computed sizes are not parameter syntax)
                pdecl = decl.format(c=c, n="t", i="").rstrip(";")
                pdecl_ref = pdecl.replace(" t", " &t", 1)
                yield ("const-value-param-of-function:" + key, c,
                       model(gdecl="void fn(%s) { %s; }\n%s" % (pdecl, stmt, decl.format(c="", n="arg", i=init)), assign="fn(arg)", elem=el))
                yield ("const-ref-param-of-function:" + key, c,
                       model(gdecl="void fn(%s) { %s; }\n%s" % (pdecl_ref, stmt, decl.format(c="", n="arg", i=init)), assign="fn(arg)", elem=el))
                yield ("const-ref-param-of-template:" + key, c,
                       model(gdecl=decl.format(c="", n="arg", i=init), params=pdecl_ref, assign=stmt, system="P = T(arg); system P;", elem=el))
    # parameters by value of templates (int only: a template value parameter must be integral)
    for wid, wtext in WRITES:
        stmt = wtext.format(X="t")
        for c in ("const ", ""):
            yield ("const-value-param-of-template:int:" + wid, c, model(params="%sint t" % c, assign=stmt, system="P = T(1); system P;"))
    # typedef'd const
    for wid, wtext in WRITES:
        stmt = wtext.format(X="t")
        yield ("typedef-const:int:" + wid, "const ", model(gdecl="CI t = 1;", assign=stmt))
        yield ("typedef-const:int:" + wid, "", model(gdecl="int t = 1;", assign=stmt))
    # passing a const object on to a non-const reference parameter of a template
    for sid, decl, lv, init in SHAPES[:1] + SHAPES[2:3]:
        for c in ("const ", ""):
            d = decl.format(c=c, n="t", i=init)
            p = decl.format(c="", n="&p", i="").rstrip(";")
            yield ("ref-arg-template:%s" % sid, c, model(gdecl=d, params=p, assign="p%s = 1" % ("[0]" if "[" in decl else ""),
                                                        system="P = T(t); system P;"))
    # a constant that reaches a written reference parameter through the own parameters of partial instances (1 and 2 levels):
    # each level's declared constness has to be compared with the parameter it is bound to
    P1 = X.template("T", params="int &x", locations=[X.location("id0", "L0"), X.location("id1", "L1")], init="id0",
                    transitions=[X.transition("id0", "id1", assign="x = 1")])
    PA = X.template("T", params="int &a[2]", locations=[X.location("id0", "L0"), X.location("id1", "L1")], init="id0",
                    transitions=[X.transition("id0", "id1", assign="a[0] += 2")])
    G = "const int c = 1; int m; const int ca[2] = {1, 2}; int ma[2];"
    FORWARD = [
        ("value-const-param", P1, "Q(const int[0,3] k) = T(k); system Q;", "const "),
        ("const-ref-param", P1, "Q(const int &k) = T(k); R = Q(c); system R;", "const "),
        ("const-ref-param-bound-to-variable", P1, "Q(const int &k) = T(k); R = Q(m); system R;", "const "),
        ("ref-param", P1, "Q(int &k) = T(k); R = Q(m); system R;", ""),
        ("ref-param-bound-to-constant", P1, "Q(int &k) = T(k); R = Q(c); system R;", "const "),
        ("two-levels:const-then-mutable", P1, "Q1(const int &k) = T(k); Q2(int &j) = Q1(j); R = Q2(m); system R;", "const "),
        ("two-levels:mutable-then-const", P1, "Q1(int &k) = T(k); Q2(const int &j) = Q1(j); R = Q2(m); system R;", "const "),
        ("two-levels:mutable", P1, "Q1(int &k) = T(k); Q2(int &j) = Q1(j); R = Q2(m); system R;", ""),
        ("two-levels:mutable-bound-to-constant", P1, "Q1(int &k) = T(k); Q2(int &j) = Q1(j); R = Q2(c); system R;", "const "),
        ("array:const-ref-param", PA, "Q(const int &k[2]) = T(k); R = Q(ca); system R;", "const "),
        ("array:const-ref-param-bound-to-variable", PA, "Q(const int &k[2]) = T(k); R = Q(ma); system R;", "const "),
        ("array:ref-param", PA, "Q(int &k[2]) = T(k); R = Q(ma); system R;", ""),
        ("array:ref-param-bound-to-constant", PA, "Q(int &k[2]) = T(k); R = Q(ca); system R;", "const "),
        ("left-free:const-ref-param", P1, "Q(const int &k) = T(k); system Q;", "const "),
    ]
    for fid, t, system, c in FORWARD:
        yield ("forwarded-parameter:" + fid, c, X.nta(G, [t], system))
    # a constant bound to a written reference parameter of an LSC chart (its instantiations are kept apart from those of templates)
    chart = ('<lsc><name>Chart</name><parameter>int &amp;left, const int cb</parameter><type>Universal</type><mode>Invariant</mode><declaration></declaration>'
             '<yloccoord number="0" y="10"/><yloccoord number="1" y="20"/><yloccoord number="2" y="30"/>'
             '<instance id="id7" x="0" y="0"><name>P</name></instance><instance id="id8" x="10" y="0"><name>P2</name></instance>'
             '<prechart x="0" y="0"><lsclocation>1</lsclocation></prechart>'
             '<message x="0" y="0"><source ref="id7"/><target ref="id8"/><lsclocation>0</lsclocation><label kind="message">lc</label></message>'
             '<update x="0" y="0"><anchor instanceid="id8"/><lsclocation>2</lsclocation><label kind="update">left = left - cb</label></update></lsc>')
    tt = X.template("T", locations=[X.location("id0", "L0")], init="id0")
    for aid, cdecl, mdecl, arg in (("variable", "const int t = 5;", "int t = 5;", "t"), ("array-element", "const int t[2] = {1, 2};", "int t[2] = {1, 2};", "t[1]"),
                                   ("record-field", "const St t = {1, 2};", "St t = {1, 2};", "t.f")):
        for sid, system in (("direct", "Scenario = Chart(%s, 1);" % arg), ("through-partial-instance", "Half(int &hl) = Chart(hl, 1);\nScenario = Half(%s);" % arg)):
            for c, d in (("const ", cdecl), ("", mdecl)):
                doc = X.nta(TYPES + "chan lc; " + d, [tt], "P = T(); P2 = T();\n%s\nsystem P, P2;" % system).replace("<system>", chart + "<system>", 1)
                yield ("lsc-reference-argument:%s:%s" % (aid, sid), c, doc)
    # binders: select and iteration have mutable twins (a plain variable of the same type)
    for wid, wtext in WRITES:
        stmt = wtext.format(X="t")
        yield ("select-binder:int:" + wid, "const ", model(select="t : int[0,5]", assign=stmt))
        yield ("select-binder:int:" + wid, "", model(gdecl="int t;", assign=stmt))
        yield ("iteration-binder:int:" + wid, "const ", model(gdecl="void fn() { for (t : int[0,5]) { %s; } }" % stmt, assign="fn()"))
        yield ("iteration-binder:int:" + wid, "", model(gdecl="void fn() { int t; for (q : int[0,5]) { %s; } }" % stmt, assign="fn()"))
        # quantifier binders: no mutable twin exists (a write inside a quantified body is rejected anyway)
        for q in ("forall", "exists", "sum"):
            yield ("%s-binder:int:%s" % (q, wid), "const-no-twin",
                   model(assign="mo = (%s (t : int[0,5]) (%s)) > 0 ? 1 : 0" % (q, stmt) if q != "sum" else
                         "mo = (sum (t : int[0,5]) (%s))" % stmt))


# ---- constness buried inside composite types ---------------------------------------------------------------------------
# a type is ("int",) | ("ci",) | ("arr", T) | ("rec", [(field, T), ...]); const enters only through the typedef `CI`
def t_decl(t, name, defs, counter):
    """C-style declaration of `name` with type t; struct types get typedefs appended to defs. Returns (prefix, suffix)."""
    if t[0] == "int":
        return "int", ""
    if t[0] == "ci":
        return "CI", ""
    if t[0] == "arr":
        pre, suf = t_decl(t[1], name, defs, counter)
        return pre, "[2]" + suf
    counter[0] += 1
    tn = "R%d" % counter[0]
    body = ""
    for f, ft in t[1]:
        pre, suf = t_decl(ft, f, defs, counter)
        body += " %s %s%s;" % (pre, f, suf)
    defs.append("typedef struct {%s } %s;" % (body, tn))
    return tn, ""


def t_init(t, k=[0]):
    if t[0] in ("int", "ci"):
        k[0] += 1
        return str(k[0] % 5)
    if t[0] == "arr":
        return "{ %s, %s }" % (t_init(t[1]), t_init(t[1]))
    return "{ " + ", ".join(t_init(ft) for _, ft in t[1]) + " }"


def t_paths(t, prefix=""):
    """(access path to a scalar, is_const, [array-valued prefixes with constness])"""
    if t[0] == "int":
        return [(prefix, False)]
    if t[0] == "ci":
        return [(prefix, True)]
    if t[0] == "arr":
        return [(p, c) for idx in ("[1]", "[m]") for p, c in t_paths(t[1], prefix + idx)][:4]
    out = []
    for f, ft in t[1]:
        out += t_paths(ft, prefix + "." + f)
    return out


INT, CIT = ("int",), ("ci",)
ARR = lambda t: ("arr", t)                              # noqa: E731
REC = lambda *fs: ("rec", list(fs))                     # noqa: E731
COMPOSITES = {
    "array-of-const": ARR(CIT),
    "matrix-of-const": ARR(ARR(CIT)),
    "record-constarray-int": REC(("x", ARR(CIT)), ("y", INT)),
    "record-int-constarray": REC(("y", INT), ("x", ARR(CIT))),
    "record-constarray-array": REC(("x", ARR(CIT)), ("y", ARR(INT))),
    "record-constmatrix-int": REC(("x", ARR(ARR(CIT))), ("y", INT)),
    "array-of-record": ARR(REC(("x", ARR(CIT)), ("y", INT))),
    "record-in-record": REC(("inner", REC(("x", ARR(CIT)), ("y", INT))), ("z", INT)),
    "record-of-record-array": REC(("rs", ARR(REC(("x", ARR(CIT)), ("y", INT)))), ("z", INT)),
    "record-only-constarray": REC(("x", ARR(CIT))),
    "record-two-constarrays": REC(("x", ARR(CIT)), ("w", ARR(CIT)), ("y", INT)),
}
CWRITES = [("assign", "{X} = 1"), ("add-assign", "{X} += 1"), ("post-inc", "{X}++"), ("pre-dec", "--{X}"),
           ("inline-if-else", "(b ? mo : {X}) = 1"), ("inline-if-then", "(b ? {X} : mo) = 1"), ("ref-arg-function", "wr({X})"),
           ("ref-arg-function-chain", "wr2({X})")]


def demote(t):
    """the same type with every const leaf replaced by a mutable one: the mutable twin of a composite"""
    if t[0] == "ci":
        return INT
    if t[0] == "arr":
        return ("arr", demote(t[1]))
    if t[0] == "rec":
        return ("rec", [(f, demote(ft)) for f, ft in t[1]])
    return t


def composite_cells():
    """(cell id, 'const '|'sibling'|''|'decl', document)"""
    for cname, t0 in COMPOSITES.items():
        for variant, t in (("const", t0), ("twin", demote(t0))):
            defs, counter = [], [0]
            pre, suf = t_decl(t, "s", defs, counter)
            decl = "\n".join(defs) + "\n%s s%s = %s;\n" % (pre, suf, t_init(t))
            yield ("composite-declaration:%s:%s" % (cname, variant), "decl", model(gdecl=decl, assign="mo = 1"))
            for (path, _), (_, is_const) in zip(t_paths(t), t_paths(t0)):
                for wid, wtext in WRITES:
                    for where in ("update", "function-body", "reference-parameter"):
                        if where == "update":
                            doc = model(gdecl=decl, assign=wtext.format(X="s" + path))
                        elif where == "function-body":
                            doc = model(gdecl=decl + "void fn() { %s; }" % wtext.format(X="s" + path), assign="fn()")
                        else:
                            doc = model(gdecl=decl + "void fn(%s &p%s) { %s; }" % (pre, suf, wtext.format(X="p" + path)), assign="fn(s)")
                        role = ("const " if is_const else "sibling") if variant == "const" else ""
                        yield ("composite:%s:%s:%s:%s:%s" % (cname, variant, "const-path" if is_const else "mutable-path", wid, where) + "|" + path,
                               role, doc)


def run_composites(arg):
    i, n = arg
    part = engine.Part()
    w = engine.worker("fast")
    allc = list(composite_cells())
    decls = [c for c in allc if c[1] == "decl"]
    dres = X.run_docs(w, [c[2] for c in decls], want=["noinv"], batch=50)
    declarable = set()
    for (cid, _, doc), r in zip(decls, dres):
        if not r.get("died") and X.accepted(r):
            declarable.add(tuple(cid.split(":")[1:3]))
        elif i == 0:
            part.add("composite_types_not_declarable", [cid])
    cs = [c for k, c in enumerate(c for c in allc if c[1] != "decl" and tuple(c[0].split(":")[1:3]) in declarable) if k % n == i]
    res = X.run_docs(w, [c[2] for c in cs], want=["noinv"], batch=50)
    for (cid, c, doc), r in zip(cs, res):
        part.count()
        rp = {"op": "xml", "buf": doc}
        if engine.check_crash(part, PID, r, cid, rp):
            continue
        part.nontrivial_case(cid)
        acc = X.accepted(r)
        sig = cid.split("|")[0]
        if c == "sibling":
            # a mutable field next to a const array inside one record: the library treats the whole object as not assignable;
            # the statement does not settle this case, the verdict is recorded only
            part.outcome("mutable-sibling-of-const-part-" + ("accepted" if acc else "rejected"))
        elif c:
            if acc:
                part.outcome("const-write-accepted")
                part.violation("const-write-accepted:" + sig, "%s: a write into a const element buried in a composite type is accepted" % cid, rp)
            else:
                part.outcome("const-write-rejected")
        else:
            if acc:
                part.outcome("mutable-twin-accepted")
            else:
                part.outcome("mutable-twin-rejected")
                part.violation("twin-rejected:" + sig, "%s: the same write to a mutable sibling of the const element is rejected: %s"
                               % (cid, sorted(set(e["msg"] for e in r.get("errors", [])))[:2]), rp)
    return part.result()


# ---- constants bound to reference parameters of dynamic templates (spawn) -------------------------------------------------
def dynamic_cells():
    def doc(decl_param, def_param, body, arg, kind="int"):
        D = X.template("D", params=def_param, locations=[X.location("id5", "A"), X.location("id6", "B")], init="id5",
                       transitions=[X.transition("id5", "id6", assign=body)])
        T = X.template("T", locations=[X.location("id0", "L0"), X.location("id1", "L1")], init="id0",
                       transitions=[X.transition("id0", "id1", assign="spawn D(%s)" % arg)])
        return X.nta("const int c = 1; int m; int other; const int ca[2] = {1, 2}; int ma[2]; dynamic D(%s);" % decl_param, [D, T], "system T;")
    writes = {"assign": "k = 5", "compound": "k += 1", "increment": "k++", "inline-if": "(other > 0 ? k : other) = 1"}
    for wid, body in writes.items():
        # declaration and definition agree: a constant must not reach the writing reference parameter
        yield ("dynamic:ref-param-written:%s" % wid, "const ", doc("int &k", "int &k", body, "c"))
        yield ("dynamic:ref-param-written:%s" % wid, "", doc("int &k", "int &k", body, "m"))
        # declaration says const reference, definition drops the const and writes: the constant is written through the definition
        yield ("dynamic:declared-const-defined-mutable:%s" % wid, "const ", doc("const int &k", "int &k", body, "c"))
        # declaration mutable, definition const and reading only: harmless either way (twin)
        yield ("dynamic:const-ref-param-written:%s" % wid, "const ", doc("const int &k", "const int &k", body, "c"))
    yield ("dynamic:const-ref-param-read", "", doc("const int &k", "const int &k", "other = k", "c"))
    yield ("dynamic:value-param-read", "", doc("int k", "int k", "other = k", "c"))
    yield ("dynamic:ref-param-read", "", doc("int &k", "int &k", "other = k", "m"))


def run_dynamic(_):
    part = engine.Part()
    w = engine.worker("fast")
    cs = list(dynamic_cells())
    res = X.run_docs(w, [c[2] for c in cs], want=["noinv"], batch=50)
    for (cid, c, doc), r in zip(cs, res):
        part.count()
        rp = {"op": "xml", "buf": doc}
        if engine.check_crash(part, PID, r, cid, rp):
            continue
        part.nontrivial_case(cid + "|" + c)
        acc = X.accepted(r)
        if c and acc:
            part.outcome("const-write-accepted")
            part.violation("const-write-accepted:" + cid, "%s: a constant reaches a reference parameter of a dynamic template that writes it" % cid, rp)
        elif not c and not acc:
            part.outcome("mutable-twin-rejected")
            part.violation("twin-rejected:" + cid, "%s: rejected: %s" % (cid, sorted(set(e["msg"] for e in r.get("errors", [])))[:2]), rp)
        else:
            part.outcome("const-write-rejected" if c else "mutable-twin-accepted")
    return part.result()


def run_shard(arg):
    i, n = arg
    part = engine.Part()
    w = engine.worker("fast")
    cs = [c for k, c in enumerate(cells()) if k % n == i]
    res = X.run_docs(w, [c[2] for c in cs], want=["noinv"], batch=50)
    for (cid, c, doc), r in zip(cs, res):
        part.count()
        rp = {"op": "xml", "buf": doc}
        if engine.check_crash(part, PID, r, cid, rp):
            continue
        part.nontrivial_case(cid + "|" + c)
        acc = X.accepted(r)
        msgs = sorted(set(e["msg"] for e in r.get("errors", [])))[:2]
        if c.startswith("const"):
            if acc:
                part.outcome("const-write-accepted")
                part.violation("const-write-accepted:" + cid, "%s: a write to a constant is accepted" % cid, rp)
            else:
                part.outcome("const-write-rejected")
        else:
            if acc:
                part.outcome("mutable-twin-accepted")
                if len(part.samples) < 1:
                    part.sample({"cell": cid, "twin_accepted": True})
            else:
                part.outcome("mutable-twin-rejected")
                part.violation("twin-rejected:" + cid, "%s: the same write to a mutable object is rejected: %s" % (cid, msgs), rp)
    return part.result()


# ---- the write as an argument of a built-in function: every built-in x every argument position ---------------------------------
def run_builtins(_):
    sys.path.insert(0, os.path.join(os.path.dirname(os.path.abspath(__file__)), "..", "lib"))
    import exprgen as G
    part = engine.Part()
    w = engine.worker("fast")
    fns = dict(G.BUILTIN_ALL)
    fns.update(G.BUILTIN)
    cells_ = []
    for key, (name, arity) in sorted(fns.items()):
        for pos in range(arity):
            for wid, wr in (("assign", "(t = 2)"), ("increment", "t++"), ("array-element", "(ta[1] = 2)"), ("through-reference", "bump(t)")):
                args = ["1.0"] * arity
                args[pos] = wr
                stmt = "dsink = %s(%s)" % (name, ", ".join(args))
                for where in ("update", "function-body"):
                    docs = []
                    for c in ("const ", ""):
                        g = "double dsink; int bump(int &r) { r = r + 1; return r; }\n%sint t = 1; %sint ta[2] = {1, 2};\n" % (c, c)
                        if where == "update":
                            docs.append(model(gdecl=g, assign=stmt))
                        else:
                            docs.append(model(gdecl=g + "void fn() { %s; }" % stmt, assign="fn()"))
                    cells_.append(("builtin-argument:%s:arg%d:%s:%s" % (name, pos + 1, wid, where), docs[0], docs[1]))
    res_c = X.run_docs(w, [c[1] for c in cells_], want=["noinv"], batch=50)
    res_t = X.run_docs(w, [c[2] for c in cells_], want=["noinv"], batch=50)
    for (cid, dc, dt), rc, rt in zip(cells_, res_c, res_t):
        part.count()
        rp = {"op": "xml", "buf": dc, "twin": dt}
        if engine.check_crash(part, PID, rc, cid, rp) or engine.check_crash(part, PID, rt, cid, rp):
            continue
        if not X.accepted(rt):
            part.outcome("builtin-form-not-valid-for-a-variable")      # (e.g. an integer where the function wants something else)
            continue
        part.nontrivial_case(cid)
        if X.accepted(rc):
            part.outcome("const-write-accepted")
            part.violation("const-write-accepted:" + cid, "%s: a write to a constant inside the argument of a built-in function is accepted" % cid, rp)
        else:
            part.outcome("const-write-rejected")
    return part.result()


def main():
    total = sum(1 for _ in cells())
    rep = engine.Report(PID, "exploration",
                        "matrix: constness source (const global / template local / function local / value+reference parameter of "
                        "function and template / typedef'd const / select, iteration, forall, exists, sum binders) x type shape (int, "
                        "bounded typedef, array element with constant and variable index, struct field, array-of-struct field, matrix "
                        "element) x %d write forms (6 assignment operators, ++/-- pre/post, inline-if lvalue in either branch and "
                        "nested, chained assignment, non-const reference argument direct and through a chain): %d documents, every "
                        "const cell paired with a mutable twin. Plus constness buried in composite types: %d record/array compositions whose "
                        "only const part is an array of a typedef'd const element, every scalar access path x 8 write forms x {update, "
                        "function body, through a reference parameter of the composite type}; paths into the const array must be rejected, "
                        "the same paths in the all-mutable twin of the type accepted (mutable siblings of a const part: verdict recorded only)."
                        % (len(WRITES), total, len(COMPOSITES)))
    n = engine.ncpu()
    for res in engine.pmap(run_shard, [(i, n) for i in range(n)]):
        rep.merge(res)
    for res in engine.pmap(run_composites, [(i, n) for i in range(n)]):
        rep.merge(res)
    rep.merge(run_dynamic(None))
    rep.merge(run_builtins(None))
    rep.extra["composite_cells"] = sum(1 for c in composite_cells() if c[1] != "decl")
    rep.assumptions = ["quantifier binders have no mutable twin (a write inside a quantified body is rejected for C11's reason)",
                       "small scope: the listed shapes and write forms"]
    sys.exit(rep.finish())


if __name__ == "__main__":
    main()
