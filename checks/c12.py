#!/usr/bin/env python3
"""C12 — no accepted model writes to a constant.  Matrix of constness sources x
type shapes x write forms; each cell has a mutable twin that must be accepted."""
import os
import sys

sys.path.insert(0, os.path.join(os.path.dirname(os.path.abspath(__file__)), "..", "lib"))
import engine
import xmlgen as X

PID = "C12"

TYPES = "typedef int[0,5] Rng; typedef struct { int f; int g; } St; typedef const int CI;\nint m; bool b;\n"

# type shapes: (id, declaration template with {c} = "const " or "", {n} name, lvalue expression built from n)
SHAPES = [
    ("int", "{c}int {n}{i};", "{n}", " = 1"),
    ("bounded-typedef", "{c}Rng {n}{i};", "{n}", " = 1"),
    ("array-element", "{c}int {n}[2]{i};", "{n}[0]", " = {1, 2}"),
    ("array-element-var-index", "{c}int {n}[2]{i};", "{n}[m]", " = {1, 2}"),
    ("struct-field", "{c}St {n}{i};", "{n}.f", " = {1, 2}"),
    ("array-of-struct-field", "{c}St {n}[2]{i};", "{n}[1].g", " = {{1, 2}, {3, 4}}"),
    ("matrix-element", "{c}int {n}[2][2]{i};", "{n}[1][0]", " = {{1, 2}, {3, 4}}"),
]
# write forms on an lvalue X (statement text); {X} the target, {other} a mutable int of the same type
WRITES = [
    ("assign", "{X} = 1"), ("add-assign", "{X} += 1"), ("sub-assign", "{X} -= 1"), ("mul-assign", "{X} *= 2"),
    ("shift-assign", "{X} <<= 1"), ("xor-assign", "{X} ^= 1"),
    ("post-inc", "{X}++"), ("pre-inc", "++{X}"), ("post-dec", "{X}--"), ("pre-dec", "--{X}"),
    ("inline-if-then", "(b ? {X} : mo) = 1"), ("inline-if-else", "(b ? mo : {X}) = 1"),
    ("nested-inline-if", "(b ? (b ? mo : {X}) : mo) = 1"),
    ("chained-assign", "mo = {X} = 1"), ("ref-arg-function", "wr({X})"), ("ref-arg-function-chain", "wr2({X})"),
]
FUNS = "{E} mo; void wr({E} &r) {{ r = 1; }}\nvoid wr2({E} &r) {{ wr(r); }}\n"


def model(gdecl="", ldecl="", params=None, select=None, assign=None, system="P = T(); system P;", elem="int"):
    t = X.template("T", params=params, decl=ldecl, locations=[X.location("id0", "L0"), X.location("id1", "L1")], init="id0",
                   transitions=[X.transition("id0", "id1", select=select, assign=assign)])
    return X.nta(TYPES + FUNS.format(E=elem) + gdecl, [t], system)


def cells():
    """yields (cell id, const document, twin document or None)"""
    for sid, decl, lv, init in SHAPES:
        el = "Rng" if sid == "bounded-typedef" else "int"
        for wid, wtext in WRITES:
            stmt = wtext.format(X=lv.format(n="t"))
            for c in ("const ", ""):
                d = decl.format(c=c, n="t", i=init)
                key = "%s:%s" % (sid, wid)
                # constness sources that admit this shape
                yield ("const-global:" + key, c, model(gdecl=d, assign=stmt, elem=el))
                yield ("const-template-local:" + key, c, model(ldecl=d, assign=stmt, elem=el))
                yield ("const-in-function-local:" + key, c, model(gdecl="void fn() { %s %s; }" % (d, stmt), assign="fn()", elem=el))
                pdecl = decl.format(c=c, n="t", i="").rstrip(";")
                pdecl_ref = pdecl.replace(" t", " &t", 1)
                yield ("const-value-param-of-function:" + key, c,
                       model(gdecl="void fn(%s) { %s; }\n%s" % (pdecl, stmt, decl.format(c="", n="arg", i=init)), assign="fn(arg)", elem=el))
                yield ("const-ref-param-of-function:" + key, c,
                       model(gdecl="void fn(%s) { %s; }\n%s" % (pdecl_ref, stmt, decl.format(c="", n="arg", i=init)), assign="fn(arg)", elem=el))
                yield ("const-ref-param-of-template:" + key, c,
                       model(gdecl=decl.format(c="", n="arg", i=init), params=pdecl_ref, assign=stmt, system="P = T(arg); system P;", elem=el))
    # parameters by value of templates (int only: a template value parameter must be integral)
    for wid, wtext in WRITES:
        stmt = wtext.format(X="t")
        for c in ("const ", ""):
            yield ("const-value-param-of-template:int:" + wid, c, model(params="%sint t" % c, assign=stmt, system="P = T(1); system P;"))
    # typedef'd const
    for wid, wtext in WRITES:
        stmt = wtext.format(X="t")
        yield ("typedef-const:int:" + wid, "const ", model(gdecl="CI t = 1;", assign=stmt))
        yield ("typedef-const:int:" + wid, "", model(gdecl="int t = 1;", assign=stmt))
    # passing a const object on to a non-const reference parameter of a template
    for sid, decl, lv, init in SHAPES[:1] + SHAPES[2:3]:
        for c in ("const ", ""):
            d = decl.format(c=c, n="t", i=init)
            p = decl.format(c="", n="&p", i="").rstrip(";")
            yield ("ref-arg-template:%s" % sid, c, model(gdecl=d, params=p, assign="p%s = 1" % ("[0]" if "[" in decl else ""),
                                                        system="P = T(t); system P;"))
    # binders: select and iteration have mutable twins (a plain variable of the same type)
    for wid, wtext in WRITES:
        stmt = wtext.format(X="t")
        yield ("select-binder:int:" + wid, "const ", model(select="t : int[0,5]", assign=stmt))
        yield ("select-binder:int:" + wid, "", model(gdecl="int t;", assign=stmt))
        yield ("iteration-binder:int:" + wid, "const ", model(gdecl="void fn() { for (t : int[0,5]) { %s; } }" % stmt, assign="fn()"))
        yield ("iteration-binder:int:" + wid, "", model(gdecl="void fn() { int t; for (q : int[0,5]) { %s; } }" % stmt, assign="fn()"))
        # quantifier binders: no mutable twin exists (a write inside a quantified body is rejected anyway)
        for q in ("forall", "exists", "sum"):
            yield ("%s-binder:int:%s" % (q, wid), "const-no-twin",
                   model(assign="mo = (%s (t : int[0,5]) (%s)) > 0 ? 1 : 0" % (q, stmt) if q != "sum" else
                         "mo = (sum (t : int[0,5]) (%s))" % stmt))


def run_shard(arg):
    i, n = arg
    part = engine.Part()
    w = engine.worker("fast")
    cs = [c for k, c in enumerate(cells()) if k % n == i]
    res = X.run_docs(w, [c[2] for c in cs], want=["noinv"], batch=50)
    for (cid, c, doc), r in zip(cs, res):
        part.count()
        rp = {"op": "xml", "buf": doc}
        if engine.check_crash(part, PID, r, cid, rp):
            continue
        part.nontrivial_case(cid + "|" + c)
        acc = X.accepted(r)
        msgs = sorted(set(e["msg"] for e in r.get("errors", [])))[:2]
        if c.startswith("const"):
            if acc:
                part.outcome("const-write-accepted")
                part.violation("const-write-accepted:" + cid, "%s: a write to a constant is accepted" % cid, rp)
            else:
                part.outcome("const-write-rejected")
        else:
            if acc:
                part.outcome("mutable-twin-accepted")
                if len(part.samples) < 1:
                    part.sample({"cell": cid, "twin_accepted": True})
            else:
                part.outcome("mutable-twin-rejected")
                part.violation("twin-rejected:" + cid, "%s: the same write to a mutable object is rejected: %s" % (cid, msgs), rp)
    return part.result()


def main():
    total = sum(1 for _ in cells())
    rep = engine.Report(PID, "exploration",
                        "matrix: constness source (const global / template local / function local / value+reference parameter of "
                        "function and template / typedef'd const / select, iteration, forall, exists, sum binders) x type shape (int, "
                        "bounded typedef, array element with constant and variable index, struct field, array-of-struct field, matrix "
                        "element) x %d write forms (6 assignment operators, ++/-- pre/post, inline-if lvalue in either branch and "
                        "nested, chained assignment, non-const reference argument direct and through a chain): %d documents, every "
                        "const cell paired with a mutable twin." % (len(WRITES), total))
    n = engine.ncpu()
    for res in engine.pmap(run_shard, [(i, n) for i in range(n)]):
        rep.merge(res)
    rep.assumptions = ["quantifier binders have no mutable twin (a write inside a quantified body is rejected for C11's reason)",
                       "small scope: the listed shapes and write forms"]
    sys.exit(rep.finish())


if __name__ == "__main__":
    main()
