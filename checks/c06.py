#!/usr/bin/env python3
"""C06 — every diagnostic points into the element, line and columns that
caused it.  Fault enumeration: every text block of accepted base models x fault
kinds x every token position x layout variants; every reported error and
warning is resolved against an independent DOM (Python ElementTree) of the same
bytes: the XPath selects exactly one element, the line lies within that
element's text, the columns lie within that line; a fault in block B yields an
error inside B (only inside B for non-declaring labels); an undeclared
identifier is covered exactly."""
import os
import re
import sys
import xml.etree.ElementTree as ET

sys.path.insert(0, os.path.join(os.path.dirname(os.path.abspath(__file__)), "..", "lib"))
import engine
import xmlgen as X

PID = "C06"
MARK = "zzUNDECL"

# ---- base models: blocks are lists of lines so that line arithmetic is exercised -----------------------
BLOCKS_A = {
    "gdecl": ["int g1 = 1;", "int g2;", "clock gx;", "chan c;", "int f(int q) {", "  return q + g1;", "}"],
    "params": ["int p1, int &p2"],
    "ldecl": ["int l1 = 3;", "clock lx;"],
    "inv": ["lx <= 10 &&", "g2 >= 0"],
    "rate": ["g1 +", "  f(2)"],
    "select": ["s : int[0,3]"],
    "guard": ["g1 == 1 &&", "  f(l1) > 0 && s >= 0"],
    "sync": ["c!"],
    "assign": ["g1 = 2,", "g2 = f(s) + l1"],
    "guard2": ["lx >= 2"],
    "assign2": ["l1 = g1 + 1"],
    "system": ["P1 = T(1, g2);", "P2 = T(2, g1);", "system P1, P2;"],
}
BLOCKS_B = dict(BLOCKS_A)
BLOCKS_B.update({"gdecl": ["typedef int[0,5] Small;", "Small g1 = 1; int g2;", "clock gx; chan c;",
                           "int f(int q) { if (q > 2) { return 1; } return q + g1; }"],
                 "guard": ["forall (k : int[0,1]) g1 + k >= 0"], "assign": ["g2 = (g1 > 0 ? f(s) : l1)"],
                 "inv": ["lx <= g1 + 10"], "system": ["P1 = T(1, g2);", "P2 = T(2, g2);", "system P1, P2;"]})
# model C: the declaring constructs beyond plain variables (records, scalar sets, arrays over typedefs, channel priorities,
# before/after update, system-section declarations, progress measures, gantt chart)
BLOCKS_C = dict(BLOCKS_A)
BLOCKS_C.update({"gdecl": ["typedef struct { int f; bool fl[2]; } rec_t;", "rec_t r1 = { 1, { true, false } };", "typedef scalar[3] sid_t;",
                           "int g1 = 1; int g2; clock gx; chan c; broadcast chan bc;", "int bysid[sid_t];", "chan priority c < bc,", "  default;",
                           "void bu() { g2 = r1.f; }", "before_update { bu(),", "  g2 = 2 }", "after_update { g1 = g2 + 1 }",
                           "int f(int q) {", "  for (i : sid_t) { bysid[i] = q; }", "  return q + g1;", "}"],
                 "ldecl": ["int l1 = 3;", "clock lx;", "typedef struct { int a; } lr_t;", "lr_t lr;", "int lf(int q) { return q + lr.a; }"],
                 "guard": ["g1 == 1 &&", "  lf(l1) > r1.f && s >= 0"],
                 "system": ["const int sk = 1;", "P1 = T(sk, g2);", "P2 = T(2, g1);", "system P1, P2;",
                            "progress { g1; g2 +", "  1; }", "gantt { G1 : g1 > 0 -> 1;", "  G2(k : int[0,1]) : g2 == k -> k; }"]})
NON_DECLARING = {"inv", "rate", "guard", "sync", "assign", "guard2", "assign2"}
XPATH = {"gdecl": "/nta/declaration", "params": "/nta/template[1]/parameter", "ldecl": "/nta/template[1]/declaration",
         "inv": "/nta/template[1]/location[1]/label[1]", "rate": "/nta/template[1]/location[1]/label[2]", "select": "/nta/template[1]/transition[1]/label[1]",
         "guard": "/nta/template[1]/transition[1]/label[2]", "sync": "/nta/template[1]/transition[1]/label[3]",
         "assign": "/nta/template[1]/transition[1]/label[4]", "guard2": "/nta/template[1]/transition[2]/label[1]",
         "assign2": "/nta/template[1]/transition[2]/label[2]", "system": "/nta/system"}


def layout(lines, variant):
    """render the lines of one block in a layout variant; returns the XML-escaped text"""
    esc = X.esc
    if variant in ("plain", "selfclosing-siblings"):
        return esc("\n".join(lines))
    if variant == "leading-blank-lines":
        return esc("\n\n\n" + "\n".join(lines))
    if variant == "crlf-charrefs":
        return "&#13;&#10;".join(esc(l) for l in lines)
    if variant == "block-comment":
        return esc("/* a comment\n spanning\n lines */ " + "\n".join(lines))
    if variant == "line-comments":
        return esc("// header\n" + "\n".join(l + " // trailing" for l in lines))
    if variant == "tabs":
        return esc("\t" + "\n\t\t".join(lines))
    if variant == "continuation":
        return esc(" \\\n".join(lines))
    if variant == "whitespace-only-lines":      # blank lines that hold blanks and tabs, between and before the real lines
        return esc("  \n\t\n" + "\n   \n \t \n".join(lines))
    if variant == "trailing-blanks":
        return esc("\n".join(l + " \t " for l in lines) + "\n  \n")
    if variant == "cr-only-and-mixed":           # CR LF on some lines, LF on others, blank CR LF lines
        return "&#13;&#10;&#13;&#10;".join(esc(l) for l in lines[:1]) + "".join(("&#10;" if k % 2 else "&#13;&#10;") + esc(l) for k, l in enumerate(lines[1:]))
    raise ValueError(variant)


LAYOUTS_Q = ["plain", "leading-blank-lines", "crlf-charrefs"]
LAYOUTS_T = LAYOUTS_Q + ["block-comment", "line-comments", "tabs", "continuation", "whitespace-only-lines", "trailing-blanks",
                         "cr-only-and-mixed", "selfclosing-siblings"]


def render(blocks, variant, only=None):
    """only: the block to which the layout variant is applied (others plain)"""
    def b(name):
        return layout(blocks[name], variant if (only is None or only == name) else "plain")
    lab = lambda k, n: '<label kind="%s">%s</label>' % (k, b(n))       # noqa: E731
    t = ("<template><name>T</name><parameter>%s</parameter><declaration>%s</declaration>"
         '<location id="id0"><name>L0</name>%s%s</location><location id="id1"><name>L1</name></location><init ref="id0"/>'
         '<transition><source ref="id0"/><target ref="id1"/>%s%s%s%s</transition>'
         '<transition><source ref="id1"/><target ref="id0"/>%s%s</transition></template>') % (
        b("params"), b("ldecl"), lab("invariant", "inv"), lab("exponentialrate", "rate"), lab("select", "select"), lab("guard", "guard"),
        lab("synchronisation", "sync"), lab("assignment", "assign"), lab("guard", "guard2"), lab("assignment", "assign2"))
    doc = X.HEADER + "<nta><declaration>%s</declaration>%s<system>%s</system></nta>\n" % (b("gdecl"), t, b("system"))
    if variant == "selfclosing-siblings":
        # empty (self-closing) elements in front of the elements that carry text: they count as siblings in every XPath
        doc = doc.replace('<location id="id0">', '<location id="id9" x="5" y="5"/><location id="id0">', 1)
        doc = doc.replace('<location id="id0"><name>L0</name>', '<location id="id0"><name>L0</name><label kind="comments" x="1" y="1"/>', 1)
        doc = doc.replace('<source ref="id0"/><target ref="id1"/>', '<source ref="id0"/><target ref="id1"/><label kind="comments"/>', 1)
        doc = doc.replace('<source ref="id1"/><target ref="id0"/>', '<source ref="id1"/><target ref="id0"/><label kind="comments"/>', 1)
    return doc


def xpath_of(block, variant):
    p = XPATH[block]
    if variant != "selfclosing-siblings":
        return p
    p = p.replace("/location[1]", "/location[2]")
    if "/location[" in p or "/transition[" in p:
        p = re.sub(r"/label\[(\d+)\]", lambda m: "/label[%d]" % (int(m.group(1)) + 1), p)
    return p


TOKEN = re.compile(r"[A-Za-z_][A-Za-z_0-9]*|\d+|==|<=|>=|!=|&&|\|\||\+\+|--|->|[-+*/%<>=!?:;,.(){}\[\]&|^']")
KEYWORDS = {"int", "clock", "chan", "return", "if", "else", "for", "while", "system", "typedef", "const", "bool", "forall",
            "exists", "true", "false", "void", "struct", "broadcast", "urgent"}
CLOSERS = {")": "(", "]": "[", "}": "{"}


def faults(lines):
    """(fault id, token index, new lines) for every applicable fault at every token position"""
    text = "\n".join(lines)
    toks = [(m.start(), m.end(), m.group(0)) for m in TOKEN.finditer(text)]
    out = []

    def edit(a, b, repl):
        return (text[:a] + repl + text[b:]).split("\n")

    for i, (a, b, tok) in enumerate(toks):
        is_id = re.match(r"[A-Za-z_]", tok) and tok not in KEYWORDS
        if is_id:
            out.append(("undeclared-identifier", i, edit(a, b, MARK)))
            out.append(("clock-for-operand", i, edit(a, b, "gx")))
        out.append(("token-deleted", i, edit(a, b, "")))
        if tok in "()[]{}":
            out.append(("bracket-deleted", i, edit(a, b, "")))
        for c in ")]}":
            out.append(("stray-" + c, i, edit(a, a, c + " ")))
        if tok == ";":
            out.append(("semicolon-deleted", i, edit(a, b, "")))
        out.append(("side-effect", i, edit(a, a, "g2++ + ")) if is_id else ("side-effect", i, None))
        out.append(("unterminated-comment", i, edit(a, a, "/* ")))
    return [f for f in out if f[2] is not None]


# ---- the independent DOM ------------------------------------------------------------------------------
def resolve(root, path):
    if not path.startswith("/nta"):
        return None
    rel = "." + path[len("/nta"):]
    try:
        return root.findall(rel) if rel != "." else [root]
    except SyntaxError:
        return None


def check_positions(root, diags, part, fid, key, rp, what):
    """clauses (a)-(c) for every error and warning; returns the list of (path, sl, sc, el, ec)"""
    out = []
    for kind, e in diags:
        path = e["path"]
        sig = None
        els = resolve(root, path) if path else None
        if not path or els is None or len(els) != 1:
            sig = "path-not-unique" if els else "path-does-not-resolve"
            detail = "path %r selects %s elements" % (path, "no" if not els else len(els))
        elif e["epath"] != path:
            sig, detail = "range-spans-elements", "range starts in %s and ends in %s" % (path, e["epath"])
        else:
            text = els[0].text or ""
            lines = text.split("\n")
            sl, el_, sc, ec = e["sl"], e["el"], e["sc"], e["ec"]
            if not (1 <= sl <= len(lines)) or not (1 <= el_ <= len(lines)):
                sig, detail = "line-outside-element", "lines %d..%d but the element has %d lines" % (sl, el_, len(lines))
            elif sl > el_ or (sl == el_ and sc > ec):
                sig, detail = "start-after-end", "range %d:%d .. %d:%d" % (sl, sc, el_, ec)
            elif sc < 0 or sc > len(lines[sl - 1]) or ec < 0 or ec > len(lines[el_ - 1]) + (1 if el_ < len(lines) else 0):
                sig, detail = "column-outside-line", "columns %d:%d .. %d:%d, line lengths %d / %d" % (
                    sl, sc, el_, ec, len(lines[sl - 1]), len(lines[el_ - 1]))
        if sig:
            part.violation("%s:%s:%s" % (sig, fid, what), "%s `%s` of %s: %s" % (kind, e["msg"], key, detail), rp)
            part.outcome("position-" + sig)
        else:
            out.append((path, e["sl"], e["sc"], e["el"], e["ec"], e["msg"]))
    return out


def run_shard(arg):
    model_id, block, variants = arg
    blocks = {"A": BLOCKS_A, "B": BLOCKS_B, "C": BLOCKS_C}[model_id]
    part = engine.Part()
    w = engine.worker("fast")
    items = []
    for fid, ti, new_lines in faults(blocks[block]):
        for variant in variants:
            bl = dict(blocks)
            bl[block] = new_lines
            items.append((fid, ti, variant, render(bl, variant, only=block)))
    res = X.run_docs(w, [it[3] for it in items], want=["noinv"], batch=50)
    for (fid, ti, variant, doc), r in zip(items, res):
        part.count()
        key = "model %s block %s fault %s@%d layout %s" % (model_id, block, fid, ti, variant)
        rp = {"op": "xml", "buf": doc}
        if engine.check_crash(part, PID, r, key, rp):
            continue
        if r.get("exc") is not None:
            part.outcome("exception")     # no diagnostics to inspect (C01/C16 territory)
            continue
        part.nontrivial_case("%s:%s:%s:%d:%s" % (model_id, block, fid, ti, variant))
        root = ET.fromstring(doc.encode())
        diags = [("error", e) for e in r.get("errors", [])] + [("warning", e) for e in r.get("warnings", [])]
        good = check_positions(root, diags, part, fid, key, rp, block if block in NON_DECLARING else "decl")
        errs = [("error", e) for e in r.get("errors", [])]
        if not errs:
            part.outcome("fault-not-diagnosed")    # e.g. a deleted token leaving a valid text: nothing to check
            continue
        XP = xpath_of(block, variant)
        here = [e for k, e in errs if e["path"] == XP]
        # in a declaring block an edit may leave the block valid and only change its meaning (renamed declaration, dropped
        # '&', a side effect added to a function): the fault then surfaces at the uses.  "An error inside the block" is
        # demanded where the block itself is broken: always for non-declaring labels, for bracket/comment faults, and for
        # the unknown identifier whenever it is the substituted name that is reported unknown.
        block_broken = (block in NON_DECLARING or fid.startswith("stray-") or fid in ("bracket-deleted", "unterminated-comment")
                        or any(MARK in e["msg"] for k, e in errs))
        if not here and not block_broken:
            part.outcome("declaration-changed-meaning")
            continue
        if fid == "undeclared-identifier" and block not in NON_DECLARING:
            here_mark = [e for e in here if MARK in e["msg"]]
            if any(MARK in e["msg"] for k, e in errs) and not here_mark:
                here = []
        if not here:
            part.outcome("no-error-in-faulted-block")
            part.violation("no-error-in-block:%s:%s" % (fid, block),
                           "%s: errors %s, none inside %s" % (key, [(e["msg"], e["path"]) for k, e in errs][:3], XP), rp)
            continue
        if block in NON_DECLARING:
            other = [e for k, e in errs if e["path"] != XP]
            if other:
                part.outcome("error-attributed-to-other-block")
                part.violation("error-elsewhere:%s:%s" % (fid, block), "%s: error `%s` attributed to %s" %
                               (key, other[0]["msg"], other[0]["path"]), rp)
                continue
        if fid == "undeclared-identifier":
            # the substituted name in member position (r1.NAME) is an unknown *member*: the library reports the member access
            # `r1.NAME` as a whole, which is the text that caused it; exact coverage is demanded for unknown identifiers only
            unk = [e for e in here if MARK in e["msg"] and "has_no_member" not in e["msg"]]
            if not unk and any("has_no_member" in e["msg"] for e in here):
                part.outcome("positions-ok/unknown-member")
                continue
            if unk:
                text = (resolve(root, XP)[0].text or "").split("\n")
                ok = False
                for e in unk:
                    if e["sl"] == e["el"] and 1 <= e["sl"] <= len(text) and text[e["sl"] - 1][e["sc"]:e["ec"]] == MARK:
                        ok = True
                if not ok:
                    part.outcome("undeclared-identifier-range-wrong")
                    e = unk[0]
                    part.violation("identifier-range:%s" % block,
                                   "%s: the unknown identifier is reported at %d:%d..%d:%d which reads %r" %
                                   (key, e["sl"], e["sc"], e["el"], e["ec"],
                                    text[e["sl"] - 1][e["sc"]:e["ec"]] if 1 <= e["sl"] <= len(text) else None), rp)
                    continue
        part.outcome("positions-ok")
        if len(part.samples) < 1:
            e = here[0]
            part.sample({"fault": key, "error": e["msg"], "path": e["path"], "range": [e["sl"], e["sc"], e["el"], e["ec"]]})
    return part.result()


# ---- diagnostics of the type checker: raised after parsing, on whatever node the checker holds --------------------------------
# one semantically wrong construct per document, in the global or the template-local declarations; every diagnostic must carry a
# position inside that block (a node without a position shows up in the last element of the document with absurd columns)
TYPE_ERRORS = [
    "void f1() { for (b : bool) { } }", "void f2() { for (b : chan) { } }", "void f3() { for (b : clock) { } }", "void f4() { for (b : double) { } }",
    "void f5() { for (b : int) { } }", "typedef struct { int a; } rq; void f6() { for (b : rq) { } }", "void f7(void &v) { }", "void f8(chan c) { }",
    "typedef int vq[2]; vq g9; vq f9() { return g9; }", "clock g10; clock f10() { return g10; }", "chan g11; chan f11() { return g11; }",
    "typedef struct { clock c; } rc; rc g12; rc f12() { return g12; }", "typedef struct { int a[2]; } ra; ra g12b; ra f12b() { return g12b; }",
    "int f13() { return forall (b : clock) true; }", "int f14() { return sum (b : bool) 1; }", "int f15() { return exists (b : double) true; }",
    "int[0, 1.5] r16;", "int[true, 2] r17;", "int a18[1.5];", "int a19[-1];", "scalar[1.5] s20;", "typedef struct { void f; } r21; r21 v21;",
    "typedef struct { int a; int a; } r22;", "const int c23;", "int f24(int q) { return; }", "void f25() { return 1; }", "int f26() { int t; }",
    "int v27 = 1.5 + true + \"s\";", "bool b28 = 1.5;", "clock x29 = true && 1.5;", "int f30() { int q; return q.f; }", "int f31() { int q; return q[1]; }",
    "int f32() { return f32(); }", "void f33() { break; }", "meta clock m34;", "const clock c35;", "hybrid int h36;", "urgent int u37;", "broadcast int b38;",
    "int i39 = i39;", "int f40(int &r) { return r; } int u40 = f40(1);", "int f41(int a[2]) { return a[0]; } int b41[3]; int u41 = f41(b41);",
    "void f42() { 1 = 2; }", "void f43() { int x; x++ ++; }", "void f44(chan &c) { c = c; }", "void f45() { assert(1.5 + \"s\"); }",
    "void f46() { while (\"s\") { } }", "void f47() { if (c) { } }", "void f48() { do { } while (1.5 + true); }", "void f49() { int t; for (t = 0; \"s\"; t++) { } }",
    "struct { int a; } s50 = { 1, 2 };", "int a51[2] = { 1, 2, 3 };", "struct { int a; int b; } s52 = { b: 1, 2 };", "struct { int a; } s53 = { nosuch: 1 };",
    "chan priority i < default;", "int f55() { return nosuchfn(1); }", "int v56; int f56() { return v56(1); }", "int f57(int a) { return a; } int u57 = f57(1, 2);",
]


# faults that only the type checker can see, in declarations of every type shape (arrays of named / prefixed records, typedef'd
# arrays, ...): each of these is diagnosed on the pinned tree, so a missing diagnostic is a violation ("at least one error inside
# the faulted block")
TYPE_ERRORS_DIAGNOSED = [
    "typedef struct { int a; int b; } pq1; pq1 tq1[i] = { {1, 2} };", "typedef struct { int a; int b; } pq2; pq2 tq2[2] = { {1, 1.5 + true}, {1, 2} };",
    "typedef struct { int a; int b; } pq3; pq3 tq3[2] = { {i++, 2}, {1, 2} };", "typedef struct { int a; int b; } pq4; meta pq4 tq4[2] = { {1, c}, {1, 2} };",
    "const struct { int a; int b; } tq5[2] = { {i, 2}, {1, 2} };", "typedef struct { int a; clock k; } pq6; const pq6 tq6[2];",
    "typedef struct { int a; int b; } pq7; pq7 tq7[2][2] = { { {1, 2}, {1, c} }, { {1, 2}, {1, 2} } };", "typedef struct { int a; } pq8; urgent pq8 tq8[2];",
    "typedef int rq9[2]; rq9 tq9[2] = { {1, c}, {1, 2} };", "typedef int[0,3] bq10; bq10 tq10[i];", "typedef struct { int a; } pq11; pq11 tq11 = { c };",
    "struct { int a; int b; } tq12[2] = { {1, c}, {1, 2} };", "int tq13[2] = { 1, c };", "typedef scalar[3] sq14; int tq14[sq14] = { 1, c, 2 };",
]


def run_type_errors(arg):
    i, n = arg
    part = engine.Part()
    w = engine.worker("fast")
    g0 = "int i; clock x; chan c;"
    cases = []
    for k, d in enumerate(TYPE_ERRORS + TYPE_ERRORS_DIAGNOSED):
        if k % n != i:
            continue
        for where in ("global", "local"):
            for lead in ("", "\n\n", "int pad1;\nint pad2; "):
                text = lead + d
                t = X.template("T", decl=("int l;\n" + text) if where == "local" else "int l;", locations=[X.location("id0", "L0", inv="i >= 0")], init="id0",
                               transitions=[X.transition("id0", "id0", guard="i == 0", assign="i = 1")])
                doc = X.nta(g0 + ("\n" + text if where == "global" else ""), [t], "system T;")
                cases.append((d, where, lead, doc))
    res = X.run_docs(w, [c[3] for c in cases], want=["noinv"], batch=50)
    for (d, where, lead, doc), r in zip(cases, res):
        part.count()
        key = "type error `%s` in the %s declarations (lead %r)" % (d, where, lead)
        rp = {"op": "xml", "buf": doc}
        if engine.check_crash(part, PID, r, key, rp):
            continue
        if r.get("exc") is not None:
            part.outcome("exception")
            continue
        part.nontrivial_case("type-error:%s:%s:%r" % (d, where, lead))
        root = ET.fromstring(doc.encode())
        diags = [("error", e) for e in r.get("errors", [])] + [("warning", e) for e in r.get("warnings", [])]
        if not diags:
            part.outcome("type-error:not-diagnosed")
            if d in TYPE_ERRORS_DIAGNOSED:
                part.violation("type-error-not-diagnosed:%s" % re.sub(r"\d+", "", d.split(";")[-2].strip().split("=")[0])[:30],
                               "%s: the declaration is wrong in a way only the type checker sees, and nothing is reported" % key, rp)
            continue
        fid = re.sub(r"\d+", "", d.split("(")[0].split("=")[0].strip())[:28]
        good = check_positions(root, diags, part, "type-error", key, rp, fid)
        xp = "/nta/declaration" if where == "global" else "/nta/template[1]/declaration"
        other = [g for g in good if g[0] != xp]
        if len(good) != len(diags):
            continue        # reported by check_positions
        if other:
            part.outcome("type-error:attributed-elsewhere")
            part.violation("type-error-elsewhere:%s" % fid, "%s: diagnostic `%s` is attributed to %s" % (key, other[0][5], other[0][0]), rp)
        else:
            part.outcome("type-error:positions-ok")
    return part.result()


# ---- diagnostics of the type checker on the system section: processes, instantiations and their arguments ----------------------
SYSTEM_ERRORS = [     # (id, template parameters, template-local declarations, system text)
    ("free-parameter-unbounded", "int p", "", "system T;"),
    ("free-parameter-unbounded-const", "const int p", "", "system T;"),
    ("free-parameter-unbounded-among-processes", "const int p", "", "system U, T;"),
    ("free-parameter-in-array-size", "const int[0,1] p", "int arr[p + 1];", "system T;"),
    ("partial-instance-free-parameter-unbounded", "const int p", "", "R(const int k) = T(k);\nsystem R;"),
    ("partial-instance-free-parameter-in-array-size", "const int[0,1] p", "int arr[p + 1];", "R(const int[0,1] k) = T(k);\nsystem R;"),
    ("listed-after-bound-process", "const int p", "", "P = T(1);\nsystem P, T;"),
    ("argument-double", "const int p", "", "P = T(1.5 + true);\nsystem P;"),
    ("argument-channel-for-int", "const int p", "", "P = T(c);\nsystem P;"),
    ("argument-not-an-lvalue", "int &p", "", "P = T(1);\nsystem P;"),
    ("argument-with-side-effect", "const int p", "", "P = T(i++);\nsystem P;"),
    ("argument-not-computable", "const int p", "", "P = T(i);\nsystem P;"),
    ("second-argument-wrong", "const int p, const int q", "", "P = T(1,\n   c);\nsystem P;"),
    ("argument-of-second-instance", "const int p", "", "P = T(1);\nP2 = T(c);\nsystem P, P2;"),
    ("argument-through-partial-instance", "const int p, const int q", "", "R(const int k) = T(k, 1);\nP = R(c);\nsystem P;"),
    ("system-declaration-type-error", "const int p", "", "int sv = 1.5 + true;\nP = T(1);\nsystem P;"),
    ("progress-measure-not-integral", "const int p", "", "P = T(1);\nsystem P;\nprogress { c; }"),
    ("own-parameter-range-not-computable", "const int p", "", "R(const int[0, i] k) = T(k);\nP = R(0);\nsystem P;"),
]


def run_system_errors(_):
    part = engine.Part()
    w = engine.worker("fast")
    cases = []
    for sid, params, ldecl, system in SYSTEM_ERRORS:
        for lead in ("", "\n\n", "int sy1;\nint sy2; "):
            t = X.template("T", params=params, decl=ldecl, locations=[X.location("id0", "L0")], init="id0")
            u = X.template("U", locations=[X.location("id5", "M0")], init="id5")
            cases.append((sid, lead, X.nta("int i; clock x; chan c;", [t, u], lead + system)))
    res = X.run_docs(w, [c[2] for c in cases], want=["noinv"], batch=50)
    for (sid, lead, doc), r in zip(cases, res):
        part.count()
        key = "system section `%s` (lead %r)" % (sid, lead)
        rp = {"op": "xml", "buf": doc}
        if engine.check_crash(part, PID, r, key, rp):
            continue
        if r.get("exc") is not None:
            part.outcome("exception")
            continue
        part.nontrivial_case("system-error:%s:%r" % (sid, lead))
        root = ET.fromstring(doc.encode())
        diags = [("error", e) for e in r.get("errors", [])] + [("warning", e) for e in r.get("warnings", [])]
        if not diags:
            part.outcome("system-error:not-diagnosed")
            continue
        good = check_positions(root, diags, part, "system-error", key, rp, sid)
        if len(good) != len(diags):
            continue
        other = [g for g in good if g[0] != "/nta/system"]
        if other:
            part.outcome("system-error:attributed-elsewhere")
            part.violation("system-error-elsewhere:%s" % sid, "%s: diagnostic `%s` is attributed to %s" % (key, other[0][5], other[0][0]), rp)
        else:
            part.outcome("system-error:positions-ok")
    return part.result()


def main():
    t = engine.tier()
    variants = LAYOUTS_T      # both tiers: all seven layouts, both base models (seconds)
    rep = engine.Report(PID, "fault_enumeration",
                        "accepted base models (%s) x 12 text blocks (global/local declarations, parameters, invariant, exponential rate, select, guard, "
                        "synchronisation, update, second edge's guard and update, system) x faults {undeclared identifier, clock for "
                        "operand, token deleted, bracket deleted, stray ) ] }, semicolon deleted, side effect inserted, unterminated "
                        "comment} at every token position x layouts %s. distinct = (model, block, fault, token, layout)."
                        % ("A, B; C with records, scalar sets, channel priorities, before/after update, system-section declarations, progress "
                           "measures and a gantt chart in its declaring blocks", variants))
    # the base models themselves must be accepted, in every layout
    w = engine.worker("fast")
    for mid, blocks in (("A", BLOCKS_A), ("B", BLOCKS_B), ("C", BLOCKS_C)):
        for v in LAYOUTS_T:
            r = X.run_docs(w, [render(blocks, v)], want=["noinv"])[0]
            if not X.accepted(r):
                print("C06 generator bug: base model %s layout %s is not accepted: %s" % (mid, v, X.msgs(r)[:3]))
                sys.exit(2)
    shards = [(mid, b, variants) for mid in ["A", "B"] for b in BLOCKS_A] + [("C", b, variants) for b in ("gdecl", "ldecl", "guard", "system")]
    for res in engine.pmap(run_shard, shards):
        rep.merge(res)
    for res in engine.pmap(run_type_errors, [(i, engine.ncpu()) for i in range(engine.ncpu())]):
        rep.merge(res)
    rep.merge(run_system_errors(None))
    rep.assumptions = ["Python's ElementTree over the same bytes is the independent DOM; lines are the '\\n'-separated lines of the "
                       "element's decoded text, columns are 0-based half-open offsets",
                       "a fault that leaves the text valid (no error reported) is counted, not judged"]
    sys.exit(rep.finish())


if __name__ == "__main__":
    main()
