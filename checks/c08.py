#!/usr/bin/env python3
"""C08 — parsed documents satisfy the structural invariants clients rely on.
The invariant checker (harness/dump.cpp invcheck) is run on the Document left
behind by every parse of a union corpus: the C04 choice-tree space as XML and
as XTA, every label/declaration/system text replaced by hostile texts, XML
structural faults (dropped/duplicated elements and attributes, dangling and
duplicate ids), duplicate-name scenarios over all pairs of declaration kinds,
and degenerate XTA processes - whether the call returned normally, reported
diagnostics or ended in an exception."""
import json
import os
import re
import sys

sys.path.insert(0, os.path.join(os.path.dirname(os.path.abspath(__file__)), "..", "lib"))
import choice
import engine
import modelgen as MG
import xmlgen

PID = "C08"

HOSTILE = ["", "(", ")", "g1 ==", "== 3", "forall (z : int[0,1]) (", "g1 = = 1", "P.x.y", "1 +", "/* open", "g1 == 1 ; g2",
           "UNDECL", "g1++", "{", "}", "int q;", "s : int[0,", "c!!", "c ? : 1"]


def judge(part, resp, what, rp, sigctx):
    part.count()
    if resp.get("died"):
        part.outcome("process-died")      # C01's business; the document cannot be inspected
        return
    part.nontrivial_case(what)
    how = "exception" if resp.get("exc") else ("diagnostics" if resp.get("errors") else "clean")
    inv = resp.get("inv", [])
    if inv:
        part.outcome("invariant-broken/" + how)
        for v in inv[:3]:
            sig = re.sub(r"'[^']*'", "'_'", v)
            sig = re.sub(r"#\d+|\d+", "N", sig)
            part.violation("inv:%s:%s:%s" % (how, sigctx, sig.replace(" ", "_")[:90]), "%s -> after %s: %s" % (what, how, v), rp)
    else:
        part.outcome("invariants-hold/" + how)
        if len(part.samples) < 2 and how != "clean":
            part.sample({"input": what, "ended": how, "errors": [e["msg"] for e in resp.get("errors", [])][:2]})


def gen(choose):
    return MG.build(choose)


def gen_common(choose):
    return MG.build(choose, common=True)


def shard_models(arg):
    kind, prefs = arg
    part = engine.Part()
    w = engine.worker(FLAV)
    docs, keys = [], []
    for pf in prefs:
        m, r = choice.run(gen if kind == "xml" else gen_common, pf)
        docs.append(MG.render_xml(m) if kind == "xml" else MG.render_xta(m))
        keys.append("+".join(choice.deviations(r.choices, r.tags)) or "base")
    for doc, k, resp in zip(docs, keys, xmlgen.run_docs(w, docs, batch=50, kind=kind)):
        judge(part, resp, "%s model %s" % (kind, k), {"op": kind, "buf": doc}, "model-" + kind)
    return part.result()


def text_sites(doc):
    """(start, end) spans of every text block of an XML document (declaration, parameter, label, system, ...)"""
    out = []
    for m in re.finditer(r"<(declaration|parameter|label[^>]*|system|instantiation|name)>([^<]*)</", doc):
        out.append((m.start(2), m.end(2), m.group(1).split()[0] + (":" + re.search(r'kind="(\w+)"', m.group(1)).group(1)
                                                                    if "kind=" in m.group(1) else "")))
    return out


def shard_hostile(prefs):
    part = engine.Part()
    w = engine.worker(FLAV)
    docs, what = [], []
    for pf in prefs:
        m, r = choice.run(gen, pf)
        doc = MG.render_xml(m)
        k = "+".join(choice.deviations(r.choices, r.tags)) or "base"
        for (a, b, tag) in text_sites(doc):
            for h in HOSTILE:
                docs.append(doc[:a] + xmlgen.esc(h) + doc[b:])
                what.append((tag, h, k))
    for doc, (tag, h, k), resp in zip(docs, what, xmlgen.run_docs(w, docs, batch=50)):
        judge(part, resp, "%s replaced by %r in %s" % (tag, h, k), {"op": "xml", "buf": doc}, "hostile:" + tag)
    return part.result()


def xml_struct_faults(doc):
    """single structural faults at every applicable site"""
    out = []
    for m in re.finditer(r"<(location|branchpoint|init|transition|template|source|target|name|label|declaration|system|parameter)\b[^>]*?(/>|>)", doc):
        tag = m.group(1)
        # delete the element (to its matching close for non-empty elements)
        if m.group(2) == "/>":
            end = m.end()
        else:
            c = doc.find("</%s>" % tag, m.end())
            if c < 0:
                continue
            end = c + len(tag) + 3
        out.append(("delete-" + tag, doc[:m.start()] + doc[end:]))
        out.append(("duplicate-" + tag, doc[:end] + doc[m.start():end] + doc[end:]))
    for m in re.finditer(r' (id|ref|kind|controllable)="([^"]*)"', doc):
        out.append(("drop-attr-" + m.group(1), doc[:m.start()] + doc[m.end():]))
        out.append(("empty-attr-" + m.group(1), doc[:m.start(2)] + doc[m.end(2):]))
        if m.group(1) in ("id", "ref"):
            out.append(("other-" + m.group(1), doc[:m.start(2)] + "id0" + doc[m.end(2):]))
            out.append(("dangling-" + m.group(1), doc[:m.start(2)] + "id999" + doc[m.end(2):]))
    return out


def shard_struct(prefs):
    part = engine.Part()
    w = engine.worker(FLAV)
    docs, what = [], []
    for pf in prefs:
        m, r = choice.run(gen, pf)
        doc = MG.render_xml(m)
        k = "+".join(choice.deviations(r.choices, r.tags)) or "base"
        for tag, d in xml_struct_faults(doc):
            docs.append(d)
            what.append((tag, k))
    for doc, (tag, k), resp in zip(docs, what, xmlgen.run_docs(w, docs, batch=50)):
        judge(part, resp, "%s in %s" % (tag, k), {"op": "xml", "buf": doc}, "struct:" + tag)
    return part.result()


# ---- duplicate names: the same name for two things of every pair of kinds ------------------------------------
def dup_docs():
    kinds = {
        "gvar": ("global", "int N;"), "gconst": ("global", "const int N = 1;"), "gtypedef": ("global", "typedef int[0,1] N;"),
        "gfunc": ("global", "void N() {}"), "gchan": ("global", "chan N;"), "gclock": ("global", "clock N;"),
        "lvar": ("local", "int N;"), "lfunc": ("local", "int N() { return 1; }"), "lclock": ("local", "clock N;"),
        "param": ("param", "int N"), "location": ("loc", None), "location2": ("loc2", None), "template": ("tname", None),
        "template2": ("tname2", None), "process": ("proc", None), "select": ("select", "N : int[0,1]"),
    }
    out = []
    names = list(kinds)
    for a in names:
        for b in names:
            g, l, p = "", "", None
            locn = ["L0", "L1"]
            tn = ["T", "U2"]
            proc = "P"
            sel = None
            for k in (a, b):
                where, text = kinds[k]
                if where == "global":
                    g += text.replace("N", "dup") + " "
                elif where == "local":
                    l += text.replace("N", "dup") + " "
                elif where == "param":
                    p = (p + ", " if p else "") + text.replace("N", "dup")
                elif where == "loc":
                    locn[0] = "dup"
                elif where == "loc2":
                    locn[1] = "dup"
                elif where == "tname":
                    tn[0] = "dup"
                elif where == "tname2":
                    tn[1] = "dup"
                elif where == "proc":
                    proc = "dup"
                elif where == "select":
                    sel = text.replace("N", "dup")
            t1 = xmlgen.template(tn[0], params=p, decl=l,
                                 locations=[xmlgen.location("id0", locn[0]), xmlgen.location("id1", locn[1])], init="id0",
                                 transitions=[xmlgen.transition("id0", "id1", select=sel, guard="true")])
            t2 = xmlgen.template(tn[1], locations=[xmlgen.location("id2", "M0")], init="id2")
            args = "1" if p and "," not in p else ("1, 2" if p else "")
            doc = xmlgen.nta(g, [t1, t2], "%s = %s(%s); system %s, %s;" % (proc, tn[0], args, proc, tn[1]))
            out.append(("%s+%s" % (a, b), doc))
            # and as XTA
            xta = g + "\nprocess %s(%s) {\n%s\nstate %s, %s;\ninit %s;\ntrans %s -> %s { %s guard true; };\n}\n" % (
                tn[0], p or "", l, locn[0], locn[1], locn[0], locn[0], locn[1], ("select %s;" % sel) if sel else "")
            xta += "process %s() { state M0; init M0; }\n%s = %s(%s);\nsystem %s, %s;\n" % (tn[1], proc, tn[0], args, proc, tn[1])
            out.append(("xta:%s+%s" % (a, b), xta))
    return out


XTA_DEGENERATE = [
    "process T() { } system T;",
    "process T() { state A; } system T;",
    "process T() { state A; init B; } system T;",
    "process T() { state A; init A; trans A -> B { }; } system T;",
    "process T() { state A; init A; trans Z -> A { }; } system T;",
    "process T() { state A, B; init A; trans A -> B { }, Z -> A { guard true; }, -> B { }; } system T;",
    "process T() { state A, A; init A; } system T;",
    "process T() { state A; branchpoint A; init A; } system T;",
    "process T() { state A; init A; } process T() { state B; init B; } system T;",
    "process T() { state A; init A; } system T, T;",
    "process T(int[0,1] i) { state A; init A; } system T;",
    "process T(int i) { state A; init A; } P = T(1); P = T(2); system P;",
    "process T(int i) { state A; init A; } P = T(); system P;",
    "process T(int i) { state A; init A; } P = T(1, 2); system P;",
    "process T(int i) { state A; init A; } P = U(1); system P;",
    "process T() { state A; init A; } system U;",
    "process T() { state A; init A; urgent B; commit C; } system T;",
    "process T() { state A {x <= }; init A; } system T;",
    "process T() { int f() { return } state A; init A; } system T;",
    "process T() { state A; init A; trans A -> A { select k : int[0,; }; } system T;",
    "process T() { state A; init A; trans A -> A { guard ; }, A -> A { sync c!; }; } system T;",
    "int x; process T() { state A; init A; } T = T(); system T;",
    "process T() { state A; init A; } P(int i) = T(); Q = P(1); R = Q(); system Q;",
]


def extras_docs():
    """the C05 constructs beyond the abstract model (records, scalar sets, functions, priorities, progress, gantt, ...): alone, in
    ordered pairs, and each alone cut off after every token (documents recovered from an error), in both formats"""
    sys.path.insert(0, os.path.dirname(os.path.abspath(__file__)))
    import c05
    out = []
    for a in c05.EXTRAS:
        m = c05.with_extras([a])
        out.append(("extra " + a[1].strip()[:40], MG.render_xml(m), MG.render_xta(m)))
        toks = [mt.end() for mt in re.finditer(r"[A-Za-z_][A-Za-z_0-9]*|\d+(?:\.\d+)?(?:e-?\d+)?|<<|<=|>=|==|&&|\+=|--|->|[^\sA-Za-z_0-9]", a[1])]
        for k in toks[:-1]:
            m = c05.with_extras([(a[0], a[1][:k])])
            out.append(("extra cut at %d: %s" % (k, a[1].strip()[:40]), MG.render_xml(m), MG.render_xta(m)))
        for b in c05.EXTRAS:
            if a is not b:
                m = c05.with_extras([a, b])
                out.append(("extras %s | %s" % (a[1].strip()[:25], b[1].strip()[:25]), MG.render_xml(m), MG.render_xta(m)))
    return out


def shard_extras(arg):
    i, n = arg
    part = engine.Part()
    w = engine.worker(FLAV)
    docs = [d for k, d in enumerate(extras_docs()) if k % n == i]
    for kind, col in (("xml", 1), ("xta", 2)):
        for d, resp in zip(docs, xmlgen.run_docs(w, [d[col] for d in docs], batch=50, kind=kind)):
            judge(part, resp, "%s %s" % (kind, d[0]), {"op": kind, "buf": d[col]}, "extras-" + kind)
    return part.result()


# process sets (templates and partial instances with free parameters in the system line) whose members are used after the system
# line: building such an expression reads the process's bindings and must leave them as they are
def process_set_docs():
    base = ("typedef int[0,2] id_t; int g;\nprocess Unit(const id_t id, const int delay) { int count; clock x; state A, B; init A; "
            "trans A -> B { guard count < delay; assign count = count + 1; }; }\n")
    tails = ["system Unit;", "Slow(const id_t id) = Unit(id, 10); system Slow;", "Slow(const id_t id) = Unit(id, 10); S0 = Slow(0); system S0, Slow;",
             "Mid(const id_t k, const int d) = Unit(k, d); Slow(const id_t id) = Mid(id, 10); system Slow;", "U1 = Unit(1, 5); system U1;"]
    uses = {"system Unit;": "Unit(0, 5)", "U1 = Unit(1, 5); system U1;": "U1"}
    out = []
    for tail in tails:
        p = uses.get(tail, "Slow(0)")
        for after in ["", "progress { %s.count; }" % p, "progress { %s.count : g; }" % p, "gantt { G(i : id_t) : %s.count > 0 -> i; }" % p,
                      "gantt { G : %s.A -> 1, %s.count + %s.count > 2 -> 2; }" % (p, p, p), "progress { %s.count; } gantt { H : %s.B -> 0; }" % (p, p),
                      "progress { forall (i : id_t) %s.count >= i; }" % p]:
            out.append(base + tail + "\n" + after + "\n")
    return out


def shard_misc(which):
    part = engine.Part()
    w = engine.worker(FLAV)
    if which == "psets":
        for doc in process_set_docs():
            resp = xmlgen.run_docs(w, [doc], kind="xta")[0]
            judge(part, resp, "process set / member access %r" % doc[-90:], {"op": "xta", "buf": doc}, "process-set")
            # the same system section in an XML document
            i = doc.index("process Unit")
            j = doc.index("}\n", doc.index("trans")) + 2
            t = xmlgen.template("Unit", params="const id_t id, const int delay", decl="int count; clock x;",
                                locations=[xmlgen.location("id0", "A"), xmlgen.location("id1", "B")], init="id0",
                                transitions=[xmlgen.transition("id0", "id1", guard="count < delay", assign="count = count + 1")])
            xdoc = xmlgen.nta(doc[:i], [t], doc[j:])
            resp = xmlgen.run_docs(w, [xdoc], kind="xml")[0]
            judge(part, resp, "process set / member access (xml) %r" % doc[-90:], {"op": "xml", "buf": xdoc}, "process-set")
        return part.result()
    if which == "dynpairs":
        # a dynamic template announced with one parameter list and defined with another (fewer, more, other names and kinds, text that
        # stops parsing), XML and XTA; and the spaces of expressions over dynamic templates
        sys.path.insert(0, os.path.dirname(os.path.abspath(__file__)))
        import c01
        for name, doc, kind in c01.dynamic_docs("thorough"):
            if kind == "xmlq" or not (name.startswith("sem:dyn-params") or name.startswith("sem:dyn-op")):
                continue
            resp = xmlgen.run_docs(w, [doc], kind=kind)[0]
            judge(part, resp, "dynamic template " + name, {"op": kind, "buf": doc}, "dynamic-template")
        return part.result()
    if which == "dup":
        for name, doc in dup_docs():
            kind = "xta" if name.startswith("xta:") else "xml"
            resp = xmlgen.run_docs(w, [doc], kind=kind)[0]
            judge(part, resp, "duplicate names " + name, {"op": kind, "buf": doc}, "dup")
    else:
        for doc in XTA_DEGENERATE:
            for newxta in (True, False):
                resp = xmlgen.run_docs(w, [doc], kind="xta", newxta=newxta)[0]
                judge(part, resp, "xta %r newxta=%s" % (doc, newxta), {"op": "xta", "buf": doc, "newxta": newxta},
                      "xta-degenerate")
    return part.result()


FLAV = "fast"


def main():
    global FLAV
    t = engine.tier()
    rep = engine.Report(PID, "exploration",
                        "union corpus: C04 choice-tree space (<= %d deviations) as XML and XTA; for <= %d deviations every text block "
                        "x %d hostile texts and every single structural XML fault (delete/duplicate element, drop/empty/alias/dangle "
                        "attribute) at every site; duplicate names over all ordered pairs of 16 declaration kinds (XML and XTA); %d "
                        "degenerate XTA processes x both syntaxes; process sets and partial instances with free parameters whose members are used in "
                        "progress measures and gantt charts; 21 constructs beyond the abstract model (records, scalar sets, functions, "
                        "priorities, before/after update, progress, gantt, system-section declarations) alone, in ordered pairs and cut off "
                        "after every token, as XML and XTA. The invariant checker runs on the Document after every parse "
                        "(normal return, diagnostics, exception)." % (2 if t == "quick" else 3, 0 if t == "quick" else 1, len(HOSTILE),
                                                                     len(XTA_DEGENERATE)))
    # the invariant checker must itself fail on hand-corrupted documents (and only on those)
    w = engine.worker(FLAV)
    m0, _ = choice.run(gen, [])
    base_doc = MG.render_xml(m0)
    caught = 0
    for k in range(12):
        r = w.call({"op": "invselftest", "buf": base_doc, "corruption": k}, timeout=60)
        if (k == 0) != (not r["inv"]):
            print("C08 harness self-test failed: corruption %d -> %s" % (k, r["inv"]))
            sys.exit(2)
        caught += 1 if k else 0
    rep.extra["invcheck_selftest_corruptions_caught"] = caught
    n = engine.ncpu()
    prefs = choice.prefixes(gen, 2 if t == "quick" else 3)
    chunk = max(1, min(300, len(prefs) // (n * 4) + 1))
    cprefs = choice.prefixes(gen_common, 2 if t == "quick" else 3)
    shards = [("xml", prefs[i:i + chunk]) for i in range(0, len(prefs), chunk)]
    shards += [("xta", cprefs[i:i + chunk]) for i in range(0, len(cprefs), chunk)]
    for res in engine.pmap(shard_models, shards):
        rep.merge(res)
    small = choice.prefixes(gen, 0 if t == "quick" else 1)
    if t == "quick":
        small = small + [p for p in choice.prefixes(gen, 1) if len(p) and p[-1] == 1][::6]
    for res in engine.pmap(shard_hostile, [[p] for p in small]):
        rep.merge(res)
    for res in engine.pmap(shard_struct, [[p] for p in small]):
        rep.merge(res)
    for res in engine.pmap(shard_misc, ["dup", "xta", "psets", "dynpairs"]):
        rep.merge(res)
    for res in engine.pmap(shard_extras, [(i, n) for i in range(n)]):
        rep.merge(res)
    rep.assumptions = ["the invariant checker harness/dump.cpp:invcheck transcribes the statement; it is itself exercised by "
                       "tools/selftest (hand-corrupted documents)",
                       "documents of processes that died are not inspected (C01 reports those)"]
    sys.exit(rep.finish())


if __name__ == "__main__":
    main()
