#!/usr/bin/env python3
"""C05 — XML and XTA renderings of the same model yield equivalent documents.
The abstract model generator restricted to the common subset is rendered both
ways; the two documents built by the real library are compared (whole dump
except the XML-only `action` attribute default), together with diagnostics and
the supported-analysis verdict.  Rejected twins: the same fault injected at the
same site in both renderings."""
import json
import os
import sys

sys.path.insert(0, os.path.join(os.path.dirname(os.path.abspath(__file__)), "..", "lib"))
import choice
import engine
import modelgen as MG
import xmlgen

PID = "C05"

# faults injected identically into both renderings (text substitution on a label / declaration)
FAULTS = [None,
          ("g1 == ", "gUNDECL == ", "undeclared identifier in a guard"),
          ("g1 = ", "gx = bc + ", "type error in an update"),
          ("int g2;", "int g2 = gx;", "clock used as integer initialiser"),
          ("gx <= ", "g2++ <= ", "side effect in an invariant"),
          # name clashes (xml text, replacement, xta text, replacement, what)
          ("<name>T2</name>", "<name>T1</name>", "process T2(", "process T1(", "second template named like the first"),
          ("<name>T2</name>", "<name>g2</name>", "process T2(", "process g2(", "template named like a global variable"),
          ("<name>T2</name>", "<name>gsel_t</name>", "process T2(", "process gsel_t(", "template named like a type"),
          ("<name>T2</name>", "<name>GHI</name>", "process T2(", "process GHI(", "template named like a constant"),
          ("int g2;", "int g1;", "global variable declared twice"),
          ("int g2;", "int g2; chan gx;", "global declared again with another type")]


def bound():
    return 3 if engine.tier() == "thorough" else 2


def gen(choose):
    return MG.build(choose, common=True)


def strip(dump):
    d = json.loads(json.dumps(dump))
    for t in d.get("templates", []) + d.get("dyn_templates", []):
        for e in t.get("edges", []):
            e.pop("actname", None)   # XML-only attribute `action` defaults to "SKIP"; XTA has no syntax for it
    d.pop("queries", None)
    return d


def run_shard(prefs):
    part = engine.Part()
    w = engine.worker("fast")
    items = []
    for pf in prefs:
        m, r = choice.run(gen, pf)
        x, a = MG.render_xml(m), MG.render_xta(m)
        a2 = MG.render_xta(m, chain=False)
        if a2 != a:
            items.append((m, r, x, a2, None))      # the same model with every transition written out in full
        # (the faults are injected by text substitution on the entity-escaped rendering)
        faults = FAULTS if len([c for c in r.choices if c]) <= 1 and m.encoding == "entities" else [None]
        for f in faults:
            if f is None:
                items.append((m, r, x, a, None))
            elif len(f) == 5:
                if f[0] in x and f[2] in a:
                    items.append((m, r, x.replace(f[0], f[1], 1), a.replace(f[2], f[3], 1), f[4]))
            elif f[0] in a and xmlgen.esc(f[0]) in x:
                items.append((m, r, x.replace(xmlgen.esc(f[0]), xmlgen.esc(f[1]), 1), a.replace(f[0], f[1], 1), f[2]))
    rx = xmlgen.run_docs(w, [it[2] for it in items], want=["dump", "nosymtypes"], batch=50)
    ra = xmlgen.run_docs(w, [it[3] for it in items], want=["dump", "nosymtypes"], batch=50, kind="xta")
    for (m, r, x, a, fault), px, pa in zip(items, rx, ra):
        part.count()
        devs = choice.deviations(r.choices, r.tags)
        key = MG_key(devs) + (":fault" if fault else "")
        rp = {"xml": {"op": "xml", "buf": x, "want": ["dump", "nosymtypes"]}, "xta": {"op": "xta", "buf": a, "want": ["dump", "nosymtypes"]},
              "deviations": devs, "fault": fault, "op": "xml", "buf": x}
        if engine.check_crash(part, PID, px, "xml of " + key, rp) or engine.check_crash(part, PID, pa, "xta of " + key, rp):
            continue
        part.nontrivial_case(json.dumps(r.choices) + str(fault))
        # verdicts: the XML entry point returns 0 / throws, the XTA entry point returns !has_errors
        ex, ea = px.get("exc"), pa.get("exc")
        if ex or ea:
            part.outcome("exception")
            part.violation("exception:" + key, "xml exc=%s xta exc=%s for the same model (%s)" % (ex, ea, devs), rp)
            continue
        mx, ma = xmlgen.msgs(px), xmlgen.msgs(pa)
        if mx != ma:
            part.outcome("diagnostics-differ")
            part.violation("diagnostics-differ:" + key, "diagnostics differ: xml %s vs xta %s (%s, fault %s)" % (mx[:3], ma[:3], devs, fault), rp)
            continue
        if fault is None and mx:
            part.outcome("unexpected-diagnostics")
            part.violation("unexpected-diagnostics:" + key, "type-correct model draws %s in both formats (%s)" % (mx[:3], devs), rp)
            continue
        d = MG.diff(strip(px["dump"]), strip(pa["dump"]))
        if d:
            part.outcome("documents-differ")
            part.violation("documents-differ:%s:%s" % (generic_path(d[0]), key),
                           "documents differ at %s: xml %s vs xta %s (%s, fault %s)" %
                           (d[0], json.dumps(d[1])[:160], json.dumps(d[2])[:160], devs, fault), rp)
            continue
        if px["methods"] != pa["methods"]:
            part.outcome("verdict-differs")
            part.violation("verdict-differs:" + key, "supported methods differ: xml %s xta %s" % (px["methods"], pa["methods"]), rp)
            continue
        if fault is None:
            # both must also equal the abstract model (so that "equal" is not "equally wrong")
            d2 = MG.diff(MG.expected(m), MG.project(pa["dump"], m))
            if d2:
                part.outcome("xta-differs-from-model")
                part.violation("xta-vs-model:%s:%s" % (generic_path(d2[0]), key), "XTA document differs from the model at %s: "
                               "expected %s got %s" % (d2[0], json.dumps(d2[1])[:160], json.dumps(d2[2])[:160]), rp)
                continue
        part.outcome("equivalent" + ("/rejected-twin" if mx else "/accepted"))
        if len(part.samples) < 1:
            part.sample({"deviations": devs, "xta": a[:500] + "..."})
    return part.result()


# ---- declarations and system-section constructs beyond the abstract model: verbatim text in both renderings ----------
EXTRAS = [   # (place, text); every one is accepted on its own next to the base model
    ("g", " typedef scalar[3] sid_t; sid_t sv; int bysid[sid_t];"),
    ("g", " typedef struct { int f; bool fl[2]; } rec_t; rec_t r1 = { 1, { true, false } }; rec_t rs[2];"),
    ("g", " int fx(int a, int &b) { int k = a; while (k > 0) { k--; b += k; } for (i : int[0,2]) b += i; if (b > 9) return 9; else b = b ? 1 : 2; return b; }"),
    ("g", " const int NN = 3; int arr[NN] = { 1, 2, 3 }; int mat[2][NN]; typedef int[0, NN - 1] idx_t; int byidx[idx_t];"),
    ("g", " chan priority c < bc;"),
    ("g", " chan cs[2]; urgent chan ucx; chan priority default < cs[0], cs[1] < ucx;"),
    ("g", " meta int mi; urgent broadcast chan ubcx; hybrid clock hx; double dd = 1.5; const double ee = 2.5e-1;"),
    ("g", " void bu() { g2 = 1; } before_update { bu(), gb = 2 } after_update { gc = 0 }"),
    ("g", " typedef struct { int a; struct { int b; } in; } nest_t; nest_t nv; const nest_t nc = { 1, { 2 } }; int fnest(nest_t q) { return q.in.b + nc.a; }"),
    ("g", " bool bb = true; int[0,5] ri = 3; int[-2,2] rj; const int cc = 4; int sh = cc << 1;"),
    ("g", " int fone(int n) { return n <= 0 ? 0 : 1 + n; } int ftwo(int n) { return fone(fone(n)); } void fvoid() { ; }"),
    ("g", " int qf() { return (forall (i : int[0,2]) i >= 0) && (exists (j : int[0,1]) j == 1) ? (sum (k : int[0,2]) k) : 0; }"),
    ("t", " typedef struct { int a; } lr_t; lr_t lr; int lf(int q) { return q + lr.a; }"),
    ("t", " clock lx2; const int LN = 2; int la[LN]; void lg() { la[0] = g1; lx2 = 0; }"),
    ("t", " typedef scalar[2] ls_t; ls_t lsv; meta int lm;"),
    ("pre", "int sysv = 3; chan sc;\n"),
    ("pre", "typedef int[0,1] sys_t; const sys_t sk = 1;\nint sfun(int a) { return a + sk; }\n"),
    ("post", "\nprogress { g1; g2 + 1; }"),
    ("post", "\nprogress { g1 : g2; }"),
    ("post", "\ngantt { G1 : g1 > 0 -> 1; G2(k : int[0,1]) : g2 == k -> k, for (q : int[0,1]) g1 == q -> q + 1; }"),
    ("post", "\nprogress { g2; }\ngantt { G3 : true -> 0; }"),
]


def with_extras(picks):
    m, r = choice.run(gen, [])
    for place, text in picks:
        if place == "g":
            m.xg += text
        elif place == "t":
            m.tpls[0].xdecl += text
        elif place == "pre":
            m.xs_pre += text
        else:
            m.xs_post += text
    return m


def run_extras(arg):
    i, n = arg
    part = engine.Part()
    w = engine.worker("fast")
    sets = [[e] for e in EXTRAS] + [[a, b] for a in EXTRAS for b in EXTRAS if a is not b and not (a[0] == b[0] == "post")]
    sets = [s for k, s in enumerate(sets) if k % n == i]
    docs = []
    for picks in sets:
        m = with_extras(picks)
        docs.append((picks, MG.render_xml(m), MG.render_xta(m)))
    rx = xmlgen.run_docs(w, [d[1] for d in docs], want=["dump", "nosymtypes"], batch=50)
    ra = xmlgen.run_docs(w, [d[2] for d in docs], want=["dump", "nosymtypes"], batch=50, kind="xta")
    for (picks, x, a), px, pa in zip(docs, rx, ra):
        part.count()
        key = "extras:" + "|".join(t.strip()[:30] for _, t in picks)
        rp = {"xml": {"op": "xml", "buf": x, "want": ["dump", "nosymtypes"]}, "xta": {"op": "xta", "buf": a, "want": ["dump", "nosymtypes"]},
              "extras": picks, "op": "xml", "buf": x}
        if engine.check_crash(part, PID, px, "xml of " + key, rp) or engine.check_crash(part, PID, pa, "xta of " + key, rp):
            continue
        part.nontrivial_case(key)
        ex, ea = px.get("exc"), pa.get("exc")
        if ex or ea:
            part.outcome("exception")
            part.violation("exception:" + key, "xml exc=%s xta exc=%s for the same model (%s)" % (ex, ea, key), rp)
            continue
        mx, ma = xmlgen.msgs(px), xmlgen.msgs(pa)
        if mx != ma:
            part.outcome("diagnostics-differ")
            part.violation("diagnostics-differ:" + key, "diagnostics differ: xml %s vs xta %s (%s)" % (mx[:3], ma[:3], key), rp)
            continue
        if mx:
            if len(picks) == 1:
                raise RuntimeError("C05 generator bug: extra text rejected on its own: %s %s" % (picks, mx[:2]))
            part.outcome("equivalent/extras-rejected-pair")       # e.g. two channel-priority declarations; same verdict both ways
            continue
        d = MG.diff(strip(px["dump"]), strip(pa["dump"]))
        if d:
            part.outcome("documents-differ")
            part.violation("documents-differ:%s:%s" % (generic_path(d[0]), key), "documents differ at %s: xml %s vs xta %s (%s)" %
                           (d[0], json.dumps(d[1])[:160], json.dumps(d[2])[:160], key), rp)
            continue
        if px["methods"] != pa["methods"]:
            part.outcome("verdict-differs")
            part.violation("verdict-differs:" + key, "supported methods differ: xml %s xta %s" % (px["methods"], pa["methods"]), rp)
            continue
        # the extra constructs must actually be in the document (not dropped by both readers alike)
        g = px["dump"]["globals"]
        lost = []
        for place, text in picks:
            if "progress" in text and not g.get("progress"):
                lost.append("progress")
            if "gantt" in text and not g.get("gantt"):
                lost.append("gantt")
            if "chan priority" in text and not px["dump"].get("chan_priorities"):
                lost.append("chan priority")
            if "before_update" in text and px["dump"].get("before_update") in (None, "()"):
                lost.append("before_update")
        if lost:
            part.outcome("construct-lost")
            part.violation("construct-lost:%s" % lost[0], "%s is in neither document (%s)" % (lost, key), rp)
            continue
        part.outcome("equivalent/extras")
    return part.result()


# ---- nesting depth: the XML reader parses every text block on its own, the XTA parser reaches the same expression with the
# surrounding process on its stack; nesting depth must not make the format observable ----------------------------------------
DEPTH_FAMILIES = {      # (depth, name of an integer atom) -> text
    "inline-if-chain": lambda n, v: "".join("%s == %d ? %d : " % (v, i, i) for i in range(n)) + "0",
    "parentheses": lambda n, v: "(" * n + v + ")" * n,
    "nested-quantifiers": lambda n, v: "".join("(forall (q%d : int[0,1]) " % i for i in range(n)) + v + " >= 0" + ")" * n,
    "right-nested-or": lambda n, v: "".join("%s == %d || (" % (v, i) for i in range(n)) + v + " >= 0" + ")" * n,
    "nested-calls": lambda n, v: "dfn(" * n + v + ")" * n,
    "unary-minus": lambda n, v: "- " * n + v,
}
DEPTH_PLACES = ("update", "guard", "initialiser")
DEPTH_MAX = 200


def depth_docs(family, place, n):
    m = with_extras([("g", " const int kc = 3; int dfn(int a) { return a; }")])
    x, a = MG.render_xml(m), MG.render_xta(m)
    e = DEPTH_FAMILIES[family](n, "kc" if place == "initialiser" else "g2")
    import re
    if place == "update":
        tgt = re.search(r"assign (g1 = \d+)", a).group(1)
        new = "g1 = (%s) ? 1 : 0" % e if family in ("nested-quantifiers", "right-nested-or") else "g1 = " + e
    elif place == "guard":
        tgt = re.search(r"guard (g1 == \d+)", a).group(1)
        new = e if family in ("nested-quantifiers", "right-nested-or") else "g1 == " + e
    else:
        tgt, new = "int dfn(int a) { return a; }", "int dfn(int a) { return a; } int dv = %s;" % (
            "(%s) ? 1 : 0" % e if family in ("nested-quantifiers", "right-nested-or") else e)
    assert tgt in a and xmlgen.esc(tgt) in x
    return x.replace(xmlgen.esc(tgt), xmlgen.esc(new), 1), a.replace(tgt, new, 1)


def run_entry_points(arg):
    """the same XML text through the three XML entry points (buffer, file, file descriptor): the way the text reaches the reader is
    no more observable than its format"""
    i, n = arg
    part = engine.Part()
    w = engine.worker("fast")
    prefs = [pf for k, pf in enumerate(choice.prefixes(gen, 1)) if k % n == i]
    docs, keys = [], []
    for pf in prefs:
        m, r = choice.run(gen, pf)
        x = MG.render_xml(m)
        devs = choice.deviations(r.choices, r.tags)
        docs.append(x)
        keys.append(MG_key(devs))
        for f in FAULTS[1:5]:
            if xmlgen.esc(f[0]) in x and m.encoding == "entities":
                docs.append(x.replace(xmlgen.esc(f[0]), xmlgen.esc(f[1]), 1))
                keys.append(MG_key(devs) + ":fault")
    res = {via: xmlgen.run_docs(w, docs, want=["dump", "nosymtypes"], batch=50, extra={"via": via}) for via in ("buffer", "fd", "file")}
    for k, (doc, key) in enumerate(zip(docs, keys)):
        part.count()
        rp = {"op": "xml", "buf": doc, "want": ["dump", "nosymtypes"], "via": "fd"}
        rs = {via: res[via][k] for via in res}
        if any(engine.check_crash(part, PID, rs[via], "%s via %s" % (key, via), dict(rp, via=via)) for via in rs):
            continue
        part.nontrivial_case("entry-points:" + key + ":" + str(k))
        sig = {via: (rs[via].get("ret"), rs[via].get("exc"), xmlgen.msgs(rs[via]), rs[via].get("methods"), json.dumps(rs[via].get("dump"), sort_keys=True))
               for via in rs}
        other = [via for via in ("fd", "file") if sig[via] != sig["buffer"]]
        if other:
            a, b = sig["buffer"], sig[other[0]]
            what = "return value" if a[0] != b[0] else "exception" if a[1] != b[1] else "diagnostics" if a[2] != b[2] else "methods" if a[3] != b[3] else "document"
            part.outcome("entry-points-differ")
            part.violation("entry-point-differs:%s:%s" % (other[0], what), "the same text parsed by parse_XML_buffer and parse_XML_%s differs in the %s (%s)" %
                           (other[0], what, key), dict(rp, via=other[0]))
        else:
            part.outcome("entry-points-agree/" + ("accepted" if xmlgen.accepted(rs["buffer"]) else "rejected"))
    return part.result()


def run_depth(arg):
    family, place = arg
    part = engine.Part()
    w = engine.worker("fast")
    docs = [depth_docs(family, place, n) for n in range(1, DEPTH_MAX + 1)]
    rx = xmlgen.run_docs(w, [d[0] for d in docs], want=["dump", "nosymtypes"], batch=35)
    ra = xmlgen.run_docs(w, [d[1] for d in docs], want=["dump", "nosymtypes"], batch=35, kind="xta")
    first = None
    accepted = 0
    for n, (x, a), px, pa in zip(range(1, DEPTH_MAX + 1), docs, rx, ra):
        part.count()
        rp = {"xml": {"op": "xml", "buf": x, "want": ["dump", "nosymtypes"]}, "xta": {"op": "xta", "buf": a, "want": ["dump", "nosymtypes"]},
              "family": family, "place": place, "depth": n, "op": "xml", "buf": x}
        if engine.check_crash(part, PID, px, "xml depth %s/%s/%d" % (family, place, n), rp) or \
                engine.check_crash(part, PID, pa, "xta depth %s/%s/%d" % (family, place, n), rp):
            continue
        part.nontrivial_case("depth:%s:%s:%d" % (family, place, n))
        mx, ma = xmlgen.msgs(px), xmlgen.msgs(pa)
        same = mx == ma and px.get("exc") == pa.get("exc") and (mx or not MG.diff(strip(px["dump"]), strip(pa["dump"])))
        if not mx and not ma:
            accepted += 1
        if same:
            part.outcome("depth:equivalent/" + ("accepted" if not mx else "rejected-both"))
        else:
            part.outcome("depth:formats-differ")
            if first is None:
                first = (n, mx[:2], ma[:2], rp)
    if first is not None:
        n, mx, ma, rp = first
        part.violation("nesting-depth:%s:%s:first-at=%d" % (family, place, n),
                       "%s nested %d deep in the %s: xml %s vs xta %s (the smallest depth at which the two formats differ)" %
                       (family, n, place, mx or "accepted", ma or "accepted"), rp)
    if accepted == 0 and not os.environ.get("UTAPV_REPO"):
        raise RuntimeError("C05 generator bug: depth family %s/%s is never accepted" % (family, place))
    return part.result()


def generic_path(p):
    import re
    return re.sub(r"\d+", "N", p)


def MG_key(devs):
    return "+".join(d.split("=")[0] for d in devs) or "base"


def main():
    b = bound()
    rep = engine.Report(PID, "exploration",
                        "choice-tree exploration (<= %d deviations) of the abstract model generator restricted to the XML/XTA common "
                        "subset (named locations, branchpoints, all label kinds, -u-> edges, {inv ; rate} states, urgent/commit, "
                        "parameters, instantiation, priorities), each model rendered as .xml and as .xta; for the base model and every "
                        "single deviation additionally 4 faults injected at the same site in both renderings. Constructs beyond the abstract "
                        "model as verbatim text in both renderings: %d texts (scalar sets, records, nested records, functions with every "
                        "statement kind, arrays over typedefs, channel priorities, meta/urgent/hybrid/double declarations, before/after "
                        "update, template-local types and functions, system-section declarations, progress measures, gantt charts) alone "
                        "and in all ordered pairs. Nesting depth: %d right-nested constructs at every depth 1..%d in an update, a guard and an "
                        "initialiser (the XTA parser has the enclosing process on its stack, the XML reader parses each block alone)."
                        % (b, len(EXTRAS), len(DEPTH_FAMILIES), DEPTH_MAX))
    prefs = choice.prefixes(gen, b)
    rep.extra["choice_sequences"] = len(prefs)
    n = engine.ncpu()
    chunk = max(1, min(300, len(prefs) // (n * 4) + 1))
    shards = [prefs[i:i + chunk] for i in range(0, len(prefs), chunk)]
    for res in engine.pmap(run_shard, shards):
        rep.merge(res)
    for res in engine.pmap(run_extras, [(i, n) for i in range(n)]):
        rep.merge(res)
    for res in engine.pmap(run_entry_points, [(i, engine.ncpu()) for i in range(engine.ncpu())]):
        rep.merge(res)
    for res in engine.pmap(run_depth, [(f, pl) for f in DEPTH_FAMILIES for pl in DEPTH_PLACES]):
        rep.merge(res)
    rep.assumptions = ["edge_t::actname is ignored (XML-only `action` attribute, default \"SKIP\")",
                       "diagnostics are compared as multisets of messages (positions are encoded per format)",
                       "common subset: every location named, branchpoints named _idN in the XTA text"]
    sys.exit(rep.finish())


if __name__ == "__main__":
    main()
