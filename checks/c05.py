#!/usr/bin/env python3
"""C05 — XML and XTA renderings of the same model yield equivalent documents.
The abstract model generator restricted to the common subset is rendered both
ways; the two documents built by the real library are compared (whole dump
except the XML-only `action` attribute default), together with diagnostics and
the supported-analysis verdict.  Rejected twins: the same fault injected at the
same site in both renderings."""
import json
import os
import sys

sys.path.insert(0, os.path.join(os.path.dirname(os.path.abspath(__file__)), "..", "lib"))
import choice
import engine
import modelgen as MG
import xmlgen

PID = "C05"

# faults injected identically into both renderings (text substitution on a label / declaration)
FAULTS = [None,
          ("g1 == ", "gUNDECL == ", "undeclared identifier in a guard"),
          ("g1 = ", "gx = bc + ", "type error in an update"),
          ("int g2;", "int g2 = gx;", "clock used as integer initialiser"),
          ("gx <= ", "g2++ <= ", "side effect in an invariant")]


def bound():
    return 3 if engine.tier() == "thorough" else 2


def gen(choose):
    return MG.build(choose, common=True)


def strip(dump):
    d = json.loads(json.dumps(dump))
    for t in d.get("templates", []):
        for e in t.get("edges", []):
            e.pop("actname", None)   # XML-only attribute `action` defaults to "SKIP"; XTA has no syntax for it
    d.pop("queries", None)
    return d


def run_shard(prefs):
    part = engine.Part()
    w = engine.worker("fast")
    items = []
    for pf in prefs:
        m, r = choice.run(gen, pf)
        x, a = MG.render_xml(m), MG.render_xta(m)
        a2 = MG.render_xta(m, chain=False)
        if a2 != a:
            items.append((m, r, x, a2, None))      # the same model with every transition written out in full
        faults = FAULTS if len([c for c in r.choices if c]) <= 1 else [None]
        for f in faults:
            if f is None:
                items.append((m, r, x, a, None))
            elif f[0] in a and xmlgen.esc(f[0]) in x:
                items.append((m, r, x.replace(xmlgen.esc(f[0]), xmlgen.esc(f[1]), 1), a.replace(f[0], f[1], 1), f[2]))
    rx = xmlgen.run_docs(w, [it[2] for it in items], want=["dump", "nosymtypes"], batch=50)
    ra = xmlgen.run_docs(w, [it[3] for it in items], want=["dump", "nosymtypes"], batch=50, kind="xta")
    for (m, r, x, a, fault), px, pa in zip(items, rx, ra):
        part.count()
        devs = choice.deviations(r.choices, r.tags)
        key = MG_key(devs) + (":fault" if fault else "")
        rp = {"xml": {"op": "xml", "buf": x, "want": ["dump", "nosymtypes"]}, "xta": {"op": "xta", "buf": a, "want": ["dump", "nosymtypes"]},
              "deviations": devs, "fault": fault, "op": "xml", "buf": x}
        if engine.check_crash(part, PID, px, "xml of " + key, rp) or engine.check_crash(part, PID, pa, "xta of " + key, rp):
            continue
        part.nontrivial_case(json.dumps(r.choices) + str(fault))
        # verdicts: the XML entry point returns 0 / throws, the XTA entry point returns !has_errors
        ex, ea = px.get("exc"), pa.get("exc")
        if ex or ea:
            part.outcome("exception")
            part.violation("exception:" + key, "xml exc=%s xta exc=%s for the same model (%s)" % (ex, ea, devs), rp)
            continue
        mx, ma = xmlgen.msgs(px), xmlgen.msgs(pa)
        if mx != ma:
            part.outcome("diagnostics-differ")
            part.violation("diagnostics-differ:" + key, "diagnostics differ: xml %s vs xta %s (%s, fault %s)" % (mx[:3], ma[:3], devs, fault), rp)
            continue
        if fault is None and mx:
            part.outcome("unexpected-diagnostics")
            part.violation("unexpected-diagnostics:" + key, "type-correct model draws %s in both formats (%s)" % (mx[:3], devs), rp)
            continue
        d = MG.diff(strip(px["dump"]), strip(pa["dump"]))
        if d:
            part.outcome("documents-differ")
            part.violation("documents-differ:%s:%s" % (generic_path(d[0]), key),
                           "documents differ at %s: xml %s vs xta %s (%s, fault %s)" %
                           (d[0], json.dumps(d[1])[:160], json.dumps(d[2])[:160], devs, fault), rp)
            continue
        if px["methods"] != pa["methods"]:
            part.outcome("verdict-differs")
            part.violation("verdict-differs:" + key, "supported methods differ: xml %s xta %s" % (px["methods"], pa["methods"]), rp)
            continue
        if fault is None:
            # both must also equal the abstract model (so that "equal" is not "equally wrong")
            d2 = MG.diff(MG.expected(m), MG.project(pa["dump"], m))
            if d2:
                part.outcome("xta-differs-from-model")
                part.violation("xta-vs-model:%s:%s" % (generic_path(d2[0]), key), "XTA document differs from the model at %s: "
                               "expected %s got %s" % (d2[0], json.dumps(d2[1])[:160], json.dumps(d2[2])[:160]), rp)
                continue
        part.outcome("equivalent" + ("/rejected-twin" if mx else "/accepted"))
        if len(part.samples) < 1:
            part.sample({"deviations": devs, "xta": a[:500] + "..."})
    return part.result()


def generic_path(p):
    import re
    return re.sub(r"\d+", "N", p)


def MG_key(devs):
    return "+".join(d.split("=")[0] for d in devs) or "base"


def main():
    b = bound()
    rep = engine.Report(PID, "exploration",
                        "choice-tree exploration (<= %d deviations) of the abstract model generator restricted to the XML/XTA common "
                        "subset (named locations, branchpoints, all label kinds, -u-> edges, {inv ; rate} states, urgent/commit, "
                        "parameters, instantiation, priorities), each model rendered as .xml and as .xta; for the base model and every "
                        "single deviation additionally 4 faults injected at the same site in both renderings." % b)
    prefs = choice.prefixes(gen, b)
    rep.extra["choice_sequences"] = len(prefs)
    n = engine.ncpu()
    chunk = max(1, min(300, len(prefs) // (n * 4) + 1))
    shards = [prefs[i:i + chunk] for i in range(0, len(prefs), chunk)]
    for res in engine.pmap(run_shard, shards):
        rep.merge(res)
    rep.assumptions = ["edge_t::actname is ignored (XML-only `action` attribute, default \"SKIP\")",
                       "diagnostics are compared as multisets of messages (positions are encoded per format)",
                       "common subset: every location named, branchpoints named _idN in the XTA text"]
    sys.exit(rep.finish())


if __name__ == "__main__":
    main()
