#!/usr/bin/env python3
"""C03 — printing an expression or query and re-parsing it reproduces the same
tree.  Every tree of the C02 enumeration that the library itself accepts
(parses and type checks without diagnostics) and every query form x operand
pool is printed with the library's str(), re-parsed in the same scope and
compared (structure, symbols, constants bit-exact, second str() identical)."""
import os
import re
import sys

sys.path.insert(0, os.path.join(os.path.dirname(os.path.abspath(__file__)), "..", "lib"))
import engine
import exprgen as G
import xmlgen

PID = "C03"
CTX = {"kind": "decl", "text": G.DECL}


def call(w, op, ctx, items, **kw):
    out = []
    for k in range(0, len(items), 300):
        req = {"op": op, "ctx": ctx, "items": items[k:k + 300], "print": True}
        req.update(kw)
        r = w.call_safe(req, timeout=120)
        if r.get("died"):
            for it in items[k:k + 300]:
                req["items"] = [it]
                r1 = w.call_safe(req, timeout=30)
                out.append(r1 if r1.get("died") else r1["results"][0])
            continue
        if r["ctx"]["errors"] or r["ctx"]["exc"]:
            raise RuntimeError("generator bug: context rejected: %s" % str(r["ctx"])[:500])
        out.extend(r["results"])
    return out


def kinds_path(sexpr, other):
    """first position where two s-expressions differ, as a (parent kind, child kind) description"""
    toks_a = re.findall(r"\(|\)|[^\s()]+", sexpr)
    toks_b = re.findall(r"\(|\)|[^\s()]+", other or "")
    stack = []
    for i, t in enumerate(toks_a):
        if i >= len(toks_b) or toks_b[i] != t:
            return "%s>%s" % (stack[-1] if stack else "-", t)
        if t == "(":
            stack.append(None)
        elif t == ")":
            if stack:
                stack.pop()
        elif stack and stack[-1] is None:
            stack[-1] = t.split(":")[0]
    return "?"


def judge(part, what, text, r, rp, sigbase):
    """the round-trip oracle on one worker result (expression or query)"""
    if r.get("exc") is not None or r.get("perr") or r.get("terr") or r.get("err") or r.get("tc_exc") or r.get("sexpr") is None:
        part.outcome(what + ":not-accepted")
        return
    part.nontrivial_case(what + ":" + text)
    if r.get("str_exc"):
        part.outcome(what + ":str-throws")
        part.violation("str-throws:%s:%s" % (what, sigbase), "str() of accepted %s `%s` throws %s %s" %
                       (what, text, r["str_exc"], r.get("str_what", "")), rp)
        return
    s = r["str"]
    if r.get("re_exc") or r.get("re_err") or r.get("re_sexpr") is None:
        part.outcome(what + ":reparse-rejected")
        part.violation("reparse-rejected:%s:%s" % (what, sigbase),
                       "%s `%s` prints as `%s`, which the same parser rejects: %s" %
                       (what, text, s, [e["msg"] for e in r.get("re_err", [])][:2] or r.get("re_exc")), rp)
        return
    if r["re_sexpr"] != r["sexpr"]:
        part.outcome(what + ":tree-differs")
        part.violation("tree-differs:%s:%s:%s" % (what, sigbase, kinds_path(r["sexpr"], r["re_sexpr"])),
                       "%s `%s` prints as `%s`, which parses to a different tree: %s vs %s" %
                       (what, text, s, r["re_sexpr"][:200], r["sexpr"][:200]), rp)
        return
    if what == "query" and r.get("re_quant") != r.get("quant"):
        part.outcome(what + ":quantifier-differs")
        part.violation("quant-differs:%s:%s" % (what, sigbase), "query `%s` prints as `%s`, which is a query of another kind "
                       "(%s vs %s)" % (text, s, r.get("re_quant"), r.get("quant")), rp)
        return
    if r.get("re_str") != s:
        part.outcome(what + ":str-not-fixpoint")
        part.violation("str-not-fixpoint:%s:%s" % (what, sigbase), "%s `%s`: str() = `%s` but str(parse(str())) = `%s`" %
                       (what, text, s, r.get("re_str")), rp)
        return
    part.outcome(what + ":round-trip-ok")
    if len(part.samples) < 2:
        part.sample({"input": text, "str": s, "reparsed_equal": True})


def trees_for(shard):
    kind, i, n = shard
    if kind == "d1":
        return G.depth1()
    if kind == "d2":
        return [t for k, t in enumerate(G.depth2()) if k % n == i]
    if kind == "d3":
        return list(G.depth3_chains(i, n))
    if kind == "p2":
        return list(G.depth2_pairs(i, n))


def run_shard(shard):
    part = engine.Part()
    w = engine.worker("fast")
    ts = trees_for(shard)
    texts = [G.render(t, False) for _, t in ts]
    res = call(w, "exprs", CTX, texts, typecheck=True)
    for (name, t), text, r in zip(ts, texts, res):
        part.count()
        rp = {"op": "exprs", "ctx": CTX, "items": [text], "print": True}
        if engine.check_crash(part, PID, r, text, rp):
            continue
        judge(part, "expr", text, r, rp, "/".join(name.split("/")[:3]))
    return part.result()


# ---- literals and doubles through str() -----------------------------------------------------------
DOUBLES = ["0.0", "1.0", "0.1", "1.5", "0.30000000000000004", "1.0000000001", "3.141592653589793", "1e22", "1e23", "1e-7",
           "123456789.125", "2.2250738585072014e-308", "1.7976931348623157e308", "4.9e-324", "0.000001", "1234567.0",
           "100000.0", "1000000.0", "10000000.0", "0.5", "2.5e-3", "6.02214076e23", "1.0e100", "9007199254740993.0"]
INTS = ["0", "1", "2147483647", "- 2147483648", "- 1", "32767"]


def run_literals(rep):
    part = engine.Part()
    w = engine.worker("fast")
    items = DOUBLES + ["- " + d for d in DOUBLES] + ["z + " + d for d in DOUBLES] + INTS + ["a + " + i.replace("- ", "") for i in INTS]
    res = call(w, "exprs", CTX, items, typecheck=True)
    for text, r in zip(items, res):
        part.count()
        rp = {"op": "exprs", "ctx": CTX, "items": [text], "print": True}
        if engine.check_crash(part, PID, r, text, rp):
            continue
        lit = text.split()[-1]
        judge(part, "literal", text, r, rp, "double" if ("." in lit or "e" in lit) else "int")
    rep.merge(part.result())


# string literals (arguments of functions with string parameters): letters, blanks, text that reads as an identifier declared in the
# scope / as a number / as an operator expression, characters outside ASCII (2, 3 and 4 bytes in UTF-8), backslashes
STRINGS = ["s", "abc", "a b", "a", "arr", "fn0", "1", "1.5", "a + b", "a, b", "true", "x'", "Z\u00fcrich", "\u20ac", "Malm\u00f6 to \u00c5rhus",
           "\U0001F600", "(", ")", "a)", "// c", "/* c */", "a\\\\b", "a\\b", "'", "back\\", 'a\\"b', '\\"', 'q\\"']
STRING_CTX = {"kind": "decl", "text": G.DECL + " int sfn(const string s) { return 1; } bool sknown(const string s, int n, const string t) { return true; }"}


def run_strings(rep):
    part = engine.Part()
    w = engine.worker("fast")
    items = []
    for st in STRINGS:
        q = '"%s"' % st
        items += ["sfn ( %s )" % q, "a + sfn ( %s )" % q, "sknown ( %s , a , %s )" % (q, q), "sknown ( %s , sfn ( %s ) , \"abc\" ) && p" % (q, q),
                  "a = sfn ( %s )" % q]
    res = call(w, "exprs", STRING_CTX, items, typecheck=True)
    for text, r in zip(items, res):
        part.count()
        rp = {"op": "exprs", "ctx": STRING_CTX, "items": [text], "print": True}
        if engine.check_crash(part, PID, r, text, rp):
            continue
        judge(part, "string-literal", text, r, rp, "string")
    rep.merge(part.result())

# ---- binders over named types: the printed type of a binder must denote the same type (scalar sets are compared by name) ---------
BINDER_DECL = ("typedef scalar[3] sid_t; typedef int[0,2] rid_t; typedef rid_t rid2_t; int bys[sid_t]; sid_t owner; int byr[rid_t]; rid_t ro; "
               "int byi[3]; bool bb; const int N = 2; typedef int[0,N] nid_t; int byn[nid_t];")
BINDER_TYPES = {"sid_t": ("bys", "owner"), "rid_t": ("byr", "ro"), "rid2_t": ("byr", "ro"), "nid_t": ("byn", "ro"), "int[0,2]": ("byi", "ro"),
                "int[0,N]": ("byi", "ro"), "scalar[3]": (None, None)}


def binder_items():
    items = []
    for ty, (arr, var) in BINDER_TYPES.items():
        bodies = ["true", "bb"]
        if arr:
            bodies += ["%s [ s ] > 0" % arr, "s == %s" % var, "%s [ s ] == %s [ %s ]" % (arr, arr, var),
                       "forall ( t : %s ) s == t || %s [ t ] >= %s [ s ]" % (ty, arr, arr), "exists ( t : %s ) t != s" % ty]
        for b in bodies:
            items.append("forall ( s : %s ) %s" % (ty, b))
            items.append("exists ( s : %s ) %s" % (ty, b))
            items.append("bb && ( forall ( s : %s ) %s )" % (ty, b))
        if arr:
            items.append("sum ( s : %s ) %s [ s ]" % (ty, arr))
            items.append("1 + ( sum ( s : %s ) %s [ s ] * 2 )" % (ty, arr))
    return items


def run_binders(rep):
    part = engine.Part()
    w = engine.worker("fast")
    ctx = {"kind": "decl", "text": BINDER_DECL}
    items = binder_items()
    for text, r in zip(items, call(w, "exprs", ctx, items, typecheck=True)):
        part.count()
        rp = {"op": "exprs", "ctx": ctx, "items": [text], "print": True}
        if engine.check_crash(part, PID, r, text, rp):
            continue
        judge(part, "binder-expr", text, r, rp, "binder:" + text.split(":")[1].split(")")[0].strip())
    t0 = ('<template><name>T</name><location id="id0"><name>L0</name></location><init ref="id0"/></template>')
    import xmlgen as X
    qctx = {"kind": "xml", "text": X.nta(BINDER_DECL, [X.template("T", locations=[X.location("id0", "L0")], init="id0")], "P = T(); system P;")}
    qs = [q % it for it in items if not it.startswith(("sum", "1 +")) for q in ("E<> %s", "A[] %s", "E<> P.L0 && ( %s )")]
    qs += ["sup: %s" % it for it in items if it.startswith("sum")]
    for text, r in zip(qs, call(w, "queries", qctx, qs)):
        part.count()
        rp = {"op": "queries", "ctx": qctx, "items": [text], "print": True}
        if engine.check_crash(part, PID, r, text, rp):
            continue
        judge(part, "binder-query", text, r, rp, "binder-query:" + text.split(":")[-1].split(")")[0].strip() if ":" in text else "binder-query")
    rep.merge(part.result())


# ---- queries ------------------------------------------------------------------------------------------
QMODEL_DECL = "int a, b; clock x, y; bool p, q; int arr[3]; double z; broadcast chan ch; hybrid clock hx; const string qpath = \"out.json\";"
POOL = ["1", "1.5", "a", "a + b", "a < b", "p && q", "p || q", "! p", "p ? a : b", "P.L1", "arr [ a ]",
        "forall ( i : int[0,1] ) arr [ i ] > 0", "P.L1 && x < 5", "a == 1", "true", "not p", "x <= 5", "P.k > 0"]
BOOLS = ["p", "a < b", "p && q", "p || q", "! p", "P.L1", "forall ( i : int[0,1] ) arr [ i ] > 0", "P.L1 && x < 5",
         "a == 1", "true", "not p", "x <= 5", "p imply q", "( p ? a : b ) > 0", "P.k > 0", "arr [ a ] == 1", "deadlock",
         "not deadlock", "p xor q"]
NUMS = ["1", "a", "a + b", "p ? a : b", "arr [ a ]", "P.k", "x", "z", "a * 2", "1.5"]


def qmodel():
    t = xmlgen.template("T", decl="int k; clock lx;",
                        locations=[xmlgen.location("id0", "L0"), xmlgen.location("id1", "L1")], init="id0",
                        transitions=[xmlgen.transition("id0", "id1", guard="x >= 1", assign="a = 1, k = 1"),
                                     xmlgen.transition("id1", "id0", controllable=False, assign="b = 1")])
    return xmlgen.nta(QMODEL_DECL, [t], "P = T(); system P;")


def query_forms():
    """(form id, template with {p} {q} {n} {m} slots)"""
    F = []
    for q in ("A[]", "E<>", "A<>", "E[]"):
        F.append((q, q + " {p}"))
    F.append(("-->", "{p} --> {q}"))
    F += [("sup", "sup: {n}"), ("sup2", "sup: {n} , {m}"), ("sup{}", "sup {{ {p} }} : {n}"), ("inf", "inf: {n}"),
          ("inf{}", "inf {{ {p} }} : {n}"), ("bounds", "bounds: {n}"), ("bounds{}", "bounds {{ {p} }} : {n}")]
    for bound in ("<=10", "#<=20", "x<=10", "<={n}"):
        bid = bound.replace("{n}", "N")
        F.append(("Pr<>" + bid, "Pr[" + bound + "] ( <> {p} )"))
        F.append(("Pr[]" + bid, "Pr[" + bound + "] ( [] {p} )"))
    F += [("Pr;runs", "Pr[<=10; 100] ( <> {p} )"), ("Pr>=", "Pr[<=10] ( <> {p} ) >= 0.5"), ("Pr<=", "Pr[<=10] ( [] {p} ) <= 0.25"),
          ("Pr>=Pr", "Pr[<=10] ( <> {p} ) >= Pr[<=20] ( <> {q} )"), ("Pr<=Pr", "Pr[<=10] ( [] {p} ) <= Pr[#<=5] ( <> {q} )"),
          ("PrU", "Pr[<=10] ( {p} U {q} )"),
          ("Emax", "E[<=10; 100] ( max: {n} )"), ("Emin", "E[#<=10; 50] ( min: {n} )"), ("Emax-noruns", "E[<=10] ( max: {n} )"),
          ("sim1", "simulate [<=10] {{ {n} }}"), ("sim2", "simulate [<=10] {{ {n} , {m} }}"), ("sim3", "simulate [#<=10; 5] {{ {n} , {m} , {n} }}"),
          ("sim:e", "simulate [<=10; 5] {{ {n} }} : {p}"), ("sim:n:e", "simulate [<=10; 5] {{ {n} }} : 3 : {p}"),
          ("control", "control: A<> {p}"), ("control[]", "control: A[] {p}"), ("controlU", "control: A[ {p} U {q} ]"),
          ("controlW", "control: A[ {p} W {q} ]"),
          ("control_t*", "control_t*: A<> {p}"), ("control_t*1", "control_t*( {n} ): A<> {p}"), ("control_t*2", "control_t*( {n} , {m} ): A<> {p}"),
          ("control_t*U", "control_t*: A[ {p} U {q} ]"),
          ("E<>control", "E<> control: A<> {p}"), ("E<>control[]", "E<> control: A[] {p}"), ("{}control", "{{ a , b }} control: A<> {p}"),
          ("{}control[]", "{{ a }} control: A[] {p}"),
          ("minE", "minE ( {n} ) [<=10] : <> {p}"), ("maxE", "maxE ( {n} ) [<=10] : <> {p}"),
          ("minE{}", "minE ( {n} ) [<=10] {{ a , b }} -> {{ z }} : <> {p}"), ("maxE{}", "maxE ( {n} ) [#<=10] {{ a }} -> {{ }} : <> {p}"),
          ("minPr", "minPr [<=10] : <> {p}"), ("maxPr", "maxPr [<=10] : <> {p}"), ("maxPr[]", "maxPr [<=10] : [] {p}"),
          ("minPr{}", "minPr [<=10] {{ a }} -> {{ z }} : <> {p}"),
          ("loadStrategy", "strategy S1 = loadStrategy {{ a }} -> {{ z }} ( \"file\" )"),
          ("strategy=", "strategy S2 = control: A<> {p}"), ("strategy=minE", "strategy S3 = minE ( {n} ) [<=10] : <> {p}"),
          ("A[]", "A[] {p}"), ("A[]imply", "A[] {p} imply {q}"), ("E<>and", "E<> {p} and {q}"), ("A[]not", "A[] not {p}"),
          ("A<>or", "A<> {p} or {q}")]
    # MITL
    F += [("mitl<>", "Pr ( <> [ 0 , 5 ] {p} )"), ("mitl[]", "Pr ( [] [ 1 , 2 ] {p} )"), ("mitlU", "Pr ( ( {p} U [ 0 , 5 ] {q} ) )"),
          ("mitlR", "Pr ( ( {p} R [ 1 , 2 ] {q} ) )"), ("mitlX", "Pr ( ( X {p} ) )"), ("mitl&&", "Pr ( ( <> [ 0 , 5 ] {p} ) && ( [] [ 1 , 2 ] {q} ) )"),
          ("mitl||", "Pr ( ( X {p} ) || ( {q} ) )"), ("mitl-nested", "Pr ( ( ( X {p} ) U [ 0 , 3 ] ( <> [ 1 , 2 ] {q} ) ) )"),
          ("mitl-mixed", "Pr ( ( ( X {p} ) || ( {q} ) ) && ( ( {q} R [ 0 , 1 ] {p} ) ) )"), ("mitl-atom", "Pr {p}"),
          ("control-buchi", "control: A[] ( {p} and A<> {q} )")]
    # a bound on a clock that is chosen by an expression
    F += [("Pr-bound-clock-expression", "Pr[( p ? x : y )<=10] ( <> {p} )"), ("E-bound-clock-expression", "E[( p ? x : y )<=10; 5] ( max: {n} )")]
    # comparisons of two probabilities whose sides are bounded in different ways (time, steps, clocks)
    kinds = [("time", "<=10"), ("steps", "#<=5"), ("clock-x", "x<=7"), ("clock-y", "y<=3")]
    for (n1, b1) in kinds:
        for (n2, b2) in kinds:
            if (n1, n2) != ("time", "time"):
                F.append(("Pr>=Pr:%s/%s" % (n1, n2), "Pr[%s] ( <> {p} ) >= Pr[%s] ( [] {q} )" % (b1, b2)))
    return F


# forms that refer to strategies: the strategy declarations are parsed in front of the query, in the same call
STRATEGY_PREAMBLE = "strategy S8 = control: A<> p\nstrategy S9 = minE ( a ) [<=10] : <> p"


def strategy_forms():
    return [("under-E<>", "E<> {p} under S8"), ("under-A[]", "A[] {p} under S8"), ("under-leadsto", "{p} --> {q} under S8"),
            ("under-Pr", "Pr[<=10] ( <> {p} ) under S9"), ("under-Pr>=", "Pr[<=10] ( <> {p} ) >= 0.5 under S9"),
            ("under-Pr>=Pr", "Pr[<=10] ( <> {p} ) under S9 >= Pr[<=10] ( <> {q} )"), ("under-sim", "simulate [<=10] {{ {n} }} under S9"),
            ("under-E", "E[<=10; 100] ( max: {n} ) under S9"), ("under-sup", "sup: {n} under S8"), ("under-control", "control: A<> {p} under S8"),
            ("under-minE", "minE ( {n} ) [<=10] : <> {p} under S8"), ("imitate", "strategy S10 = minE ( {n} ) [<=10] : <> {p} imitate S9"),
            ("under-imitate", "strategy S11 = maxE ( {n} ) [<=10] : <> {p} under S8 imitate S9"), ("saveStrategy", "saveStrategy ( \"file\" , S8 )"),
            ("saveStrategy-constant", "saveStrategy ( qpath , S8 )"),
            ("under-mitl", "Pr ( <> [ 0 , 5 ] {p} ) under S9")]


def run_queries(shard):
    part = engine.Part()
    w = engine.worker("fast")
    forms = query_forms()
    fi, n = shard
    ctx = {"kind": "xml", "text": qmodel()}
    items, meta = [], []
    for k, (fid, tpl) in enumerate(forms):
        if k % n != fi:
            continue
        ps = BOOLS if "{p}" in tpl else [None]
        ns = NUMS if "{n}" in tpl else [None]
        for p in ps:
            for nn in ns:
                q = BOOLS[(BOOLS.index(p) + 3) % len(BOOLS)] if p is not None else "q"
                m = NUMS[(NUMS.index(nn) + 2) % len(NUMS)] if nn is not None else "b"
                text = tpl.format(p=p, q=q, n=nn, m=m)
                items.append(text)
                meta.append(fid)
    res = call(w, "queries", ctx, items)
    for fid, text, r in zip(meta, items, res):
        part.count()
        rp = {"op": "queries", "ctx": ctx, "items": [text], "print": True}
        if engine.check_crash(part, PID, r, text, rp):
            continue
        if r.get("exc") is not None and r.get("std") is False:
            part.violation("query-nonstd-exception:" + fid, "query `%s` ends in a non-std exception %s" % (text, r["exc"]), rp)
            continue
        judge(part, "query", text, r, rp, fid)
        if r.get("sexpr") is not None and not r.get("err"):
            part.add("qform_ok:" + fid, 1)
    # forms over declared strategies (under / imitate / saveStrategy)
    items, meta = [], []
    for k, (fid, tpl) in enumerate(strategy_forms()):
        if k % n != fi:
            continue
        for p in (BOOLS[:8] if "{p}" in tpl else [None]):
            for nn in (NUMS[:6] if "{n}" in tpl else [None]):
                items.append(tpl.format(p=p, q="q", n=nn, m="b"))
                meta.append(fid)
    kw = {"preamble": STRATEGY_PREAMBLE, "preamble_props": 2}
    res = call(w, "queries", ctx, items, **kw) if items else []
    for fid, text, r in zip(meta, items, res):
        part.count()
        rp = dict({"op": "queries", "ctx": ctx, "items": [text], "print": True}, **kw)
        if engine.check_crash(part, PID, r, text, rp):
            continue
        if r.get("exc") is not None and r.get("std") is False:
            part.violation("query-nonstd-exception:" + fid, "query `%s` ends in a non-std exception %s" % (text, r["exc"]), rp)
            continue
        judge(part, "query", text, r, rp, fid)
        if r.get("sexpr") is not None and not r.get("err"):
            part.add("qform_ok:" + fid, 1)
    return part.result()


def run_dynamic(shard):
    """quantifiers over the instances of dynamic templates in expressions and SMC queries (lib/dynspace.py)"""
    import dynspace as DS
    part = engine.Part()
    w = engine.worker("fast")
    i, n = shard
    exprs, queries = DS.dynamic_items()
    ex = [t for k, t in enumerate(exprs) if k % n == i]
    for text, r in zip(ex, call(w, "exprs", DS.DYN_CTX, ex, typecheck=True)):
        part.count()
        rp = {"op": "exprs", "ctx": DS.DYN_CTX, "items": [text], "print": True}
        if not engine.check_crash(part, PID, r, text, rp):
            judge(part, "dynamic-expr", text, r, rp, text.split("(")[0].strip() or "paren")
    qs = [t for k, t in enumerate(queries) if k % n == i]
    for text, r in zip(qs, call(w, "queries", DS.DYN_CTX, qs)):
        part.count()
        rp = {"op": "queries", "ctx": DS.DYN_CTX, "items": [text], "print": True}
        if not engine.check_crash(part, PID, r, text, rp):
            judge(part, "dynamic-query", text, r, rp, text.split("(")[0].strip())
    return part.result()


def main():
    rep = engine.Report(PID, "exploration",
                        "every tree of the C02 enumeration (all constructors; all parent/slot/child triples%s) that the library "
                        "accepts without diagnostics, a grid of double/int literals, and %d query forms x boolean/numeric operand "
                        "pools (%d x %d): str() -> parse in the same scope -> compare tree, symbols, constants (bit-exact) and "
                        "second str(). non-trivial = accepted by the library (so the round trip is actually exercised)."
                        % (", depth-3 chains, two-compound-operand parents",
                           len(query_forms()), len(BOOLS), len(NUMS)))
    n = engine.ncpu()
    shards = [("d1", 0, 1)] + [("d2", i, n) for i in range(n)]
    # (both tiers: the whole enumeration takes seconds)
    shards += [("d3", i, 4 * n) for i in range(4 * n)] + [("p2", i, 2 * n) for i in range(2 * n)]
    for res in engine.pmap(run_shard, shards):
        rep.merge(res)
    run_literals(rep)
    run_strings(rep)
    run_binders(rep)
    for res in engine.pmap(run_queries, [(i, n) for i in range(n)]):
        rep.merge(res)
    for res in engine.pmap(run_dynamic, [(i, n) for i in range(n)]):
        rep.merge(res)
    acc = sorted(k[9:] for k in list(rep.extra) if k.startswith("qform_ok:"))
    rep.extra["query_forms_accepted"] = {k: rep.extra.pop("qform_ok:" + k) for k in acc}
    rep.extra["query_forms_never_accepted"] = sorted(set(f for f, _ in query_forms() + strategy_forms()) - set(acc))
    rep.assumptions = ["the set of expressions/queries is defined by the library's own acceptance (no diagnostics)",
                       "tree equality is judged on the harness s-expression (kinds, order, symbol names, constants as hex floats)"]
    sys.exit(rep.finish())


if __name__ == "__main__":
    main()
