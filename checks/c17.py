#!/usr/bin/env python3
"""C17 — analysis methods are reported as supported only when the model permits
them.  Matrix of restricting features x placements (conjunct position, operand
order, relational operator, update-list position, global/local declaration,
instantiated or not, declaration order); reference feature oracle R7 computed
from the generator's own flags."""
import itertools
import os
import sys

sys.path.insert(0, os.path.join(os.path.dirname(os.path.abspath(__file__)), "..", "lib"))
import engine
import xmlgen as X

PID = "C17"

G0 = "int i; double d = 1.5; double fd() { return 2.5; } broadcast chan bc;"


def T(name="T", decl="clock x; hybrid clock h;", params=None, inv=None, guard=None, assign=None, sync=None, lockind=None):
    return X.template(name, params=params, decl=decl, locations=[X.location("id0_" + name, "L0", inv=inv, urgent=lockind == "urgent", committed=lockind == "committed"),
                                                                  X.location("id1_" + name, "L1")],
                      init="id0_" + name, transitions=[X.transition("id0_" + name, "id1_" + name, guard=guard, sync=sync,
                                                                    assign=assign)])


def conj(pos, feature, n=3):
    parts = ["i == %d" % k for k in range(n)]
    parts[pos] = feature
    return " && ".join(parts)


def features():
    """yields (feature id, placement id, kwargs for the carrying template, extra global decl, expected restrictions)"""
    fps = [("literal", "1.5"), ("double-var", "d"), ("double-call", "fd()"), ("double-expr", "d * 2.0")]
    ops = ["<", "<=", "==", ">=", ">"]
    # clock compared with a floating-point value: in guards
    for (fid, fp), op, rev in itertools.product(fps, ops, (False, True)):
        cmp_ = ("%s %s x" % (fp, op)) if rev else ("x %s %s" % (op, fp))
        for pos in range(3):
            yield ("clock-cmp-fp-guard:" + fid, "%s:%s:pos%d" % (op, "rev" if rev else "fwd", pos),
                   dict(guard=conj(pos, cmp_)), "", {"symbolic"})
        yield ("clock-cmp-fp-guard:" + fid, "%s:%s:alone" % (op, "rev" if rev else "fwd"), dict(guard=cmp_), "", {"symbolic"})
        # in invariants (upper bounds only make sense, the others are filtered by acceptance)
        for pos in range(3):
            yield ("clock-cmp-fp-invariant:" + fid, "%s:%s:pos%d" % (op, "rev" if rev else "fwd", pos),
                   dict(inv=conj(pos, cmp_)), "", {"symbolic"})
        yield ("clock-cmp-fp-invariant:" + fid, "%s:%s:alone" % (op, "rev" if rev else "fwd"), dict(inv=cmp_), "", {"symbolic"})
    # the comparison below other connectives / in other operand shapes (accepted placements only count)
    for (fid, fp) in fps:
        for wid, g in (("or-clock-free", "i == 0 || x < %s"), ("imply", "i == 0 imply x < %s"), ("forall", "forall (k : int[0,1]) x < %s"),
                       ("right-nested-and", "i == 0 && (x < %s && i == 1)"), ("parentheses", "((x < %s))"), ("neq-conjunct", "i != 1 && x >= %s"),
                       ("inline-if-bound", "x < (i == 0 ? %s : 2.5)"), ("sum-bound", "x < %s + i"), ("nested-forall-and", "forall (k : int[0,1]) (i == k && x < %s)")):
            yield ("clock-cmp-fp-guard:" + fid, "wrapped:" + wid, dict(guard=g % fp), "", {"symbolic"})
            yield ("clock-cmp-fp-invariant:" + fid, "wrapped:" + wid, dict(inv=g % fp), "", {"symbolic"})
        yield ("clock-cmp-fp-guard:" + fid, "clock-array-element", dict(decl="clock x; clock xs[2]; hybrid clock h;", guard="xs[1] < %s" % fp), "", {"symbolic"})
    # clock difference compared with fp
    yield ("clock-diff-cmp-fp", "guard", dict(decl="clock x, y; hybrid clock h;", guard="x - y < 1.5"), "", {"symbolic"})
    # assignments from floating point, at every position of an update list
    for tid, stmt in (("clock=literal", "x = 1.5"), ("clock=double-var", "x = d"), ("clock=double-call", "x = fd()"),
                      ("double-var=literal", "d = 2.5"), ("double-var=expr", "d = d * 2.0"), ("int=double", "i = fint(d)")):
        for pos in range(3):
            parts = ["i = %d" % k for k in range(3)]
            parts[pos] = stmt
            yield ("assign-fp:" + tid, "update-pos%d" % pos, dict(assign=", ".join(parts)), "", {"symbolic"})
        yield ("assign-fp:" + tid, "update-alone", dict(assign=stmt), "", {"symbolic"})
    # assignments hidden in functions (template-local and global), in statements, through inline-if
    for tid, stmt in (("clock=literal", "x = 1.5;"), ("double-var=literal", "d = 2.5;"), ("double-local", "double t = 0.5; t = t * 2.0;"),
                      ("in-if", "if (i == 0) { d = 2.5; }"), ("in-loop", "for (k : int[0,1]) { d = d * 2.0; }"),
                      ("in-nested-block", "{ { d = 2.5; } }"), ("in-while", "while (i < 1) { i++; d = 0.5; }"),
                      # every statement form once more, and code that follows a statement which may return
                      ("in-else", "if (i == 0) { i = 1; } else { d = 2.5; }"), ("in-do-while", "do { d = 0.5; i++; } while (i < 1);"),
                      ("in-for", "for (i = 0; i < 2; i++) { d = d + 0.5; }"), ("in-for-step", "for (i = 0; i < 2; i++, d = 0.5) { }"),
                      ("after-while-that-returns", "while (i > 0) { i--; return; } d = 2.5;"),
                      ("after-for-that-returns", "for (i = 0; i < 0; i++) { return; } d = 2.5;"),
                      ("after-iteration-that-returns", "for (k : int[0,1]) { if (i > 5) { return; } } d = 2.5;"),
                      ("after-if-that-returns", "if (i > 5) { return; } d = 2.5;"), ("after-do-while", "do { i++; } while (i < 1); d = 2.5;"),
                      ("after-nested-block-with-return-in-branch", "{ if (i > 5) { return; } } d = 2.5;"),
                      ("in-local-initialiser", "double t = d * 2.0; d = t;"), ("in-block-after-declarations-only-block", "{ int u = 1; } d = 2.5;")):
        if "x =" not in stmt:
            yield ("assign-fp-in-function:" + tid, "global-function", dict(assign="up()"), "void up() { %s }" % stmt, {"symbolic"})
        yield ("assign-fp-in-function:" + tid, "template-local-function", dict(decl="clock x; hybrid clock h; void up() { %s }" % stmt, assign="up()"),
               "", {"symbolic"})
    yield ("assign-fp:clock=inline-if", "update-alone", dict(assign="x = (i == 0 ? 1.5 : 2.5)"), "", {"symbolic"})
    # clock initialised with a floating point value
    yield ("clock-init-fp", "template-local-clock-array", dict(decl="clock x; clock xs[2] = {1.5, 2.5}; hybrid clock h;"), "", {"symbolic"})
    yield ("clock-init-fp", "global-clock-array", dict(), "clock gxs[2] = {1.5, 2.5};", {"symbolic"})
    # every way of spelling a clock array (dimensions written out, behind typedef names, mixed, records of clocks), globally and locally,
    # the floating-point value at the first and at the last position
    shapes = [("matrix", "clock {n}[2][2] = {{{{{a}, 0.0}}, {{0.0, {b}}}}};"),
              ("typedef-inner-dimension", "typedef clock pair_t[2]; pair_t {n}[2] = {{{{{a}, 0.0}}, {{0.0, {b}}}}};"),
              ("typedef-both-dimensions", "typedef clock pair_t[2]; typedef pair_t quad_t[2]; quad_t {n} = {{{{{a}, 0.0}}, {{0.0, {b}}}}};"),
              ("typedef-of-typedef", "typedef clock pair_t[2]; typedef pair_t pair2_t; pair2_t {n} = {{{a}, {b}}};"),
              ("typedef-clock-element", "typedef clock ck_t; ck_t {n}[2] = {{{a}, {b}}};"),
              ("three-dimensions-typedef-inner", "typedef clock pair_t[2]; pair_t {n}[1][2] = {{{{{{{a}, 0.0}}, {{0.0, {b}}}}}}};"),
              ("record-of-clocks", "struct {{ clock ca; clock cb; }} {n} = {{{a}, {b}}};"),
              ("array-of-records-of-clocks", "typedef struct {{ clock ca; }} rc_t; rc_t {n}[2] = {{{{{a}}}, {{{b}}}}};")]
    for sid, text in shapes:
        for pos, (a, b) in (("first", ("1.5", "0.0")), ("last", ("0.0", "2.5"))):
            yield ("clock-init-fp", "global:%s:%s" % (sid, pos), dict(), text.format(n="gcs", a=a, b=b), {"symbolic"})
            yield ("clock-init-fp", "template-local:%s:%s" % (sid, pos), dict(decl="clock x; hybrid clock h; " + text.format(n="lcs", a=a, b=b)), "", {"symbolic"})
    # records that contain a clock, initialised field by field with *named* initialisers in every order (the order of the names need
    # not be the order of the fields), positionally, as elements of an array and nested in another record
    fields = {"id": ("int", "1"), "c": ("clock", "2.5"), "dv": ("double", "0.5"), "c2": ("clock", "0.0")}
    for names in (("id", "c"), ("c", "dv"), ("id", "c", "dv"), ("c", "c2"), ("id", "c2", "c")):
        for dperm in itertools.permutations(names):
            rec = "typedef struct { %s } rn_t;" % " ".join("%s %s;" % (fields[f][0], f) for f in dperm)
            for iperm in itertools.permutations(names):
                named = "{ %s }" % ", ".join("%s: %s" % (f, fields[f][1]) for f in iperm)
                tag = "fields-%s:named-%s" % ("-".join(dperm), "-".join(iperm))
                for wid, text in (("variable", "%s rn_t {n} = %s;" % (rec, named)), ("array-element", "%s rn_t {n}[2] = {{ %s, %s }};" % (rec, named, named)),
                                  ("nested", "%s struct {{ int pre; rn_t in; }} {n} = {{ 3, %s }};" % (rec, named))):
                    if wid != "variable" and len(names) == 3 and iperm != tuple(reversed(dperm)):
                        continue
                    yield ("clock-init-fp", "global:record:%s:%s" % (tag, wid), dict(), text.replace("{{", "{").replace("}}", "}").replace("{n}", "grn"), {"symbolic"})
                    yield ("clock-init-fp", "template-local:record:%s:%s" % (tag, wid),
                           dict(decl="clock x; hybrid clock h; " + text.replace("{{", "{").replace("}}", "}").replace("{n}", "lrn")), "", {"symbolic"})
    yield ("clock-init-fp", "template-local", dict(decl="clock x = 1.5; hybrid clock h;"), "", {"symbolic"})
    yield ("clock-init-fp", "global", dict(), "clock gx = 1.5;", {"symbolic"})
    yield ("clock-init-fp", "template-local-double-var", dict(decl="clock x = d; hybrid clock h;"), "", {"symbolic"})
    # the invariant of an urgent / a committed location is an invariant like any other
    for lk in ("urgent", "committed"):
        for pid_, inv in (("fp-bound", "x <= 2.5"), ("fp-bound-second-conjunct", "i >= 0 && x <= 2.5"), ("fp-bound-reversed", "2.5 >= x"),
                          ("double-variable-bound", "x <= d"), ("rate-2", "x' == 2"), ("rate-0.5-in-conjunction", "x <= 5 && x' == 0.5"),
                          ("rate-under-forall", "forall (k : int[0,1]) x' == 3")):
            yield ("invariant-of-%s-location" % lk, pid_, dict(inv=inv, lockind=lk), "", {"symbolic"})
    # rates
    # (a rate given by a variable expression may still be 0 or 1 at run time: not claimed, cf. rate_expression.xml)
    for rid, rate in (("2", "2"), ("3", "3"), ("2.5", "2.5"), ("0.5", "0.5")):
        for pos in range(3):
            parts = ["x <= 10", "i >= 0", "i <= 5"]
            parts[pos] = "x' == %s" % rate
            yield ("rate:" + rid, "invariant-pos%d" % pos, dict(inv=" && ".join(parts)), "", {"symbolic"})
        yield ("rate:" + rid, "invariant-alone", dict(inv="x' == %s" % rate), "", {"symbolic"})
        yield ("rate:" + rid, "invariant-reversed", dict(inv="%s == x'" % rate), "", {"symbolic"})
        yield ("rate:" + rid, "invariant-forall", dict(inv="forall (k : int[0,1]) x' == %s" % rate), "", {"symbolic"})
        yield ("rate:" + rid, "invariant-parentheses", dict(inv="(x' == %s) && x <= 5" % rate), "", {"symbolic"})
        yield ("rate:" + rid, "invariant-right-nested", dict(inv="x <= 5 && (i >= 0 && x' == %s)" % rate), "", {"symbolic"})
        yield ("rate:" + rid, "invariant-clock-array", dict(decl="clock x; clock xs[2]; hybrid clock h;", inv="xs[1]' == %s" % rate), "", {"symbolic"})
    # a restricting conjunct next to a universally quantified rate (the type checker rewrites such invariants before the feature
    # checker sees them)
    qd = "clock x; clock xs[2]; hybrid clock h;"
    q = "(forall (k : int[0,1]) xs[k]' == 0)"
    for pid, inv in (("rate-after-quantified-rate", q + " && x' == 2"), ("rate-before-quantified-rate", "x' == 2 && " + q),
                     ("fp-bound-after-quantified-rate", q + " && x <= 1.5"), ("fp-bound-before-quantified-rate", "x <= 1.5 && " + q),
                     ("rate-after-bound-after-quantified-rate", q + " && x <= 5 && x' == 3"),
                     ("rate-inside-and-after-quantifier", "(forall (k : int[0,1]) xs[k]' == 2) && x <= 5"),
                     ("rate-after-plain-quantifier", "(forall (k : int[0,1]) xs[k] <= 7) && x' == 2")):
        yield ("quantified-invariant", pid, dict(decl=qd, inv=inv), "", {"symbolic"})
    # dynamic templates
    yield ("dynamic-template", "declared", dict(), "dynamic Dy();", {"symbolic"})
    # non-broadcast channels
    yield ("chan", "global", dict(), "chan c;", {"stochastic"})
    yield ("chan", "global-urgent", dict(), "urgent chan c;", {"stochastic"})
    yield ("chan", "global-array", dict(), "chan c[2];", {"stochastic"})
    yield ("chan", "global-2d-array", dict(), "chan c[2][2];", {"stochastic"})
    yield ("chan", "global-typedef", dict(), "typedef chan Ch; Ch c;", {"stochastic"})
    yield ("chan", "template-local", dict(decl="clock x; hybrid clock h; chan c;"), "", {"stochastic"})
    yield ("chan", "template-local-array", dict(decl="clock x; hybrid clock h; chan c[2];"), "", {"stochastic"})
    yield ("chan", "template-local-used", dict(decl="clock x; hybrid clock h; chan c;", sync="c!"), "", {"stochastic"})
    yield ("chan", "template-local-typedef-array", dict(decl="clock x; hybrid clock h; typedef chan Ch[2]; Ch cs;"), "", {"stochastic"})
    yield ("chan", "global-struct-free-urgent-array", dict(), "urgent chan uc[2];", {"stochastic"})
    # priorities
    yield ("chan-priority", "global", dict(), "broadcast chan b2; chan priority bc < b2;", {"stochastic", "concrete"})
    yield ("chan-priority", "default", dict(), "chan priority bc < default;", {"stochastic", "concrete"})
    # every channel-priority list of 1..3 distinct elements with every choice of separators: a list without `<` is a priority
    # declaration too (the channels not listed and the internal transitions are on the default level below)
    elems = ["bc", "b2", "default", "bcs[0]", "bcs[1]"]
    for n in (1, 2, 3):
        for combo in itertools.permutations(elems, n):
            for seps in itertools.product((", ", " < "), repeat=n - 1):
                text = combo[0] + "".join(sp + e for sp, e in zip(seps, combo[1:]))
                yield ("chan-priority", "list:" + text, dict(), "broadcast chan b2; broadcast chan bcs[2]; chan priority %s;" % text,
                       {"stochastic", "concrete"})
    yield ("chan-priority", "two-declarations", dict(), "broadcast chan b2; chan priority bc; chan priority b2;", {"stochastic", "concrete"})


def controls():
    """feature-free or explicitly permitted variants: nothing may be restricted *because of them* (reported, not demanded)"""
    yield ("control:int-guard", dict(guard="i == 0 && i < 5"))
    yield ("control:record-with-double-and-clock-fp-only-in-the-double", dict(decl="clock x; hybrid clock h; struct { double dv; clock cv; } rdc = {1.5, 0};"))
    for iperm in itertools.permutations(("id", "c", "dv")):
        yield ("control:named-record-initialiser-fp-only-for-the-double:" + "-".join(iperm),
               dict(decl="clock x; hybrid clock h; struct { int id; clock c; double dv; } rdn = { %s };" %
                    ", ".join("%s: %s" % (f, {"id": "1", "c": "2", "dv": "0.5"}[f]) for f in iperm)))
    yield ("control:clock-int-guard", dict(guard="x < 5 && i == 0"))
    yield ("control:rate-0-1", dict(inv="x' == 0 && i >= 0"))
    yield ("control:hybrid-rate", dict(inv="h' == 2 && x <= 5"))
    yield ("control:hybrid-assign-fp", dict(assign="h = 1.5"))
    yield ("control:broadcast-only", dict(sync="bc!"))


def doc_for(kw, gextra, variant, order=0):
    """variant: instantiated | uninstantiated (feature sits in a template that is declared but not used)"""
    kw = dict(kw)
    if variant == "instantiated":
        tpls = [T("T", **kw), T("U1")]
        system = "P = T(); Q = U1(); system P, Q;"
    elif variant == "instantiated-direct":
        tpls = [T("T", **kw), T("U1")]
        system = "system T, U1;"
    elif variant in ("process-set", "process-set-of-partial-instance"):
        # the template takes part in the system only with a free parameter (one process per value)
        if "params" in kw:
            return None
        tpls = [T("T", params="const int[0,1] zp", **kw), T("U1")]
        system = "system T, U1;" if variant == "process-set" else "Q(const int[0,1] zq) = T(zq);\nsystem Q, U1;"
    else:
        tpls = [T("T"), T("U1", **kw)]
        system = "P = T(); system P;"
    if order == 1:
        tpls = tpls[::-1]
    g = G0 + " " + gextra if order == 0 else gextra + " " + G0
    return X.nta(g, tpls, system)


def run_shard(arg):
    i, n = arg
    part = engine.Part()
    w = engine.worker("fast")
    cells = []
    for k, (fid, plc, kw, gx, restr) in enumerate(features()):
        if k % n != i:
            continue
        for variant in ("instantiated", "instantiated-direct", "process-set", "process-set-of-partial-instance", "uninstantiated"):
            if variant == "uninstantiated" and gx:
                continue     # a global declaration is not inside any template
            if variant.startswith("process-set") and gx:
                continue
            for order in (0, 1):
                d_ = doc_for(kw, gx, variant, order)
                if d_ is not None:
                    cells.append((fid, plc, variant, order, restr, d_))
    base = X.run_docs(w, [doc_for({}, "", "instantiated")], want=["noinv"])[0]
    base_methods = base["methods"]
    res = X.run_docs(w, [c[5] for c in cells], want=["noinv"], batch=50)
    by_cell = {}
    for (fid, plc, variant, order, restr, doc), r in zip(cells, res):
        if not r.get("died") and X.accepted(r):
            by_cell.setdefault((fid, plc, variant), {})[order] = (r["methods"], doc)
    for (fid, plc, variant), d in by_cell.items():
        if len(d) == 2 and d[0][0] != d[1][0]:
            part.violation("declaration-order-matters:%s:%s" % (fid, plc.split(":")[0]),
                           "%s/%s/%s: verdict %s with one declaration order, %s with the other" % (fid, plc, variant, d[0][0], d[1][0]),
                           {"op": "xml", "buf": d[1][1], "other_order": d[0][1]})
    for (fid, plc, variant, order, restr, doc), r in zip(cells, res):
        part.count()
        rp = {"op": "xml", "buf": doc}
        key = "%s:%s:%s:order%d" % (fid, plc, variant, order)
        if engine.check_crash(part, PID, r, key, rp):
            continue
        if r.get("exc") is not None:
            part.outcome("exception")
            part.violation("exception:%s:%s" % (fid, r["exc"]), "%s: parsing throws %s %s" % (key, r["exc"], r.get("what", "")), rp)
            continue
        if not X.accepted(r):
            part.outcome("not-accepted")     # the statement speaks of accepted models only
            continue
        part.nontrivial_case(key)
        m = r["methods"]
        if variant == "uninstantiated":
            # a template that is never instantiated does not affect the verdict
            if m != base_methods:
                part.outcome("uninstantiated-changes-verdict")
                part.violation("uninstantiated-matters:%s:%s" % (fid, plc.split(":")[0]),
                               "%s: verdict %s differs from the verdict %s without the unused template" % (key, m, base_methods), rp)
            else:
                part.outcome("uninstantiated-ignored")
            continue
        bad = [meth for meth in restr if m[meth]]
        if bad:
            part.outcome("restricted-method-reported-supported")
            # signature: feature + placement class (operator / position class), not the exact cell
            part.violation("supported-despite:%s:%s:%s" % (fid, plc, "+".join(sorted(bad))),
                           "%s: %s reported as supported although the model contains the feature" % (key, bad), rp)
        else:
            part.outcome("restriction-reported")
            if len(part.samples) < 1:
                part.sample({"feature": fid, "placement": plc, "methods": m})
    if i == 0:
        # two restricting features for different methods in two different instantiated templates, both template orders:
        # every restriction must be reported whichever template comes first
        symf = [("clock-cmp-fp-guard", dict(guard="x < 1.5")), ("assign-fp", dict(assign="d = 2.5")), ("rate", dict(inv="x' == 2")),
                ("clock-init-fp", dict(decl="clock x = 1.5; hybrid clock h;")), ("clock-cmp-fp-invariant", dict(inv="x <= 2.5"))]
        stof = [("local-chan", dict(decl="clock x; hybrid clock h; chan c;")), ("local-chan-array", dict(decl="clock x; hybrid clock h; chan c[2];")),
                ("chan-parameter", dict(params="chan &cp", sync="cp!"))]
        for (sn, skw), (tn, tkw) in itertools.product(symf, stof):
            for order in (0, 1):
                ta, tb = T("T", **skw), T("U1", **tkw)
                g = G0 + (" chan gc;" if tn == "chan-parameter" else "")
                sysl = "P = T(); Q = U1(%s); system P, Q;" % ("gc" if tn == "chan-parameter" else "")
                if tn == "chan-parameter":
                    continue     # a global channel restricts on its own; only template-local channels isolate the interaction
                doc = X.nta(g, [ta, tb] if order == 0 else [tb, ta], sysl)
                r = X.run_docs(w, [doc], want=["noinv"])[0]
                part.count()
                key = "pair:%s+%s:order%d" % (sn, tn, order)
                if engine.check_crash(part, PID, r, key, {"op": "xml", "buf": doc}) or not X.accepted(r):
                    continue
                part.nontrivial_case(key)
                bad = [meth for meth in ("symbolic", "stochastic") if r["methods"][meth]]
                if bad:
                    part.outcome("restricted-method-reported-supported")
                    part.violation("supported-despite:pair:%s+%s:%s" % (sn, tn, "+".join(bad)),
                                   "%s: %s reported as supported although one instantiated template has %s and another has %s" % (key, bad, sn, tn),
                                   {"op": "xml", "buf": doc})
                else:
                    part.outcome("restriction-reported")
        # declaration order / controls: reported as outcome classes
        for cid, kw in controls():
            for order in (0, 1):
                r = X.run_docs(w, [doc_for(kw, "", "instantiated", order)], want=["noinv"])[0]
                part.count()
                if engine.check_crash(part, PID, r, cid, {"op": "xml", "buf": doc_for(kw, "", "instantiated", order)}):
                    continue
                part.nontrivial_case(cid + str(order))
                part.outcome("%s:%s" % (cid, "accepted" if X.accepted(r) else "rejected"))
        # process priorities
        for sysline, name in (("P = T(); Q = U1(); system P < Q;", "process-priority"),
                              ("P = T(); Q = U1(); R = T(); system P, Q < R;", "process-priority:last"),
                              ("P = T(); Q = U1(); R = T(); system P < Q, R;", "process-priority:first"),
                              ("P = T(); Q = U1(); R = T(); system P < Q < R;", "process-priority:both"),
                              ("system T < U1;", "process-priority:templates")):
            doc = X.nta(G0, [T("T"), T("U1")], sysline)
            r = X.run_docs(w, [doc], want=["noinv"])[0]
            part.count()
            if not engine.check_crash(part, PID, r, name, {"op": "xml", "buf": doc}) and X.accepted(r):
                part.nontrivial_case(name)
                bad = [meth for meth in ("stochastic", "concrete") if r["methods"][meth]]
                if bad:
                    part.violation("supported-despite:%s:%s" % (name, "+".join(bad)), "process priorities (%s) but %s supported" % (sysline, bad),
                                   {"op": "xml", "buf": doc})
                else:
                    part.outcome("restriction-reported")
    return part.result()


def run_references(_):
    """the restricting feature applies to a clock through a reference: a function's or a template's `clock &` / `hybrid clock &`
    parameter bound to a non-hybrid clock (expected: symbolic analysis not supported) or to a hybrid clock (control)"""
    part = engine.Part()
    w = engine.worker("fast")
    g = G0 + " clock gx; hybrid clock gh; clock gxs[2];"
    cells = []
    for K in ("", "hybrid "):
        kid = "hybrid-reference" if K else "clock-reference"
        fdecl = {"assign-literal": "void set(%sclock &r) { r = 1.5; }" % K, "assign-double-variable": "void set(%sclock &r) { r = d; }" % K,
                 "assign-in-branch": "void set(%sclock &r) { if (i > 0) { r = 0; } else { r = 2.5; } }" % K,
                 "assign-through-second-function": "void set0(%sclock &q) { q = 1.5; } void set(%sclock &r) { set0(r); }" % (K, K)}
        for fid, fd in fdecl.items():
            for aid, arg, hybrid in (("local-clock", "x", False), ("local-hybrid-clock", "h", True), ("global-clock", "gx", False),
                                     ("global-hybrid-clock", "gh", True), ("clock-array-element", "gxs[1]", False)):
                doc = X.nta(g + " " + fd, [T("T", assign="set(%s)" % arg), T("U1")], "P = T(); Q = U1(); system P, Q;")
                cells.append(("%s:function:%s:%s" % (kid, fid, aid), hybrid, doc))
        for fid, kw in (("assign-literal", dict(assign="r = 1.5")), ("assign-double-variable", dict(assign="r = d")),
                        ("rate-2", dict(inv="r' == 2")), ("rate-2-in-conjunction", dict(inv="r <= 5 && r' == 2 && i >= 0")),
                        ("rate-0.5", dict(inv="r' == 0.5"))):
            for aid, arg, hybrid in (("global-clock", "gx", False), ("global-hybrid-clock", "gh", True), ("clock-array-element", "gxs[0]", False)):
                for sid, system in (("direct", "P = T(%s); Q = U1(); system P, Q;" % arg),
                                    ("through-partial-instance", "I(%sclock &c) = T(c); P = I(%s); Q = U1(); system P, Q;" % (K, arg))):
                    doc = X.nta(g, [T("T", params="%sclock &r" % K, **kw), T("U1")], system)
                    cells.append(("%s:template-parameter:%s:%s:%s" % (kid, fid, aid, sid), hybrid, doc))
    res = X.run_docs(w, [c[2] for c in cells], want=["noinv"], batch=50)
    for (key, hybrid, doc), r in zip(cells, res):
        part.count()
        rp = {"op": "xml", "buf": doc}
        if engine.check_crash(part, PID, r, key, rp):
            continue
        if r.get("exc") is not None:
            part.outcome("exception")
            part.violation("exception:%s:%s" % (key, r["exc"]), "%s: parsing throws %s" % (key, r["exc"]), rp)
            continue
        if not X.accepted(r):
            part.outcome("not-accepted")
            continue
        part.nontrivial_case("reference:" + key)
        sym = r["methods"]["symbolic"]
        if hybrid:
            part.outcome("control:reference-to-hybrid-clock:symbolic=%s" % sym)
        elif sym:
            part.outcome("restricted-method-reported-supported")
            part.violation("supported-despite:through-%s:symbolic" % key, "%s: a non-hybrid clock gets a floating-point value or a rate other than 0/1 through "
                           "the reference, symbolic analysis is reported as supported" % key, rp)
        else:
            part.outcome("restriction-reported")
    return part.result()


def main():
    total = sum(1 for _ in features())
    rep = engine.Report(PID, "exploration",
                        "matrix of %d (restricting feature, placement) cells - clock compared with a double literal/variable/call/"
                        "expression under each of < <= == >= > in either operand order, alone and at each conjunct position of guards "
                        "and invariants; floating-point assignments to clocks/doubles/ints at each update-list position; clock "
                        "initialisers; constant clock rates 2, 3, 2.5, 0.5 at each conjunct position; dynamic templates; "
                        "non-broadcast channels global/urgent/array/typedef/template-local; channel and process priorities - each as "
                        "instantiated (explicit and direct), uninstantiated, and in two declaration orders. Only accepted models count."
                        % total)
    n = engine.ncpu()
    for res in engine.pmap(run_shard, [(i, n) for i in range(n)]):
        rep.merge(res)
    rep.merge(run_references(None))
    rep.assumptions = ["the reference verdict is the feature flag the generator set (R7); only the statement's 'only if' direction and the "
                       "two invariance clauses are demanded"]
    sys.exit(rep.finish())


if __name__ == "__main__":
    main()
