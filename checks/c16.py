#!/usr/bin/env python3
"""C16 — a fault in one text block does not disturb the rest of the document.

Labels: for each non-declaring label kind (guard, invariant, synchronisation,
update, probability, rate) the label of one edge/location of a model that
shadows names on purpose is replaced by every single-token fault of its base
texts and by every token string up to length L; the document is compared with
the fault-free document with that one label masked, and every diagnostic must
be attributed to the faulted label.  Declarations: lists of three declarations
x every truncation / token deletion inside declaration i: everything declared
before i is still present and unchanged."""
import itertools
import json
import os
import re
import sys

sys.path.insert(0, os.path.join(os.path.dirname(os.path.abspath(__file__)), "..", "lib"))
import engine
import xmlgen as X

PID = "C16"
SLOT = "\x01"

# a global, a template local and select binders of the same name with different ranges; the name is used again in
# the following edge, the next template and the system section: a corrupted frame stack shows as a changed binding
GDECL = "const int k = 1; int g; int h[2]; clock x; chan c[4]; int fn(int a) { return a + k; }"
LABELS = {  # kind -> (xpath of the faulted label, slots of the model, base texts)
    "guard": ["k >= 0 && g == fn(k)", "forall (z : int[0,1]) h[z] >= k", "g > (k > 0 ? 1 : 2)",
              "forall (g : int[0,1]) h[g] >= k && exists (k : int[0,1]) h[k] == 1"],   # binders named like names the later labels use
    "invariant": ["x <= k + 5", "x <= 10 && g >= k", "forall (z : int[0,1]) h[z] >= k && x <= 9",
                  "forall (k : int[0,1]) forall (g : int[0,1]) h[k] >= g && x <= 9", "x <= 9 && x' == 2"],
    "synchronisation": ["c[k]!", "c[fn(k)]?"],
    "assignment": ["g = k, h[k] = fn(g)", "g = (k > 0 ? k : g), h[0] = 0"],
    "probability": ["k + 1", "fn(k)"],
    "exponentialrate": ["k + 1", "2 * fn(k)", "1 + (sum (z : int[0,1]) h[z])", "1 + (sum (k : int[0,1]) h[k] + (sum (g : int[0,1]) g))"],
}


# the same model with two dynamic templates in front; the faulted label and the labels after it quantify over dynamic instances
# with the same binder name and different templates (the binder's template is remembered by name while its body is parsed)
DYN_DECL = "dynamic Worker(int[0,3] wk); dynamic Probe(); "
DYN_TEMPLATES = ('<template><name>Worker</name><parameter>int[0,3] wk</parameter><declaration>int load = 1; int k = 2;</declaration>'
                 '<location id="w0"><name>Idle</name></location><init ref="w0"/></template>'
                 '<template><name>Probe</name><declaration>int level = 2; int g = 3;</declaration>'
                 '<location id="p0"><name>Wait</name></location><init ref="p0"/></template>')
DYN_LABELS = {
    "guard": ["forall (p : Worker) (p.load > k)", "exists (p : Probe) (p.level > 0) && forall (p : Worker) (p.load >= g)",
              "forall (p : Worker) (exists (p : Probe) (p.level > k) && p.load > 0)", "(sum (p : Worker) (p.load)) > k"],
    "invariant": ["forall (p : Worker) (p.load > 0) && x <= 9"],
    "assignment": ["g = (sum (p : Worker) (p.load)), h[0] = (exists (p : Probe) (p.g > 0))"],
    "exponentialrate": ["1 + (sum (p : Worker) (p.load))"],
}
DYN_SIGMA = ["p", "Worker", "Probe", "load", "level", "sum"]


def model(kind, text, dyn=False):
    """the label of the given kind is the faulted one; all other labels are fixed"""
    lab = lambda kd, tx: '<label kind="%s">%s</label>' % (kd, X.esc(tx))     # noqa: E731
    d = {"guard": "k >= 0", "synchronisation": "c[k]!", "assignment": "g = k", "invariant": "x <= k + 5", "exponentialrate": "k + 1",
         "probability": "k + 2"}
    if kind in d:
        d[kind] = text
    # the first location carries both an invariant and a rate: a fault in one of them must leave the other alone
    loc0 = "".join(lab(kd, d[kd]) for kd in ("invariant", "exponentialrate") if not (kd == kind and text is None))
    e0 = lab("select", "k : int[0,3]") + "".join(lab(kd, d[kd]) for kd in ("guard", "synchronisation", "assignment")
                                                 if not (kd == kind and text is None))
    eprob = lab("probability", d["probability"]) if not (kind == "probability" and text is None) else ""
    t1 = ("<template><name>T1</name><parameter>int[0,5] p</parameter><declaration>int[0,1] k; int lv;</declaration>"
          '<location id="id0"><name>A</name>%s</location><location id="id1"><name>B</name><label kind="invariant">x &lt;= k + 7</label></location>'
          '<branchpoint id="id2"/><init ref="id0"/>'
          '<transition><source ref="id0"/><target ref="id1"/>%s</transition>'
          '<transition><source ref="id1"/><target ref="id2"/><label kind="guard">k == 1%s</label><label kind="assignment">lv = k</label></transition>'
          '<transition><source ref="id2"/><target ref="id0"/>%s<label kind="assignment">g = k + 1</label></transition>'
          '<transition><source ref="id2"/><target ref="id1"/><label kind="probability">k + 3</label></transition>'
          "</template>") % (loc0, e0, X.esc(" && forall (p : Probe) (p.level > k)") if dyn else "", eprob)
    t2 = ('<template><name>T2</name><parameter>int[0,9] q</parameter><declaration>int m;</declaration>'
          '<location id="id5"><name>M0</name><label kind="invariant">x &lt;= k + q</label></location><init ref="id5"/>'
          '<transition><source ref="id5"/><target ref="id5"/><label kind="select">s : int[0,k]</label>'
          '<label kind="guard">k + s &gt;= q%s</label><label kind="assignment">m = k</label></transition></template>'
          % (X.esc(" && exists (p : Probe) (p.level >= s) && forall (p : Worker) (p.k == 2)") if dyn else ""))
    return (X.HEADER + "<nta><declaration>%s</declaration>%s%s%s<system>P = T1(k); Q = T2(k); system P, Q;</system></nta>\n"
            % (X.esc((DYN_DECL if dyn else "") + GDECL), DYN_TEMPLATES if dyn else "", t1, t2))


XPATH = {"guard": "/nta/template[1]/transition[1]/label[2]", "synchronisation": "/nta/template[1]/transition[1]/label[3]",
         "assignment": "/nta/template[1]/transition[1]/label[4]", "invariant": "/nta/template[1]/location[1]/label[1]",
         "exponentialrate": "/nta/template[1]/location[1]/label[2]", "probability": "/nta/template[1]/transition[3]/label[1]"}
TOKEN = re.compile(r"[A-Za-z_][A-Za-z_0-9]*|\d+|==|<=|>=|!=|&&|\|\||\+\+|--|[-+*/%<>=!?:;,.(){}\[\]&|^']")
SIGMA = ["k", "g", "h", "x", "c", "fn", "zz", "0", "1", "(", ")", "[", "]", "{", "}", ",", ";", ":", ".", "'", "?", "!", "+", "-", "<", "<=",
         "==", "&&", "=", "++", "forall", "exists", "int", "true", "/*", "@", "2147483648", "1.5", '"a"']


def label_faults(kind, t, dyn=False):
    out = []
    if dyn:
        for base in DYN_LABELS[kind]:
            toks = [(m.start(), m.end(), m.group(0)) for m in TOKEN.finditer(base)]
            for i, (a, b, tok) in enumerate(toks):
                out.append(("delete@%d" % i, base[:a] + base[b:]))
                out.append(("truncate@%d" % i, base[:b]))
                out.append(("comment@%d" % i, base[:a] + "/* " + base[a:]))
                for s in SIGMA + DYN_SIGMA:
                    out.append(("replace@%d:%s" % (i, s), base[:a] + s + base[b:]))
                    out.append(("insert@%d:%s" % (i, s), base[:a] + s + " " + base[a:]))
        return out
    for base in LABELS[kind]:
        toks = [(m.start(), m.end(), m.group(0)) for m in TOKEN.finditer(base)]
        for i, (a, b, tok) in enumerate(toks):
            out.append(("delete@%d" % i, base[:a] + base[b:]))
            out.append(("truncate@%d" % i, base[:b]))
            out.append(("comment@%d" % i, base[:a] + "/* " + base[a:]))
            for s in SIGMA:
                out.append(("replace@%d:%s" % (i, s), base[:a] + s + base[b:]))
                out.append(("insert@%d:%s" % (i, s), base[:a] + s + " " + base[a:]))
    L = 3 if t == "thorough" else 2
    for n in range(1, L + 1):
        for combo in itertools.product(SIGMA, repeat=n):
            out.append(("string", " ".join(combo)))
    return out


def mask(dump, kind, dyn=False):
    """drop the faulted label's own value (and the flags the type checker derives from it)"""
    d = json.loads(json.dumps(dump))
    t = d["templates"][0]        # dynamic templates are listed separately
    if kind in ("guard", "synchronisation", "assignment"):
        t["edges"][0][{"guard": "guard", "synchronisation": "sync", "assignment": "assign"}[kind]] = "<masked>"
    elif kind == "probability":
        t["edges"][2]["prob"] = "<masked>"
    elif kind == "invariant":
        t["locations"][0]["inv"] = "<masked>"
        t["locations"][0]["cost_rate"] = "<masked>"
    else:
        t["locations"][0]["exp_rate"] = "<masked>"
    d.pop("flags", None)      # document-wide flags summarise all labels, the faulted one included
    d.pop("strings", None)
    return d


def run_label(arg):
    kind, t, i, n = arg[:4]
    dyn = len(arg) > 4 and arg[4]
    part = engine.Part()
    w = engine.worker("fast")
    faults = [f for k, f in enumerate(label_faults(kind, t, dyn)) if k % n == i]
    refs = {}
    xpath = XPATH[kind].replace("template[1]", "template[3]") if dyn else XPATH[kind]
    for base in (DYN_LABELS if dyn else LABELS)[kind]:
        for stat in ("auto", "off"):
            r = X.run_docs(w, [model(kind, base, dyn)], want=["dump"], extra={"static": stat})[0]
            if r.get("died") or r.get("errors") or r.get("exc"):
                # not a statement about fault isolation; counted so that a run in which base texts are rejected cannot pass for a
                # full one (all are accepted on the pinned tree; main() insists on that unless the tree is a scratch copy)
                if i == 0 and stat == "auto":
                    part.count()
                    part.outcome("base-text-rejected")
                    part.sample({"base text rejected": base, "kind": kind, "errors": X.msgs(r)[:2] if not r.get("died") else "died"})
                continue
            m = mask(r["dump"], kind, dyn)
            if stat in refs and refs[stat] != m:
                raise RuntimeError("C16 generator bug: the masked reference depends on the base text")
            refs[stat] = m
    docs = [model(kind, txt, dyn) for _, txt in faults]
    res = X.run_docs(w, docs, want=["dump"], batch=40, extra={"static": "auto"})
    for (fid, txt), doc, r in zip(faults, docs, res):
        part.count()
        rp = {"op": "xml", "buf": doc, "want": ["dump"], "static": "auto", "label": kind, "text": txt}
        if engine.check_crash(part, PID, r, "%s label `%s`%s" % (kind, txt, " (dynamic templates)" if dyn else ""), rp):
            continue
        part.nontrivial_case(kind + (":dyn:" if dyn else ":") + txt)
        if r.get("exc") is not None:
            part.outcome("exception")
            part.violation("exception:%s:%s" % (kind, r["exc"]), "%s label `%s`: the whole parse ends in %s %s" %
                           (kind, txt, r["exc"], r.get("what", "")), rp)
            continue
        ref = refs["auto"] if r.get("static_ran") else refs["off"]
        got = mask(r["dump"], kind, dyn)
        d = diff(ref, got)
        if d:
            part.outcome("rest-of-document-changed")
            part.violation("document-changed:%s:%s" % (kind, re.sub(r"\d+", "N", d[0])),
                           "%s label `%s` changes the document outside the label at %s: fault-free %s, now %s" %
                           (kind, txt, d[0], json.dumps(d[1])[:160], json.dumps(d[2])[:160]), rp)
            continue
        wrong = [e for e in r.get("errors", []) if e["path"] != xpath]
        if wrong:
            part.outcome("diagnostic-attributed-elsewhere")
            part.violation("diagnostic-elsewhere:%s:%s" % (kind, re.sub(r"\d+", "N", wrong[0]["path"])),
                           "%s label `%s`: diagnostic `%s` attributed to %s" % (kind, txt, wrong[0]["msg"], wrong[0]["path"]), rp)
            continue
        part.outcome("isolated/" + ("errors" if r.get("errors") else "still-valid") + ("/dynamic-templates" if dyn else ""))
        if len(part.samples) < 1 and r.get("errors"):
            part.sample({"label": kind, "text": txt, "errors": X.msgs(r)[:2]})
    return part.result()


def diff(a, b, path=""):
    if type(a) != type(b):
        return (path, a, b)
    if isinstance(a, dict):
        for k in sorted(set(a) | set(b)):
            if k not in a or k not in b:
                return (path + "/" + k, a.get(k, "<absent>"), b.get(k, "<absent>"))
            r = diff(a[k], b[k], path + "/" + k)
            if r:
                return r
        return None
    if isinstance(a, list):
        if len(a) != len(b):
            return (path + "/#len", len(a), len(b))
        for i, (x, y) in enumerate(zip(a, b)):
            r = diff(x, y, "%s/%d" % (path, i))
            if r:
                return r
        return None
    return None if a == b else (path, a, b)


# ---- declaration blocks --------------------------------------------------------------------------------------
DECLS = {
    "var": "int v{n} = {n};", "const": "const int c{n} = {n} + 1;", "typedef": "typedef int[0,{n}] ty{n};",
    "struct": "typedef struct {{ int f; int g[2]; }} st{n};", "array": "int a{n}[3] = {{1, 2, 3}};",
    "func": "int f{n}(int q) {{ int t = q; if (t > {n}) {{ t = 0; }} return t; }}",
    "func-using-previous": "int u{n}(int q) {{ return q + {prev}; }}",
}
PREV_USE = {"var": "v{p}", "const": "c{p}", "typedef": "1", "struct": "1", "array": "a{p}[0]", "func": "f{p}(1)", "func-using-previous": "u{p}(1)"}


def decl_lists():
    kinds = list(DECLS)
    for combo in itertools.product(kinds, repeat=3):
        texts = []
        for n, kd in enumerate(combo, start=1):
            prev = PREV_USE[combo[n - 2]].format(p=n - 1) if n > 1 else "1"
            texts.append(DECLS[kd].format(n=n, prev=prev))
        yield combo, texts


# what stands in the global declarations when the faulted block is a template's: it precedes the faulted block textually, too
GLOBAL_BEFORE_LOCAL = "int gv; int gfn(int q) { int t = q; if (t > 1) { t = 0; } return t; } int gfn2(int q) { return gfn(q) * 2; }"


def decl_model(text, where):
    t = X.template("T", decl=text if where == "local" else "int lv;", locations=[X.location("id0", "L0")], init="id0")
    # (a second template after the faulted one: its declarations and its use of the global functions come later)
    t2 = X.template("T2", decl="int l2 = 3;", locations=[X.location("id5", "M0")], init="id5",
                    transitions=[X.transition("id5", "id5", guard="gfn2(l2) >= 0")] if where == "local" else [])
    return X.nta(text if where == "global" else GLOBAL_BEFORE_LOCAL, [t, t2], "system T, T2;")


def declared(dump, where):
    d = dump["globals"] if where == "global" else dump["templates"][0]["decl"]
    out = {"frame": [f for f in d["frame"] if not f["name"].isupper() and not f["name"].endswith("_t")],
           "vars": d["vars"], "funcs": d["funcs"]}
    if where == "global":
        out["vars"] = [v for v in d["vars"] if not v["name"].isupper()]
    return out


def rest_of(dump):
    """the templates that come after the faulted one (the processes of the faulted template list its locals and are not compared)"""
    return {"later-templates": json.loads(json.dumps(dump["templates"][1:])), "dynamic-templates": dump.get("dyn_templates", [])}


def run_decls(arg):
    where, t, i, n = arg
    part = engine.Part()
    w = engine.worker("fast")
    lists = [l for k, l in enumerate(decl_lists()) if k % n == i]
    docs, meta = [], []
    for combo, texts in lists:
        for fi in (1, 2):          # fault in the 2nd / 3rd declaration
            toks = [(m.start(), m.end()) for m in TOKEN.finditer(texts[fi])]
            prefix = " ".join(texts[:fi]) + " "
            suffix = " " + " ".join(texts[fi + 1:])
            for k, (a, b) in enumerate(toks):
                docs.append(decl_model(prefix + texts[fi][:b], where))                                   # truncation of the block
                meta.append((combo, fi, "truncate@%d" % k, texts[:fi]))
                if t == "thorough" or k % 2 == 0:
                    docs.append(decl_model(prefix + texts[fi][:a] + texts[fi][b:] + suffix, where))    # token deleted
                    meta.append((combo, fi, "delete@%d" % k, texts[:fi]))
    refs = {}
    res = X.run_docs(w, docs, want=["dump"], batch=40, extra={"static": "off"})
    for (combo, fi, fid, before), doc, r in zip(meta, docs, res):
        part.count()
        rp = {"op": "xml", "buf": doc, "want": ["dump"], "static": "off"}
        key = "%s:%s:decl%d:%s" % (where, "+".join(combo), fi + 1, fid)
        if engine.check_crash(part, PID, r, key, rp):
            continue
        part.nontrivial_case(key)
        if r.get("exc") is not None:
            part.outcome("exception")
            part.violation("exception:decl:%s" % r["exc"], "%s: parse ends in %s" % (key, r["exc"]), rp)
            continue
        bk = (where, tuple(before))
        if bk not in refs:
            rr = X.run_docs(w, [decl_model(" ".join(before), where)], want=["dump"], extra={"static": "off"})[0]
            if rr.get("errors"):
                raise RuntimeError("C16 generator bug: declaration prefix rejected: %s %s" % (before, X.msgs(rr)))
            refs[bk] = declared(rr["dump"], where)
        ref = refs[bk]
        got = declared(r["dump"], where)
        bad = None
        if where == "local":
            # the global declarations stand before the faulted block: present and unchanged, and nothing is reported outside the block
            gk = ("globals-of", where)
            if gk not in refs:
                refs[gk] = declared(X.run_docs(w, [decl_model("int lv;", where)], want=["dump"], extra={"static": "off"})[0]["dump"], "global")
            dd = diff(refs[gk], declared(r["dump"], "global"))
            if dd:
                bad = ("globals", dd)
            # ... and so must everything that comes after it: the next template (parameters, declarations, labels), the processes
            rk = ("rest-of", where)
            if rk not in refs:
                refs[rk] = rest_of(X.run_docs(w, [decl_model("int lv;", where)], want=["dump"], extra={"static": "off"})[0]["dump"])
            dd = None if bad else diff(refs[rk], rest_of(r["dump"]))
            if dd:
                bad = ("later-blocks", dd)
            elsewhere = [e for e in r.get("errors", []) if e.get("path") and e["path"] != "/nta/template[1]/declaration"]
            if not bad and elsewhere:
                bad = ("diagnostic-elsewhere", (elsewhere[0]["path"], elsewhere[0]["msg"], ""))
        for sect in (("frame", "vars", "funcs") if not bad else ()):
            want = ref[sect]
            have = got[sect][:len(want)]
            dd = diff(want, have)
            if dd:
                bad = (sect, dd)
                break
        if bad:
            part.outcome("earlier-declaration-disturbed")
            part.violation("earlier-declaration-changed:%s:%s:%s" % (where, combo[fi], bad[0]),
                           "%s: a declaration before the faulted one is missing or changed (%s at %s: %s vs %s)" %
                           (key, bad[0], bad[1][0], json.dumps(bad[1][1])[:120], json.dumps(bad[1][2])[:120]), rp)
        else:
            part.outcome("earlier-declarations-intact/" + ("errors" if r.get("errors") else "still-valid"))
    return part.result()


def main():
    t = engine.tier()
    nfaults = {k: len(label_faults(k, t)) for k in LABELS}
    rep = engine.Report(PID, "fault_enumeration",
                        "labels: 6 non-declaring label kinds x base texts x {delete, truncate, open comment at every token; replace by / "
                        "insert each of %d tokens at every token} + every token string of length <= %d over the same alphabet (%s faulted "
                        "documents), in a model that shadows one name globally, template-locally and in select binders; declarations: 343 "
                        "lists of three declarations x fault in the 2nd/3rd x every truncation and token deletion, global and template-local."
                        % (len(SIGMA), 3 if t == "thorough" else 2, nfaults))
    n = engine.ncpu()
    shards = [(k, t, i, n) for k in LABELS for i in range(n)] + [(k, t, i, n, True) for k in DYN_LABELS for i in range(n)]
    for res in engine.pmap(run_label, shards):
        rep.merge(res)
    for res in engine.pmap(run_decls, [(where, t, i, n) for where in ("global", "local") for i in range(n)]):
        rep.merge(res)
    if rep.outcomes.get("base-text-rejected") and not os.environ.get("UTAPV_REPO"):
        raise RuntimeError("C16 generator bug: a fault-free base text is rejected: %s" % rep.samples[:3])
    rep.assumptions = ["the reference is the fault-free document parsed the same way (with static analysis iff the faulted parse ran it)",
                       "the faulted label's own value and the document-wide summary flags are masked"]
    sys.exit(rep.finish())


if __name__ == "__main__":
    main()
