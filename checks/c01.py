#!/usr/bin/env python3
"""C01 — no input crashes, corrupts memory or hangs any parsing entry point.

(1) parser-machine exploration: explicit-state BFS over token strings from many
    grammar-context seeds, through the real entry points (XML text blocks, whole
    XTA, queries, pretty printer, 3.x syntax), sanitized build, state digest
    pruning (harness/pm.cpp);
(2) XML structure and byte fault enumeration on base documents;
(3) growth families (recursion depth / time proportionality) on the -O2 build.
Oracle: the call terminates in time and returns or throws a std::exception; no
ASan/UBSan/libstdc++-assertion report; the process survives."""
import json
import os
import re
import sys
import tempfile
import time

sys.path.insert(0, os.path.join(os.path.dirname(os.path.abspath(__file__)), "..", "lib"))
import engine
import pmspace as PS
import xmlgen as X

PID = "C01"


# =====================================================================================================
# (1) parser machine
def pm_configs(t):
    cfgs = []
    q = t == "quick"
    for name, (tpl, sigma, seeds) in PS.xml_slots().items():
        for si, seed in enumerate(seeds):
            cfgs.append({"name": "xml:%s#%d" % (name, si), "mode": "xml", "tpl": tpl, "alphabet": sigma, "seed": seed, "newxta": True})
    # 3.x syntax through the XML reader
    for name in ("declaration", "guard", "assignment", "invariant", "parameter", "synchronisation"):
        tpl, sigma, seeds = PS.xml_slots()[name]
        for si, seed in enumerate(seeds[:3]):
            cfgs.append({"name": "xml-old:%s#%d" % (name, si), "mode": "xml", "tpl": tpl, "alphabet": PS.OLD, "seed": seed, "newxta": False})
    for name, (mode, tpl, sigma, seeds) in PS.xta_slots().items():
        for si, seed in enumerate(seeds):
            cfgs.append({"name": "xta#%d" % si, "mode": "xta", "tpl": tpl, "alphabet": sigma, "seed": seed, "newxta": True})
        for si, seed in enumerate(seeds[:6]):
            cfgs.append({"name": "xta-old#%d" % si, "mode": "xta", "tpl": tpl, "alphabet": PS.OLD + ["process", "state", "init", "trans", "->", "{", "}", "system", "T", "A"],
                         "seed": seed, "newxta": False})
    for si, seed in enumerate(PS.prop_seeds()):
        cfgs.append({"name": "property#%d" % si, "mode": "property", "tpl": PS.SLOT, "model": PS.prop_model(), "alphabet": PS.PROP,
                     "seed": seed, "newxta": True})
    # dynamic templates (a defined dynamic template D in front of T): labels, declarations, SMC queries
    for name, (tpl, sigma, seeds) in PS.dyn_slots().items():
        for si, seed in enumerate(seeds):
            cfgs.append({"name": "xml:%s#%d" % (name, si), "mode": "xml", "tpl": tpl, "alphabet": sigma, "seed": seed, "newxta": True})
    for si, seed in enumerate(PS.dyn_prop_seeds()):
        cfgs.append({"name": "property:dyn#%d" % si, "mode": "property", "tpl": PS.SLOT, "model": PS.dyn_doc(), "alphabet": PS.DYN + ["Pr[", "<=", "<>", "{", "}"],
                     "seed": seed, "newxta": True})
    # pretty printer back end: XML blocks and bare blocks
    for name in ("guard", "declaration", "assignment", "select", "system", "parameter", "invariant"):
        tpl, sigma, seeds = PS.xml_slots()[name]
        for si, seed in enumerate(seeds[:4]):
            cfgs.append({"name": "pretty:%s#%d" % (name, si), "mode": "pretty-xml", "tpl": tpl, "alphabet": sigma, "seed": seed, "newxta": True})
    # bare blocks with the expression builder (parse_expression's path) for the parts the reader never uses alone
    for part, pname in ((12, "S_EXPRESSION"), (13, "S_EXPRESSION_LIST"), (15, "S_XTA_PROCESS")):
        for si, seed in enumerate([[], ["fn", "("], ["forall", "(", "q", ":", "ty", ")"]]):
            cfgs.append({"name": "block:%s#%d" % (pname, si), "mode": "block", "part": part, "builder": "expr", "tpl": PS.SLOT,
                         "alphabet": PS.EXPR if part != 15 else PS.XTA, "seed": seed, "newxta": True})
            cfgs.append({"name": "block-pretty:%s#%d" % (pname, si), "mode": "block", "part": part, "builder": "pretty", "tpl": PS.SLOT,
                         "alphabet": PS.EXPR if part != 15 else PS.XTA, "seed": seed, "newxta": True})
    # every part of the syntax switch through a document builder that is not driven by the XML reader (no template, edge or
    # instance line open): parse_XTA(text, builder, newxta, part) is a public entry point for each part
    PARTS = ["S_XTA", "S_DECLARATION", "S_LOCAL_DECL", "S_INST", "S_SYSTEM", "S_PARAMETERS", "S_INVARIANT", "S_EXPONENTIAL_RATE", "S_SELECT", "S_GUARD",
             "S_SYNC", "S_ASSIGN", "S_EXPRESSION", "S_EXPRESSION_LIST", "S_PROPERTY", "S_XTA_PROCESS", "S_PROBABILITY", "S_INSTANCE_LINE", "S_MESSAGE",
             "S_UPDATE", "S_CONDITION"]
    for part, pname in enumerate(PARTS):
        sigma = PS.DECL + ["int[0,1]", "process", "state", "init", "trans", "->", "system"] if pname in ("S_XTA", "S_DECLARATION", "S_LOCAL_DECL", "S_INST", "S_SYSTEM", "S_XTA_PROCESS") else PS.EXPR
        for newxta in ((True, False) if part <= 11 else (True,)):
            cfgs.append({"name": "block-doc:%s%s#0" % (pname, "" if newxta else ":old"), "mode": "block", "part": part, "builder": "doc", "tpl": PS.SLOT,
                         "alphabet": sigma, "seed": [], "newxta": newxta})
    return cfgs


SLOW_US = 300000


def pm_run(arg):
    """one BFS; a crash kills the worker: the breadcrumb names the culprit, which is recorded and skipped"""
    cfg, flavour, depth, digest, max_runs, budget_s = arg
    part = engine.Part()
    w = engine.worker(flavour)
    fd, crumb = tempfile.mkstemp(prefix="utapv-crumb-", dir="/dev/shm")
    os.close(fd)
    skip = []
    t0 = time.time()
    result = None
    try:
        for attempt in range(40):
            req = {"op": "pm", "depth": depth, "digest": digest, "max_runs": max_runs, "crumb": crumb, "skip": skip,
                   "budget_s": budget_s, "run_limit_s": 10 if flavour == "fast" else 30, "slow_us": SLOW_US}
            req.update({k: v for k, v in cfg.items() if k != "name"})
            try:
                result = w.call(req, timeout=budget_s + 120.0)
                break
            except engine.WorkerDied as e:
                try:
                    culprit = open(crumb).read()
                except OSError:
                    culprit = "?"
                hang = e.timed_out or e.sig == "exit124"
                resp = {"died": True, "sig": e.sig, "timed_out": hang, "stderr": e.stderr_tail}
                sig = engine.crash_signature(resp)
                part.outcome("crash" if not hang else "hang")
                part.violation("%s:%s:%s" % ("hang" if hang else "crash", sig, cfg["name"].split("#")[0]),
                               "%s (%s) on input `%s` [%s, %s flavour]: %s" %
                               ("no answer within the time limit" if hang else "process died", sig, culprit, cfg["name"], flavour,
                                (e.stderr_tail or "")[-400:].replace("\n", " | ")),
                               {"op": "block", "text": culprit, **{k: v for k, v in cfg.items() if k in
                                                                   ("mode", "tpl", "model", "newxta", "part", "builder")}})
                skip.append(culprit)
                if time.time() - t0 > budget_s * 3:
                    break
    finally:
        try:
            os.unlink(crumb)
        except OSError:
            pass
    if result is None:
        part.exhaustive = False
        part.add("pm_incomplete", [cfg["name"]])
        return part.result()
    if "harness_error" in result:
        raise RuntimeError(result["harness_error"])
    part.count(result["runs"])
    part.add("pm_states", result["states"])
    part.add("pm_transitions", result["transitions"])
    part.add("pm_dead", result["dead"])
    part.add("pm_pruned", result["pruned"])
    part.add("pm_with_exception", result["with_exception"])
    part.add("pm_searches", 1)
    part.outcome("returned-or-std-exception", result["runs"])
    if result["truncated"]:
        part.exhaustive = False
        part.add("pm_truncated", [cfg["name"]])
    for v in result["violations"]:
        kind = v["kind"]
        if kind == "stderr":
            sig = engine.crash_signature({"stderr": v["detail"]})
            if not engine.SAN_RE.search(v["detail"]):
                continue
            part.outcome("sanitizer-report")
            part.violation("san:%s:%s" % (sig, cfg["name"].split("#")[0]), "sanitizer report on `%s` [%s]: %s" %
                           (v["input"], cfg["name"], v["detail"][:300].replace("\n", " | ")),
                           {"op": "block", "text": v["input"], **{k: x for k, x in cfg.items() if k in ("mode", "tpl", "model", "newxta", "part", "builder")}})
        elif kind == "non-std-exception":
            part.outcome("non-std-exception")
            part.violation("nonstd-exception:%s:%s" % (v["detail"], cfg["name"].split("#")[0]), "`%s` [%s] ends in %s, which is not a "
                           "std::exception" % (v["input"], cfg["name"], v["detail"]),
                           {"op": "block", "text": v["input"], **{k: x for k, x in cfg.items() if k in ("mode", "tpl", "model", "newxta", "part", "builder")}})
        elif kind == "slow":
            # replay alone, three times, before calling it slow (CPU time; the search itself runs 16 workers in parallel)
            rq = {"op": "block", "text": v["input"], **{k: x for k, x in cfg.items() if k in ("mode", "tpl", "model", "newxta", "part", "builder")}}
            best = None
            for _ in range(3):
                rr = engine.worker(flavour).call_safe(rq, timeout=60)
                if rr.get("died"):
                    best = None
                    break
                best = rr.get("us", 0) if best is None else min(best, rr.get("us", 0))
            if best is not None and best < SLOW_US:
                part.outcome("slow-only-under-load")
                continue
            part.outcome("slow")
            part.violation("slow:%s" % cfg["name"].split("#")[0], "`%s` [%s] took %s" % (v["input"], cfg["name"], v["detail"]),
                           {"op": "block", "text": v["input"], **{k: x for k, x in cfg.items() if k in ("mode", "tpl", "model", "newxta", "part", "builder")}})
    for s in result.get("samples", [])[:1]:
        part.sample({"search": cfg["name"], "flavour": flavour, "depth": depth, "state": s[:240]})
    part.nontrivial_case(cfg["name"] + flavour + str(depth))
    part.add("pm_levels:" + cfg["name"].split("#")[0], 0)
    return part.result()


# =====================================================================================================
# (2) XML structure and byte faults
QUERIES = ('<queries><option key="--diagnostic" value="1"/><query><formula>A[] i &gt;= 0</formula><comment>c</comment>'
           '<option key="k" value="v"/><expect outcome="success" type="probability" value="0.5"><resource type="time" value="1" unit="s"/>'
           '</expect><result outcome="success" type="quality" timestamp="t"><option key="k" value="v"/></result></query>'
           '<query><formula>E&lt;&gt; P.L1</formula><comment/></query></queries>')


def kitchen_sink():
    edge = (PS.lab("select", "q : ty") + PS.lab("guard", "i &gt;= 0 &amp;&amp; q &gt;= 0") + PS.lab("synchronisation", "c!") +
            PS.lab("assignment", "j = q") + '<nail x="1" y="2"/>')
    doc = PS.ta_doc(params="int &amp;pr, const int pv", ldecl="int l; clock lx;", loc0=PS.lab("invariant", "lx &lt;= 5") +
                    PS.lab("exponentialrate", "2") , edge=edge, inst="P = T(i, 1);", system="system P, T2;",
                    extra_tpl=PS.LSC % ("P", "c", "i &gt;= 0", "i = 1"))
    doc = doc.replace("<queries>", "\x00").split("\x00")[0] + QUERIES + "</nta>\n"
    doc = doc.replace('<location id="id1"><name>L1</name></location>',
                      '<location id="id1" x="3" y="4"><name x="1" y="1">L1</name><urgent/></location><location id="id2"><committed/></location>'
                      '<branchpoint id="id3" x="0" y="0"/>')
    doc = doc.replace('<init ref="id0"/>', '<init ref="id0"/><transition controllable="false" action="a"><source ref="id0"/>'
                      '<target ref="id3"/></transition><transition><source ref="id3"/><target ref="id2"/><label kind="probability">3</label>'
                      '</transition>', 1)
    return doc


HOSTILE_TEXTS = ["", " ", "// only a comment", "/* unterminated", "x" * 5000, "a\r\nb\r\n", "\x01\x02", "/* EXPECT: x */", "(((((", "}}}}",
                 "int int int", "\\"]
BYTES = ["<", ">", "&", '"', "'", "/", "=", " ", "\x01", "\xc3", "\xff", "]"]


def struct_faults(doc):
    out = []
    for m in re.finditer(r"<([a-z]+)\b([^<>]*?)(/?)>", doc):
        tag, attrs, selfclose = m.group(1), m.group(2), m.group(3)
        if selfclose:
            end = m.end()
        else:
            c = doc.find("</%s>" % tag, m.end())
            if c < 0:
                continue
            end = c + len(tag) + 3
        el = doc[m.start():end]
        out.append(("delete-element:" + tag, doc[:m.start()] + doc[end:]))
        out.append(("duplicate-element:" + tag, doc[:end] + el + doc[end:]))
        out.append(("wrap-in-unknown:" + tag, doc[:m.start()] + "<bogus>" + el + "</bogus>" + doc[end:]))
        out.append(("rename-to-unknown:" + tag, doc[:m.start()] + el.replace("<" + tag, "<bogus", 1)[::-1].replace(("</%s>" % tag)[::-1],
                                                                                                              "</bogus>"[::-1], 1)[::-1] + doc[end:]))
        nxt = re.match(r"<([a-z]+)\b[^<>]*?(/>|>)", doc[end:])
        if nxt:       # swap with the following sibling
            if nxt.group(2) == "/>":
                e2 = end + nxt.end()
            else:
                c2 = doc.find("</%s>" % nxt.group(1), end)
                e2 = c2 + len(nxt.group(1)) + 3 if c2 >= 0 else None
            if e2:
                out.append(("swap-with-next:" + tag, doc[:m.start()] + doc[end:e2] + el + doc[e2:]))
        if not selfclose:
            inner_a, inner_b = m.end(), end - len(tag) - 3
            if "<" not in doc[inner_a:inner_b]:
                out.append(("empty-text:" + tag, doc[:inner_a] + doc[inner_b:]))
                for h in HOSTILE_TEXTS:
                    out.append(("hostile-text:" + tag, doc[:inner_a] + X.esc(h) + doc[inner_b:]))
    for m in re.finditer(r' ([a-z]+)="([^"]*)"', doc):
        out.append(("drop-attr:" + m.group(1), doc[:m.start()] + doc[m.end():]))
        out.append(("empty-attr:" + m.group(1), doc[:m.start(2)] + doc[m.end(2):]))
        out.append(("odd-attr:" + m.group(1), doc[:m.start(2)] + "id0" + doc[m.end(2):]))
        out.append(("long-attr:" + m.group(1), doc[:m.start(2)] + "v" * 3000 + doc[m.end(2):]))
    out.append(("nta-to-project", doc.replace("<nta>", "<project>").replace("</nta>", "</project>")))
    return out


def xml_docs(t):
    """(label, document, via) for part 2"""
    ks = kitchen_sink()
    docs = [("kitchen-sink", ks, "buffer")]
    sf = struct_faults(ks)
    for lab_, d in sf:
        docs.append((lab_, d, "buffer"))
    step = 1 if t == "thorough" else 3
    for off in range(0, len(ks), step):
        docs.append(("truncate@%d" % off, ks[:off], "buffer"))
    bstep = 1 if t == "thorough" else 5
    for off in range(0, len(ks), bstep):
        for b in (BYTES if t == "thorough" else BYTES[:6]):
            docs.append(("byte@%d=%r" % (off, b), ks[:off] + b + ks[off + 1:], "buffer"))
    mdir = os.path.join(build_repo(), "test", "models")
    for fn_ in sorted(os.listdir(mdir)):
        if fn_.endswith(".xml"):
            txt = open(os.path.join(mdir, fn_), encoding="utf-8", errors="replace").read()
            docs.append(("model:" + fn_, txt, "buffer"))
            docs.append(("model-fd:" + fn_, txt, "fd"))
            docs.append(("model-file:" + fn_, txt, "file"))
            cuts = [m.start() for m in re.finditer(r"[<>]", txt)]
            for c in (cuts if t == "thorough" else cuts[::7]):
                docs.append(("model-truncate:%s@%d" % (fn_, c), txt[:c], "buffer"))
                docs.append(("model-truncate:%s@%d" % (fn_, c + 1), txt[:c + 1], "buffer"))
    if t == "thorough":    # pairs of structural faults on the kitchen sink (second fault applied to the first's result, sampled sites)
        for lab1, d1 in sf[::9]:
            for lab2, d2 in struct_faults(d1)[::23]:
                docs.append((lab1 + "+" + lab2, d2, "buffer"))
        for lab_, d in sf[::5]:
            docs.append((lab_ + ":fd", d, "fd"))
    return docs


def build_repo():
    import build
    return build.repo_dir()


def xml_shard(arg):
    t, i, n = arg
    part = engine.Part()
    w = engine.worker("san")
    docs = [d for k, d in enumerate(xml_docs(t)) if k % n == i]
    for via in ("buffer", "fd", "file"):
        sel = [d for d in docs if d[2] == via]
        res = X.run_docs(w, [d[1].replace("\x00", "") for d in sel], want=[], batch=40, extra={"via": via}, timeout=120, one_timeout=30)
        for (lab_, doc, _), r in zip(sel, res):
            part.count()
            rp = {"op": "xml", "buf": doc, "via": via, "fault": lab_}
            kind = lab_.split("@")[0].split(":")[0]
            part.nontrivial_case(lab_)
            if r.get("died"):
                sig = engine.crash_signature(r)
                part.outcome("hang" if r.get("timed_out") else "crash")
                part.violation("%s:%s:xmlfault:%s" % ("hang" if r.get("timed_out") else "crash", sig, kind),
                               "XML fault `%s` (%s): %s: %s" % (lab_, via, sig, (r.get("stderr") or "")[-300:].replace("\n", " | ")), rp)
                continue
            if engine.sanitizer_hit(r):
                part.outcome("sanitizer-report")
                part.violation("san:%s:xmlfault:%s" % (engine.crash_signature(r), kind), "XML fault `%s`: %s" %
                               (lab_, (r.get("stderr") or "")[:300].replace("\n", " | ")), rp)
                continue
            if r.get("exc") is not None and r.get("std") is False:
                part.outcome("non-std-exception")
                part.violation("nonstd-exception:%s:xmlfault:%s" % (r["exc"], kind), "XML fault `%s` ends in %s" % (lab_, r["exc"]), rp)
                continue
            part.outcome("std-exception:" + r["exc"] if r.get("exc") else ("diagnostics" if r.get("errors") else "accepted"))
            if len(part.samples) < 1 and r.get("exc"):
                part.sample({"fault": lab_, "ends_in": r["exc"]})
    return part.result()


# =====================================================================================================
# (4) length boundary grid: identifiers, type names, strings and numbers whose length crosses the lexer's MAXLEN
#     (4000) in every position class, sanitized build (the semantic values are fixed-size char arrays)
def length_docs(t):
    lens = list(range(3994, 4008)) + [7999, 8000, 8001] if t == "thorough" else [3998, 3999, 4000, 4001, 4002, 8000]
    sink = ('<template><name>T</name><parameter>%s</parameter><declaration>%s</declaration><location id="id0"><name>%s</name>%s</location>'
            '<init ref="id0"/><transition><source ref="id0"/><target ref="id0"/>%s</transition></template>')
    out = []
    for n in lens:
        v = "v" * n
        d = "9" * n
        cases = {
            "variable-name": X.nta("int %s; int k = %s;" % (v, v), [sink % ("", "", "L0", "", "")], "system T;"),
            "typedef-name": X.nta("typedef int[0,1] %s; %s k;" % (v, v), [sink % ("", "", "L0", "", "")], "system T;"),
            "function-name": X.nta("int %s(int q) { return q; } int k = %s(1);" % (v, v), [sink % ("", "", "L0", "", "")], "system T;"),
            "field-name": X.nta("struct { int %s; } s; int k = s.%s;" % (v, v), [sink % ("", "", "L0", "", "")], "system T;"),
            "parameter-name": X.nta("int k;", [sink % ("int " + v, "", "L0", "", PS.lab("guard", v + " &gt; 0"))], "P = T(1); system P;"),
            "location-name": X.nta("int k;", [sink % ("", "", v, "", "")], "system T;", queries=["E<> T." + v]),
            "select-name": X.nta("int k;", [sink % ("", "", "L0", "", PS.lab("select", v + " : int[0,1]") + PS.lab("guard", v + " == 0"))], "system T;"),
            "undeclared-use": X.nta("int k;", [sink % ("", "", "L0", PS.lab("invariant", v + " &lt; 1"), "")], "system T;"),
            "process-name": X.nta("int k;", [sink % ("", "", "L0", "", "")], "%s = T(); system %s;" % (v, v)),
            "template-name": X.nta("int k;", [(sink % ("", "", "L0", "", "")).replace("<name>T</name>", "<name>%s</name>" % v)], "system %s;" % v),
            "number": X.nta("int k = %s;" % d, [sink % ("", "", "L0", "", "")], "system T;"),
            "float": X.nta("double k = 0.%s;" % d, [sink % ("", "", "L0", "", "")], "system T;"),
            "string": X.nta('import "%s" { int f(); };' % v, [sink % ("", "", "L0", "", "")], "system T;"),
            "comment": X.nta("int k; /* %s */ // %s" % (v, v), [sink % ("", "", "L0", "", "")], "system T;"),
            "chained-source": None,
        }
        for cname, doc in cases.items():
            if doc is not None:
                out.append(("length:%s:%d" % (cname, n), doc, "xml"))
        out.append(("length:xta-chained-source:%d" % n, "process T() { state %s, B; init B; trans %s -> B { }, -> %s { }; } system T;" % (v, v, v), "xta"))
        out.append(("length:xta-old-syntax:%d" % n, "int %s; process T { state B; init B; } system T;" % v, "xta-old"))
    return out


def length_shard(arg):
    t, i, n = arg
    part = engine.Part()
    w = engine.worker("san")
    docs = [d for k, d in enumerate(length_docs(t)) if k % n == i]
    for kind in ("xml", "xta", "xta-old"):
        sel = [d for d in docs if d[2] == kind]
        res = X.run_docs(w, [d[1] for d in sel], want=[], batch=10, kind="xml" if kind == "xml" else "xta", newxta=kind != "xta-old",
                         timeout=120, one_timeout=30)
        for (lab_, doc, _), r in zip(sel, res):
            part.count()
            part.nontrivial_case(lab_)
            cls = ":".join(lab_.split(":")[:2])
            rp = {"op": "xml" if kind == "xml" else "xta", "newxta": kind != "xta-old",
                  "buf": "<generated by checks/c01.py length_docs(): %s>" % lab_}
            if r.get("died"):
                sig = engine.crash_signature(r)
                part.outcome("crash")
                part.violation("crash:%s:%s" % (sig, cls), "%s: %s: %s" % (lab_, sig, (r.get("stderr") or "")[-300:].replace("\n", " | ")), rp)
            elif engine.sanitizer_hit(r):
                part.outcome("sanitizer-report")
                part.violation("san:%s:%s" % (engine.crash_signature(r), cls), "%s: %s" % (lab_, (r.get("stderr") or "")[:300].replace("\n", " | ")), rp)
            elif r.get("exc") is not None and r.get("std") is False:
                part.violation("nonstd-exception:%s:%s" % (r["exc"], cls), "%s ends in %s" % (lab_, r["exc"]), rp)
            else:
                part.outcome("length:" + ("std-exception" if r.get("exc") else ("diagnostics" if r.get("errors") else "accepted")))
    return part.result()


# =====================================================================================================
# (5) semantically invalid but syntactically clean texts: the error branches of the builder callbacks (where the grammar's
#     idea of what was pushed and the builder's can drift apart). Every snippet alone and every ordered pair, in every slot.
SEM_DECLS = [
    "struct { chan cf; } sv1;", "struct { int i1; broadcast chan cb[2]; } sv2;", "typedef struct { void vf; int i2; } st3; st3 sv3;",
    "struct { string sf; } sv4;", "struct { int dup; int dup; } sv5;", "struct { struct { chan inner; } in1; int i3; } sv6;",
    "struct { } sv7;", "typedef struct { int a1; } st8; st8 sv8 = { 1, 2 };", "int arr9[2] = { 1, 2, 3 };", "int arr10[0];", "int arr11[-1];",
    "void vv12;", "void arr13[2];", "int dupv; int dupv;", "typedef int dupt; typedef int dupt;", "int fdup() { return 1; } int fdup() { return 2; }",
    "int fpar(int p, int p) { return p; }", "void fret() { return 1; }", "int fnoret() { }", "int fcall() { return nosuchfn(1); }",
    "int fvar; int fcall2() { return fvar(1); }", "int farr() { int q; return q[1]; }", "int fdot() { int q; return q.x; }",
    "int fidx() { int a[2]; return a[1][2]; }", "int fargs(int a) { return a; } int fuse = fargs(1, 2);", "int fargs0() { return 1; } int fuse0 = fargs0(1);",
    "const int c20;", "const int c21 = c21;", "int self22 = self22;", "clock ck23 = 1; clock ck24 = ck23;", "chan ch25 = 1;",
    "meta clock mc26;", "urgent int ui27;", "broadcast int bi28;", "const chan cc29;", "int[5,1] r30;", "int[0,nosuch] r31;", "scalar[0] s32;", "scalar[-1] s33;",
    "typedef scalar[2] sc34; sc34 a34; int b34 = a34;", "int a35[sc34x];", "typedef nosuchtype t36; t36 v36;", "nosuch37 v37;",
    "int f38(int &r) { return r; } int u38 = f38(1);", "int f39(int a[2]) { return a[0]; } int b39[3]; int u39 = f39(b39);",
    "void f40() { break; }", "void f41() { continue; }", "void f42() { int i; for (i : nosuch) { } }", "void f43() { for (q : int) { } }",
    "void f44() { while (1) { int d; int d; } }", "void f45(chan &c) { c = c; }", "void f46() { 1 = 2; }", "void f47() { f47 = 1; }",
    "void f48() { int x; x++ ++; }", "int f49() { return forall (i : chan) true; }", "int f50() { return sum (i : int[0,1]) true; }",
    "import \"nosuchlib.so\" { int ext51(int a); };", "import \"nosuchlib.so\" { nosuch52 = int ext52(); };", "dynamic D53(clock c);", "dynamic D54(); dynamic D54();",
    "chan priority nosuch55 < default;", "chan priority 1 < default;", "progress { nosuch56; }", "gantt { G57 : nosuch57 -> 1; }",
    "typedef struct { int f; } rec58; rec58 r58; int v58 = r58;", "int a59[2]; int v59 = a59;", "int a60[2]; int b60[3] = a60;",
    "double d61 = \"str\";", "string s62 = 1;", "bool b63 = 1.5;", "int i64 = 1.5 + true;",
    # type prefixes on the wrong base type, references and ranges over the wrong types, array sizes of the wrong type
    "hybrid int hi65;", "const clock cc66;", "meta chan mc67;", "void f68(void &v) { }", "urgent clock uc69;", "broadcast clock bc70;",
    "int a71[1.5];", "int a72[true];", "int a73[c];", "typedef struct { clock cf; } sc74; sc74 v74;", "typedef struct { chan hf; } sc75; const sc75 v75;",
    "hybrid clock hc76; int i76 = hc76;", "const int c77 = 1; int[c77, 0] r77;", "int[0.5, 1.5] r78;", "double[0,1] d79;", "scalar[2] s80; int i80 = s80 + 1;",
    "typedef scalar[2] ss81; ss81 a81; ss81 b81 = a81;", "meta int mi82; clock ck82; void f82() { ck82 = mi82; }", "int f83(int a[2]) { return a; }",
    "struct { int a; } f84() { }", "clock f85() { return x; }", "chan f86() { return c; }", "int f87(chan ch) { return 1; }", "void f88(clock &k) { k = 1.5; }",
    "const int c89[2] = { 1, 2 }; int[0, c89[5]] r89;", "int q90 = spawn D90();", "dynamic D91(); int q91 = numOf(D91);",
    # priorities, progress measures, gantt charts and before/after update with operands of the wrong kind
    "chan priority i < default;", "chan priority c, c;", "chan priority default, default;", "chan priority arr[0] < c;", "chan priority c[1];",
    "before_update { x }", "after_update { c }", "before_update { i = }", "after_update { nosuch() }",
    # declarations that belong to the global level (the XML reader accepts them among a template's local declarations as well)
    "process Q95() { state A; init A; }", "process Q96(int p) { int ql; state A, B; init A; trans A -> B { guard ql == p; }; } int after96;",
    "process Q97() { state A {", "process Q98() { } int after98;", "process T() { state A; init A; }", "before_update { i = 1 } after_update { j = 2 }",
    "chan priority c < default;", "dynamic D99(int k); dynamic D99(int k);", "process Q100() { state A; init A; } process Q100() { state A; init A; }",
]
SEM_LABELS = {
    "select": ["s : chan", "s : struct { int a; }", "s : int", "s : nosuch", "s : int[0,1], s : int[0,1]", "i : int[0,1]", "s : scalar[2]", "s : int[1,0]", "s : void"],
    "guard": ["c", "arr", "fn", "s", "i = 1", "nosuch", "x", "x < y < 1", "fn(1, 2)", "arr[1][2]", "s.nosuch", "i.f", "c!", "1 ? x : c", "forall (q : chan) true"],
    "synchronisation": ["i!", "x?", "arr[0]!", "fn(1)!", "c[0]!", "nosuch!", "c", "s.f?", "(c)!", "c!!"],
    "assignment": ["1 = 2", "c = c", "fn = 1", "k = 1", "x = c", "arr = 1", "s = 1", "i = arr", "i++ ++", "nosuch = 1", "fn(c)", "i = s", "s.f = s", "x' = 1"],
    "invariant": ["x' == 2 && y' == 3 && i' == 1 && j' == 2", "i' == 1 && j' == 1", "x <= 5 && forall (q : int[0,1]) x' == q", "x' == c", "x' == x", "arr' == 1",
                  "c", "i = 1", "x < 1 || y < 1", "x' == c", "arr", "nosuch", "x' == 1 && x' == 2", "s", "fn"],
    "probability": ["c", "x", "s", "arr", "-1", "nosuch", "1.5 + c", "i = 1"],
    "parameter": ["chan c, chan c", "int p, int p", "void v", "int &p[nosuch]", "struct { chan c; } p", "nosuch p", "const clock &x", "int p = 1", "urgent chan &u, broadcast chan &b, int[0,1] k, scalar[2] sq"],
    "system": ["system T; progress { c; }", "system T; progress { c : 1; }", "system T; progress { x : i; }", "system T; progress { i++; }",
               "system T; gantt { G : c -> 1; }", "system T; gantt { G(k : chan) : true -> k; }", "system T; gantt { G(k : int[0,1]) : arr[k] -> x; }",
               "system T; gantt { G : true -> i++; }", "system T; gantt { G : for (k : int[0,1]) nosuch -> k; }", "system T; gantt { G(k : int[0,1], k : int[0,1]) : true -> k; }",
               "system nosuch;", "P = T(); P = T(); system P;", "P = T(1); system P;", "P = nosuch(); system P;", "P = T2(); system P, P;", "system T < T;", "P(int p, int p) = T(); system P;",
               "P(chan c) = T(); system P;", "system T, T2; progress { nosuch; }", "P = T(); system P; gantt { G : P.nosuch -> 1; }", "system i;", "P = i(); system P;", "P = T(); Q = P(); R = Q(); system R;"],
}


def semantic_docs(t):
    docs = []
    sink = PS.ta_doc
    singles = SEM_DECLS
    pairs = [(a, b) for a in SEM_DECLS for b in SEM_DECLS] if t == "thorough" else [(a, b) for i, a in enumerate(SEM_DECLS) for j, b in enumerate(SEM_DECLS) if (i + 2 * j) % 7 == 0]
    for d in singles:
        docs.append(("sem:decl:" + d[:40], sink(gdecl=PS.GDECL + X.esc(d)), "xml"))
        docs.append(("sem:local-decl:" + d[:40], sink(ldecl="int l; clock lx; " + X.esc(d)), "xml"))
        docs.append(("sem:xta:" + d[:40], PS.GDECL + d + "\nprocess T() { " + d + " state A; init A; }\nsystem T;\n", "xta"))
        docs.append(("sem:xta-old:" + d[:40], "int i; clock x; chan c; " + d + "\nprocess T { state A; init A; }\nsystem T;\n", "xta-old"))
    for a, b in pairs:
        docs.append(("sem:decl-pair:%s|%s" % (a[:25], b[:25]), sink(gdecl=PS.GDECL + X.esc(a + " " + b)), "xml"))
    for kind, texts in SEM_LABELS.items():
        for tx in texts:
            e = X.esc(tx)
            if kind == "parameter":
                docs.append(("sem:parameter:" + tx[:40], sink(params=e, system="system T2;"), "xml"))
            elif kind == "system":
                docs.append(("sem:system:" + tx[:40], sink(system=e), "xml"))
            elif kind == "invariant":
                docs.append(("sem:invariant:" + tx[:40], sink(loc0=PS.lab("invariant", e)), "xml"))
            else:
                others = "".join(PS.lab(k, v) for k, v in (("select", "q : int[0,1]"), ("guard", "i &gt;= 0"), ("synchronisation", "c!"), ("assignment", "j = 1")) if k != kind)
                docs.append(("sem:%s:%s" % (kind, tx[:40]), sink(edge=PS.lab(kind, e) + others), "xml"))
                docs.append(("sem:%s-first:%s" % (kind, tx[:40]), sink(edge=others + PS.lab(kind, e)), "xml"))
    return docs


# dynamic templates: every quantifier over instances x what stands for the template x body shape, in every label kind that
# takes an expression, in function bodies and in queries; spawn / exit / numOf with every kind of operand
DYN_Q = ["forall", "exists", "sum", "foreach"]
DYN_T = ["Worker", "Late", "Undef", "Main", "i", "nosuch", "int"]     # defined / defined after use / never defined / static / variable / unknown / type
DYN_BODY = ["(b.load > 0)", "b.load > 0", "b.load", "(b)", "b", "(b.load.x)", "(b.b)", "(b.nosuch)", "(b[0])", "(b())", "(b.Idle)", "(b = 1)",
            "(b.load = 1)", "(b++)", "(b == b)", "(b + 1)", "(-b)", "(b ? 1 : 2)", "(b.load')", "(b')", "(forall (b : Worker)(b.load > 0))",
            "(exists (c2 : Late)(b.load > c2.late))", "(numOf(Worker) > b.load)", "(b.wk)", "(i.load)", "(Worker.load)", "()", "",
            # clock constraints and floating-point values over the instances (a sum over a clock constraint has a type of its own)
            "(b.wc < 5)", "(b.wc - x < 5)", "(b.wc <= 2.5)", "(b.wd > 0.5)", "(b.wc < 5 && b.load > 0)", "((b.wc < 5) + 1)", "(b.wc)", "(b.wc' == 0)"]
DYN_OPS = ["spawn Worker(1)", "spawn Worker()", "spawn Worker(1, 2)", "spawn Worker(x)", "spawn nosuch(1)", "spawn i(1)", "spawn Main()", "spawn Late()",
           "spawn Undef()", "exit()", "exit(1)", "numOf(Worker)", "numOf(i)", "numOf(nosuch)", "numOf(Main)", "numOf(Undef)", "numOf()",
           "i = numOf(Worker)", "i = spawn Worker(1)", "spawn Worker(spawn Worker(1))", "spawn Worker(numOf(Worker))"]


def dynamic_doc(guard=None, inv=None, assign=None, prob=None, fbody=None, query=None, wbody=None, wassign=None):
    g = "dynamic Worker(int[0,3] wk); dynamic Late(); dynamic Undef(); int i; clock x; chan c; "
    if fbody is not None:
        g += "void gf() { %s; } " % fbody
    worker = X.template("Worker", params="int[0,3] wk", decl="int load = 1; clock wc; double wd; " + ("void wf() { %s; }" % wbody if wbody is not None else ""),
                        locations=[X.location("w0", "Idle"), X.location("w1", "Done")], init="w0",
                        transitions=[X.transition("w0", "w1", assign=wassign)])
    main = X.template("Main", locations=[X.location("id0", "A", inv=inv), X.location("id1", "B")], branchpoints=["id2"] if prob is not None else [],
                      init="id0", transitions=[X.transition("id0", "id1", guard=guard, assign=assign)] +
                      ([X.transition("id1", "id2"), X.transition("id2", "id0", prob=prob)] if prob is not None else []))
    late = X.template("Late", decl="int late = 2;", locations=[X.location("l0", "Idle")], init="l0")
    return X.nta(g, [worker, main, late], "M = Main(); system M;", queries=[query] if query is not None else None)


def dynamic_docs(t):
    docs = []
    for q in DYN_Q:
        for tn in DYN_T:
            for body in DYN_BODY:
                e = "%s (b : %s) %s" % (q, tn, body)
                lab_ = "%s:%s:%s" % (q, tn, body)
                docs.append(("sem:dyn-guard:" + lab_, dynamic_doc(guard=e), "xml"))
                docs.append(("sem:dyn-query:" + lab_, dynamic_doc(query="Pr[<=10](<> %s)" % e), "xmlq"))
                if t == "thorough" or tn in ("Worker", "Late", "i"):
                    docs.append(("sem:dyn-invariant:" + lab_, dynamic_doc(inv=e), "xml"))
                    docs.append(("sem:dyn-assignment:" + lab_, dynamic_doc(assign="i = " + e), "xml"))
                    docs.append(("sem:dyn-function:" + lab_, dynamic_doc(fbody="i = " + e), "xml"))
                    docs.append(("sem:dyn-symbolic-query:" + lab_, dynamic_doc(query="E<> " + e), "xmlq"))
                if t == "thorough" or ".wc" in body or ".wd" in body:
                    docs.append(("sem:dyn-compared:" + lab_, dynamic_doc(guard="i == %s" % e), "xml"))
                    docs.append(("sem:dyn-value-query:" + lab_, dynamic_doc(query="E[<=10; 20] (max: %s)" % e), "xmlq"))
                    docs.append(("sem:dyn-simulate-quick:" + lab_, dynamic_doc(query="simulate [<=10] { %s }" % e), "xmlq"))
                    docs.append(("sem:dyn-probability-compared:" + lab_, dynamic_doc(query="Pr[<=10] (<> (%s) > 0)" % e), "xmlq"))
                if t == "thorough":
                    docs.append(("sem:dyn-probability:" + lab_, dynamic_doc(prob=e), "xml"))
                    docs.append(("sem:dyn-simulate:" + lab_, dynamic_doc(query="simulate [<=10] { %s }" % e), "xmlq"))
    # announcement and definition with every pair of parameter lists (fewer, more, other names, other kinds, text that stops parsing)
    plists = ["", "int a", "int a, int b", "int b, int a", "const int a", "int &a", "clock a", "int a[2]", "int a; int b", "int a,", "nosuch a", "int a, int a"]
    for ann in plists[:9]:
        for dfn in plists:
            g = "dynamic DW(%s); int i;" % ann
            d = X.template("DW", params=dfn or None, decl="int dl;", locations=[X.location("d0", "A"), X.location("d1", "B")], init="d0",
                           transitions=[X.transition("d0", "d1", guard="dl >= 0" if "a" not in dfn else "dl >= 0 && i >= 0")])
            m_ = X.template("Main", locations=[X.location("id0", "L0")], init="id0", transitions=[X.transition("id0", "id0", assign="i = 1")])
            docs.append(("sem:dyn-params:%s|%s" % (ann, dfn), X.nta(g, [d, m_], "system Main;"), "xml"))
            if t == "thorough" or (len(ann) + len(dfn)) % 3 == 0:
                docs.append(("sem:dyn-params-xta:%s|%s" % (ann, dfn), g + "\nprocess DW(%s) { int dl; state A, B; init A; trans A -> B { guard dl >= 0; }; }\n"
                             "process Main() { state L0; init L0; }\nsystem Main;\n" % dfn, "xta"))
    for op in DYN_OPS:
        docs.append(("sem:dyn-op-assignment:" + op, dynamic_doc(assign=op), "xml"))
        docs.append(("sem:dyn-op-in-dynamic-template:" + op, dynamic_doc(wassign=op), "xml"))
        docs.append(("sem:dyn-op-function:" + op, dynamic_doc(fbody=op), "xml"))
        docs.append(("sem:dyn-op-local-function:" + op, dynamic_doc(wbody=op), "xml"))
        docs.append(("sem:dyn-op-guard:" + op, dynamic_doc(guard=op + " > 0"), "xml"))
        docs.append(("sem:dyn-op-query:" + op, dynamic_doc(query="Pr[<=10](<> %s > 0)" % op), "xmlq"))
        docs.append(("sem:dyn-op-symbolic-query:" + op, dynamic_doc(query="E<> %s > 0" % op), "xmlq"))
    return docs


def instantiation_docs(t):
    """system sections: chains of 1-3 (partial) instantiations of a template with two bounded parameters - every list of own
    parameters (none, one, two, swapped names) x every argument list over own parameters, literals and expressions, too few and too
    many arguments included - ending in a system line; XML and XTA"""
    import itertools
    docs = []
    T = X.template("T", params="const int[0,1] a, const int[0,2] b", decl="int[0, a + b] v; int w;", locations=[X.location("id0", "L0"), X.location("id1", "L1")],
                   init="id0", transitions=[X.transition("id0", "id1", guard="v <= a && w >= b", assign="w = a + b")])
    txta = ("process T(const int[0,1] a, const int[0,2] b) { int[0, a + b] v; int w; state L0, L1; init L0; "
            "trans L0 -> L1 { guard v <= a && w >= b; assign w = a + b; }; }\n")
    g = "const int c1 = 1; int gi;"
    plists = [[], ["x"], ["x", "y"], ["y", "x"]]

    def levels(depth, prev_name, prev_arity, lines, names):
        if depth == 0:
            yield lines, prev_name
            return
        name = "I%d" % len(lines)
        for pl in plists:
            ptxt = ", ".join("const int[0,%d] %s" % (1 if n_ == "x" else 2, n_) for n_ in pl)
            atoms = pl + ["1", "0"] + (["c1", pl[0] + " + 0"] if t == "thorough" and pl and total_depth[0] < 3 else [])
            arities = [prev_arity] if depth > 1 else [prev_arity, prev_arity - 1, prev_arity + 1]
            for ar in arities:
                if ar < 0:
                    continue
                for args in itertools.product(atoms, repeat=ar):
                    line = "%s%s = %s(%s);" % (name, "(%s)" % ptxt if pl else ("()" if len(lines) % 2 else ""), prev_name, ", ".join(args))
                    yield from levels(depth - 1, name, len(pl), lines + [line], names + [name])
    k = 0
    total_depth = [0]
    for depth in (1, 2, 3):
        total_depth[0] = depth
        if depth == 3 and t != "thorough":
            continue
        for lines, last in levels(depth, "T", 2, [], []):
            k += 1
            if depth == 3 and k % 11:
                continue
            if depth == 2 and t != "thorough" and k % 3:
                continue
            system = "\n".join(lines) + "\nsystem %s;" % last
            docs.append(("sem:instantiation:%s" % " ".join(lines), X.nta(g, [T], system), "xml"))
            if k % 4 == 0 or t == "thorough":
                docs.append(("sem:instantiation-xta:%s" % " ".join(lines), g + "\n" + txta + system + "\n", "xta"))
    return docs


def initialiser_docs(t):
    """every initialiser list of up to 4 (quick: 3) elements for a record of 1..3 fields and for arrays: positional values, named
    fields in any order (known, repeated, unknown), nested lists, values of the wrong type - the type checker's bookkeeping of the
    current field is the subject"""
    import itertools
    docs = []
    L = 4 if t == "thorough" else 3
    for nf in (1, 2, 3):
        fields = ["fa", "fb", "fc"][:nf]
        rec = "struct { %s }" % " ".join(("int %s;" if k != 1 else "bool %s;") % f for k, f in enumerate(fields))
        elems = ["1", "true", "{ 1 }", "nosuch: 1", "x"] + ["%s: 1" % f for f in fields]
        for n in range(0, L + 1):
            for combo in itertools.product(elems, repeat=n):
                init = "{ %s }" % ", ".join(combo)
                for qual in ("", "const "):
                    if qual and n == L:
                        continue
                    docs.append(("sem:init-record:%d:%s%s" % (nf, qual, init), PS.ta_doc(gdecl=PS.GDECL + X.esc("%s%s rv = %s;" % (qual, rec, init))), "xml"))
    arr_elems = ["1", "{ 1, 2 }", "{ 1 }", "x", "fa: 1", "{ }"]
    for decl in ("int av[2]", "int av[2][2]", "int av[0]", "struct { int fa; int fb; } av[2]", "int av[3]"):
        for n in range(0, 4):
            for combo in itertools.product(arr_elems, repeat=n):
                init = "{ %s }" % ", ".join(combo)
                docs.append(("sem:init-array:%s:%s" % (decl, init), PS.ta_doc(gdecl=PS.GDECL + X.esc("%s = %s;" % (decl, init))), "xml"))
    # the same through a template-local declaration, a function-local one and whole-file XTA (a reduced set)
    for init in ("{ fb: 1, 2 }", "{ fc: 1, 2, 3 }", "{ fb: 1, fa: 2, 3 }", "{ fa: 1, fa: 2 }", "{ 1, fa: 2 }", "{ fc: 1, fa: 2, 3, 4 }", "{ fb: { 1 } }"):
        d = "struct { int fa; int fb; int fc; } rv = %s;" % init
        docs.append(("sem:init-local:" + init, PS.ta_doc(ldecl="int l; clock lx; " + X.esc(d)), "xml"))
        docs.append(("sem:init-function:" + init, PS.ta_doc(gdecl=PS.GDECL + X.esc("void fi() { %s }" % d)), "xml"))
        docs.append(("sem:init-xta:" + init, PS.GDECL + d + "\nprocess T() { " + d + " state A; init A; }\nsystem T;\n", "xta"))
    return docs


# (6) ill-typed queries: every query form with one slot filled by an operand of the wrong kind (the error branches of the
# property type checker), sanitized build
ILL_OPERANDS = ["ch", "x", "arr", "rcd", "a ++", "a = 1", "1.5", "\"str\"", "fq", "nosuch", "P", "P.L1", "- 1", "fq ( a ++ )", "x - y",
                "x <= 5", "x' == 1", "deadlock", "P.nosuch", "arr [ 9 ]", "forall ( i : int[0,1] ) x < i", "A[] p", "0", "2147483647 + 1"]
ILL_BOUNDS = ["<=a", "<=-1", "x<=a", "ch<=10", "#<=a", "#<=1.5", "<=fq(1)", "arr<=10", "<=10; 0", "<=10; -5", "<=10; a", "x<=10; 1.5", "<=x", "nosuch<=10",
              "P.lx<=10", "#<=2147483648"]


def ill_queries():
    sys.path.insert(0, os.path.dirname(os.path.abspath(__file__)))
    import c03
    ctx = c03.qmodel().replace(X.esc(c03.QMODEL_DECL), X.esc(c03.QMODEL_DECL + " struct { int f; } rcd; int fq(int q) { return q; }"), 1)
    items = []
    for fid, tpl in c03.query_forms():
        slots = [sl for sl in ("p", "q", "n", "m") if "{%s}" % sl in tpl]
        good = {"p": "p", "q": "q", "n": "a", "m": "b"}
        for sl in slots:
            for bad in ILL_OPERANDS:
                f = dict(good)
                f[sl] = bad
                items.append(("ill-query:%s:%s" % (fid, sl), tpl.format(**f)))
        for b in ILL_BOUNDS:
            if "[<=10]" in tpl:
                items.append(("ill-query:%s:bound" % fid, tpl.replace("[<=10]", "[%s]" % b).format(**good)))
            elif "[<=10; " in tpl:
                items.append(("ill-query:%s:bound" % fid, re.sub(r"\[<=10; \d+\]", "[%s]" % b, tpl).format(**good)))
    # member selection on every kind of operand: operators keep the type of a process / record / channel operand without naming one
    for op in MEMBER_OPERANDS:
        for m in ("L1", "k", "f", "nosuch"):
            items.append(("ill-query:member-of:%s" % op.split()[0], "E<> ( %s ) . %s" % (op, m)))
            items.append(("ill-query:member-of-compared:%s" % op.split()[0], "A[] ( %s ) . %s > 0" % (op, m)))
            items.append(("ill-query:member-of-member:%s" % op.split()[0], "E<> ( %s ) . %s . %s" % (op, m, m)))
    return ctx, items


MEMBER_OPERANDS = ["P", "! P", "- P", "+ P", "P '", "P ++", "++ P", "P + 1", "1 + P", "P && P", "P ? P : P", "p ? P : P", "abs ( P )", "fmod ( P , 1 )", "P [ 0 ]",
                   "P ( 0 )", "P = P", "forall ( i : int[0,1] ) P", "sum ( i : int[0,1] ) P", "P . L1", "P . k", "rcd", "! rcd", "- rcd", "rcd '", "rcd ++", "p ? rcd : rcd",
                   "arr", "arr [ 0 ]", "ch", "! ch", "x", "x '", "- x", "fq", "fq ( 1 )", "deadlock", "1", "true", "1.5", "\"s\"", "nosuch", "P . nosuch", "a", "- a",
                   "not P", "P imply P", "P <? P", "P , P"]


def ill_query_shard(arg):
    i, n = arg
    part = engine.Part()
    w = engine.worker("san")
    ctx, items = ill_queries()
    mine = [it for k, it in enumerate(items) if k % n == i]
    c = {"kind": "xml", "text": ctx}
    for k in range(0, len(mine), 100):
        chunk = mine[k:k + 100]
        req = {"op": "queries", "ctx": c, "items": [t for _, t in chunk], "print": True}
        r = w.call_safe(req, timeout=120)
        results = r.get("results") if not r.get("died") else None
        if results is None:
            results = []
            for _, t in chunk:
                r1 = w.call_safe({"op": "queries", "ctx": c, "items": [t], "print": True}, timeout=30)
                results.append(r1 if r1.get("died") else r1["results"][0])
        elif r["ctx"]["errors"] or r["ctx"]["exc"]:
            raise RuntimeError("C01 generator bug: query context rejected: %s" % str(r["ctx"])[:300])
        for (lab_, text), x in zip(chunk, results):
            part.count()
            part.nontrivial_case(lab_ + ":" + text)
            rp = {"op": "queries", "ctx": c, "items": [text], "print": True}
            if x.get("died"):
                sig = engine.crash_signature(x)
                part.outcome("crash")
                part.violation("crash:%s:%s" % (sig, lab_), "%s `%s`: %s: %s" % (lab_, text, sig, (x.get("stderr") or "")[-300:].replace("\n", " | ")), rp)
            elif engine.sanitizer_hit(x):
                part.outcome("sanitizer-report")
                part.violation("san:%s:%s" % (engine.crash_signature(x), lab_), "%s `%s`: %s" % (lab_, text, (x.get("stderr") or "")[:300].replace("\n", " | ")), rp)
            elif x.get("exc") is not None and x.get("std") is False:
                part.violation("nonstd-exception:%s:%s" % (x["exc"], lab_), "%s `%s` ends in %s" % (lab_, text, x["exc"]), rp)
            else:
                part.outcome("ill-query:" + ("std-exception" if x.get("exc") else ("diagnostics" if x.get("err") else "accepted")))
    return part.result()


def edge_combination_docs(t):
    """synchronisation kind x guard kind x controllability x target location kind: the type checker's per-edge warnings and
    errors (clock guards on urgent edges, strict bounds, broadcast receivers, CSP-style synchronisation, refinement)"""
    docs = []
    g = X.esc("int i; int j; clock x; clock y; chan c; broadcast chan bc; urgent chan uc; urgent broadcast chan ubc; chan ca[2];")
    for sync in ("uc!", "uc?", "ubc!", "ubc?", "bc?", "bc!", "c", "ca[i]!", "ca[i]", "c!", None):
        for guard in ("x < 5", "x <= 5", "i == 0", "x - y < 3", "x < 5 && i == 0", None):
            for ctrl in ("", ' controllable="false"'):
                for tinv in (None, "x <= 7", "x < 7"):
                    lab = (PS.lab("guard", X.esc(guard)) if guard else "") + (PS.lab("synchronisation", X.esc(sync)) if sync else "")
                    t1 = ('<template><name>T</name><declaration>clock lx;</declaration><location id="id0"><name>A</name></location>'
                          '<location id="id1"><name>B</name>%s</location><init ref="id0"/><transition%s><source ref="id0"/><target ref="id1"/>%s</transition>'
                          '<transition><source ref="id1"/><target ref="id0"/><label kind="synchronisation">%s</label></transition></template>'
                          % (PS.lab("invariant", X.esc(tinv)) if tinv else "", ctrl, lab,
                             X.esc(sync.replace("!", "?") if sync and sync.endswith("!") else (sync or "c?").replace("?", "!"))))
                    docs.append(("sem:edge:%s:%s:%s:%s" % (sync, guard, "u" if ctrl else "c", tinv),
                                 X.HEADER + "<nta><declaration>%s</declaration>%s<system>system T;</system></nta>\n" % (g, t1), "xml"))
    return docs


# (7) the pretty-printing back end on whole texts: every document of (5) and every query of (6), the C05 constructs and every
# statement form, through PrettyPrinter (XML reader, whole XTA, property syntax), sanitized build
def pretty_items(t):
    sys.path.insert(0, os.path.dirname(os.path.abspath(__file__)))
    import c03
    import c05
    import modelgen as MG
    items = []
    for lab_, doc, kind in semantic_docs(t) + dynamic_docs(t) + edge_combination_docs(t) + initialiser_docs(t)[::7] + instantiation_docs(t)[::5]:
        if kind in ("xml", "xmlq"):
            items.append(("pretty:" + lab_, {"op": "block", "mode": "pretty-xml", "tpl": doc.replace("</nta>", "\x01</nta>", 1), "text": ""}))
        else:
            items.append(("pretty:" + lab_, {"op": "block", "mode": "block", "builder": "pretty", "part": 0, "newxta": kind != "xta-old", "text": doc}))
    for e in c05.EXTRAS:
        m = c05.with_extras([e])
        items.append(("pretty:extra-xml:" + e[1][:30], {"op": "block", "mode": "pretty-xml", "tpl": MG.render_xml(m).replace("</nta>", "\x01</nta>", 1), "text": ""}))
        items.append(("pretty:extra-xta:" + e[1][:30], {"op": "block", "mode": "block", "builder": "pretty", "part": 0, "text": MG.render_xta(m)}))
    m = c05.with_extras(c05.EXTRAS)
    items.append(("pretty:all-extras-xta", {"op": "block", "mode": "block", "builder": "pretty", "part": 0, "text": MG.render_xta(m)}))
    stmts = ["i = 1;", "if (i) j = 1;", "if (i) j = 1; else j = 2;", "if (i) { } else { if (j) i = 0; }", "for (i = 0; i < 2; i++) j += i;", "for (q : int[0,1]) j = q;",
             "while (i < 2) i++;", "do { i--; } while (i > 0);", "{ int q = 1; { int r = q; j = r; } }", "return;", ";", "assert(i == 0);", "break;", "continue;",
             "i = j ? 1 : 2;", "i = (j, 3);", "arr[0] = i++ + --j;", "s.f = fn(i);", "j = forall (q : int[0,1]) arr[q] > 0;", "j = sum (q : int[0,1]) arr[q];",
             "for (;;) { }", "while (1) ;", "if (i) if (j) i = 1; else i = 2;", "int q[2] = { 1, 2 }; i = q[1];", "typedef int[0,1] lt; lt v = 1;"]
    for st in stmts:
        for wrap in ("void f0() { %s }", "int f0(int a, int &b) { %s return a; }", "void f0() { if (i) { %s } else { %s } }", "void f0() { for (q9 : int[0,1]) { %s } }"):
            body = wrap.replace("%s", st)
            items.append(("pretty:statement:" + st[:30], {"op": "block", "mode": "block", "builder": "pretty", "part": 1, "text": PS.GDECL + body}))
            items.append(("pretty:statement-old:" + st[:30], {"op": "block", "mode": "block", "builder": "pretty", "part": 1, "newxta": False, "text": "int i; int j; " + body}))
    for fid, tpl in c03.query_forms():
        ps = c03.BOOLS if "{p}" in tpl else [None]
        ns = c03.NUMS if "{n}" in tpl else [None]
        for p_ in ps:
            for n_ in ns:
                items.append(("pretty:query:" + fid, {"op": "block", "mode": "block", "builder": "pretty", "part": 14,
                                                      "text": tpl.format(p=p_, q="q", n=n_, m="b")}))
    for lab_, q in ill_queries()[1]:
        items.append(("pretty:" + lab_, {"op": "block", "mode": "block", "builder": "pretty", "part": 14, "text": q}))
    import dynspace as DS
    for q in DS.dynamic_items()[1]:
        items.append(("pretty:dynamic-query", {"op": "block", "mode": "block", "builder": "pretty", "part": 14, "text": q}))
    for e in DS.dynamic_items()[0]:
        items.append(("pretty:dynamic-expression", {"op": "block", "mode": "block", "builder": "pretty", "part": 12, "text": e}))
    return items


def pretty_shard(arg):
    t, i, n = arg
    part = engine.Part()
    w = engine.worker("san")
    for k, (lab_, req) in enumerate(pretty_items(t)):
        if k % n != i:
            continue
        part.count()
        part.nontrivial_case(lab_ + ":" + str(k))
        r = w.call_safe(req, timeout=60)
        cls = ":".join(lab_.split(":")[:2])
        if r.get("died"):
            sig = engine.crash_signature(r)
            part.outcome("crash")
            part.violation("crash:%s:%s" % (sig, cls), "%s: %s: %s" % (lab_, sig, (r.get("stderr") or "")[-300:].replace("\n", " | ")), req)
        elif engine.sanitizer_hit(r):
            part.outcome("sanitizer-report")
            part.violation("san:%s:%s" % (engine.crash_signature(r), cls), "%s: %s" % (lab_, (r.get("stderr") or "")[:300].replace("\n", " | ")), req)
        elif "harness_error" in r:
            raise RuntimeError(r["harness_error"])
        elif r.get("exc") is not None and r.get("std") is False:
            part.violation("nonstd-exception:%s:%s" % (r["exc"], cls), "%s ends in %s" % (lab_, r["exc"]), req)
        else:
            part.outcome("pretty:" + ("std-exception" if r.get("exc") else "returned"))
    return part.result()


def semantic_shard(arg):
    t, i, n = arg
    part = engine.Part()
    w = engine.worker("san")
    docs = [d for k, d in enumerate(semantic_docs(t) + dynamic_docs(t) + initialiser_docs(t) + edge_combination_docs(t) + instantiation_docs(t)) if k % n == i]
    for kind in ("xml", "xmlq", "xta", "xta-old"):
        sel = [d for d in docs if d[2] == kind]
        res = X.run_docs(w, [d[1] for d in sel], want=["queries"] if kind == "xmlq" else [], batch=25, kind="xml" if kind.startswith("xml") else "xta",
                         newxta=kind != "xta-old", timeout=120, one_timeout=30)
        for (lab_, doc, _), r in zip(sel, res):
            part.count()
            part.nontrivial_case(lab_)
            cls = ":".join(lab_.split(":")[:2])
            rp = {"op": "xml" if kind.startswith("xml") else "xta", "newxta": kind != "xta-old", "buf": doc, "want": ["queries"] if kind == "xmlq" else []}
            if r.get("died"):
                sig = engine.crash_signature(r)
                part.outcome("crash")
                part.violation("crash:%s:%s" % (sig, cls), "%s: %s: %s" % (lab_, sig, (r.get("stderr") or "")[-300:].replace("\n", " | ")), rp)
            elif engine.sanitizer_hit(r):
                part.outcome("sanitizer-report")
                part.violation("san:%s:%s" % (engine.crash_signature(r), cls), "%s: %s" % (lab_, (r.get("stderr") or "")[:300].replace("\n", " | ")), rp)
            elif r.get("exc") is not None and r.get("std") is False:
                part.violation("nonstd-exception:%s:%s" % (r["exc"], cls), "%s ends in %s" % (lab_, r["exc"]), rp)
            else:
                part.outcome("semantic:" + ("std-exception" if r.get("exc") else ("diagnostics" if r.get("errors") else "accepted")))
    return part.result()


# =====================================================================================================
# (3) growth families: no crash at any size, time roughly proportional to the size
def growth_families():
    F = {}
    dec = lambda e: X.nta("int i; int j; int a[3]; int f(int q) { return q; } struct { int g; } s; " + e,        # noqa: E731
                          [X.template("T", locations=[X.location("id0", "L0")], init="id0")], "system T;")
    F["left-assoc-chain"] = lambda n: dec("int v = " + " + ".join(["1"] * n) + ";")
    F["right-assoc-chain"] = lambda n: dec("void g() { " + " = ".join(["i"] * n) + " = 1; }")
    F["ternary-chain"] = lambda n: dec("int v = " + "".join("i ? 1 : " for _ in range(n)) + "0;")
    F["unary-chain"] = lambda n: dec("int v = " + "- " * n + "1;")
    F["not-chain"] = lambda n: dec("bool v = " + "!" * n + "true;")
    F["parentheses"] = lambda n: dec("int v = " + "(" * n + "1" + ")" * n + ";")
    F["index-chain"] = lambda n: dec("int v = a" + "[0]" * n + ";")
    F["call-nesting"] = lambda n: dec("int v = " + "f(" * n + "1" + ")" * n + ";")
    F["dot-chain"] = lambda n: dec("int v = s" + ".g" * n + ";")
    F["comma-args"] = lambda n: dec("int v = f(" + ", ".join(["1"] * n) + ");")
    F["nested-blocks"] = lambda n: dec("void g() { " + "{ " * n + "i = 1;" + " }" * n + " }")
    F["nested-ifs"] = lambda n: dec("void g() { " + "if (i) " * n + "i = 1; }")
    F["else-if-ladder"] = lambda n: dec("void g() { " + "if (i) i = 1; else " * n + "i = 2; }")
    F["nested-loops"] = lambda n: dec("void g() { " + "while (i) " * n + "i = 1; }")
    F["nested-array-type"] = lambda n: dec("int v" + "[2]" * n + ";")
    F["initialiser-nesting"] = lambda n: dec("int v[2] = " + "{" * n + "1" + "}" * n + ";")
    F["declaration-list"] = lambda n: dec("int " + ", ".join("v%d" % k for k in range(n)) + ";")
    F["many-declarations"] = lambda n: dec(" ".join("int v%d = %d;" % (k, k) for k in range(n)))
    F["many-statements"] = lambda n: dec("void g() { " + "i = 1; " * n + "}")
    F["long-identifier"] = lambda n: dec("int " + "v" * n + ";")
    F["long-comment"] = lambda n: dec("/* " + "c" * n + " */ int v;")
    F["many-newlines"] = lambda n: dec("\n" * n + "int v;")
    F["many-line-comments"] = lambda n: dec("// c\n" * n + "int v;")
    F["quantifier-nesting"] = lambda n: dec("bool v = " + "forall (q : int[0,1]) " * n + "true;")
    F["struct-nesting"] = lambda n: dec("struct { " * n + "int z;" + " } w;" * n)
    F["many-locations"] = lambda n: X.nta("", [X.template("T", locations=[X.location("id%d" % k, "L%d" % k) for k in range(n)], init="id0")], "system T;")
    F["many-edges"] = lambda n: X.nta("int i;", [X.template("T", locations=[X.location("id0", "L0")], init="id0",
                                                           transitions=[X.transition("id0", "id0", guard="i >= %d" % k) for k in range(n)])], "system T;")
    F["many-templates"] = lambda n: X.nta("", [X.template("T%d" % k, locations=[X.location("id%d" % k, "L0")], init="id%d" % k) for k in range(n)],
                                          "system T0;")
    F["many-processes"] = lambda n: X.nta("", [X.template("T", params="int p", locations=[X.location("id0", "L0")], init="id0")],
                                          " ".join("P%d = T(%d);" % (k, k) for k in range(n)) + " system " + ", ".join("P%d" % k for k in range(n)) + ";")
    F["deep-unknown-xml"] = lambda n: X.HEADER + "<nta><declaration>int i;</declaration>" + "<bogus>" * n + "</bogus>" * n + "<system>system T;</system></nta>"
    F["long-attribute"] = lambda n: X.nta("", [X.template("T", locations=['<location id="id0" x="%s"><name>L0</name></location>' % ("9" * n)], init="id0")], "system T;")
    F["guard-conjunction"] = lambda n: X.nta("int i;", [X.template("T", locations=[X.location("id0", "L0")], init="id0", transitions=[
        X.transition("id0", "id0", guard=" && ".join(["i >= 0"] * n))])], "system T;")
    F["update-list"] = lambda n: X.nta("int i;", [X.template("T", locations=[X.location("id0", "L0")], init="id0", transitions=[
        X.transition("id0", "id0", assign=", ".join(["i = 1"] * n))])], "system T;")
    return F


def growth_shard(arg):
    name, sizes = arg
    part = engine.Part()
    w = engine.worker("fast", stack_kb=8192)   # the shipped optimisation level and (explicitly) the default 8 MB stack
    fam = growth_families()[name]
    times = []
    for n in sizes:
        doc = fam(n)
        t0 = time.time()
        r = X.run_docs(w, [doc], want=["noinv"], timeout=120, one_timeout=120)[0]
        dt = time.time() - t0
        part.count()
        part.nontrivial_case("%s:%d" % (name, n))
        rp = {"op": "xml", "buf": "<generated by checks/c01.py growth_families()[%r](%d)>" % (name, n), "family": name, "n": n}
        if r.get("died"):
            sig = engine.crash_signature(r)
            kind = "hang" if r.get("timed_out") else ("stack-overflow" if r.get("sig") == 11 else "crash")
            part.outcome(kind)
            part.violation("%s:growth:%s" % (kind, name), "family %s at size %d (%d bytes): %s %s" % (name, n, len(doc), kind, sig), rp)
            break
        if r.get("exc") is not None and r.get("std") is False:
            part.violation("nonstd-exception:growth:%s" % name, "family %s at size %d ends in %s" % (name, n, r["exc"]), rp)
            break
        part.outcome("ok" if not r.get("exc") else "std-exception")
        times.append((n, len(doc), r.get("us", 0) / 1e6))
    # proportionality: doubling the size must not multiply the time by much more than two (generous constant)
    def cpu_seconds(n):
        # best of three, alone: CPU time of the parse as measured inside the worker
        best = None
        for _ in range(3):
            rr = X.run_docs(w, [fam(n)], want=["noinv"], timeout=120, one_timeout=120)[0]
            if rr.get("died"):
                return None
            best = rr.get("us", 0) / 1e6 if best is None else min(best, rr.get("us", 0) / 1e6)
        return best

    for (n1, b1, t1), (n2, b2, t2) in zip(times, times[1:]):
        if t1 > 0.02 and t2 / max(t1, 1e-9) > 4.0 * (b2 / b1):
            t1, t2 = cpu_seconds(n1), cpu_seconds(n2)
            if t1 is None or t2 is None or not (t1 > 0.02 and t2 / max(t1, 1e-9) > 4.0 * (b2 / b1)):
                part.outcome("superlinear-not-reproduced")
                continue
            part.outcome("superlinear")
            part.violation("superlinear:growth:%s" % name, "family %s: %d bytes take %.2fs, %d bytes take %.2fs (x%.1f time for x%.1f size)" %
                           (name, b1, t1, b2, t2, t2 / t1, b2 / b1), {"family": name, "n": n2})
            break
    part.add("growth_times:" + name, 0)
    if times:
        part.sample({"family": name, "sizes_bytes_seconds": [(b, round(t, 4)) for _, b, t in times][-3:]}, limit=1)
    return part.result()


def main():
    t = engine.tier()
    rep = engine.Report(PID, "model_checking", "see coverage.explanation")
    rep.set_deadline(75 * 60 if t == "thorough" else 20 * 60)
    cfgs = pm_configs(t)
    jobs = []
    if t == "quick":
        jobs += [(c, "san", 2, "fine", 300000, 60) for c in cfgs]
        jobs += [(c, "fast", 3, "fine", 1000000, 120) for c in cfgs if c["name"].endswith("#0") and len(c["alphabet"]) <= 62]
    else:
        jobs += [(c, "san", 3, "fine", 1500000, 900) for c in cfgs]
        jobs += [(c, "fast", 4, "fine", 4000000, 900) for c in cfgs if c["name"].endswith("#0")]
        jobs += [(c, "fast", 7, "shape", 1500000, 300) for c in cfgs if c["name"].endswith("#0")]
    jobs.sort(key=lambda j: -(len(j[0]["alphabet"]) ** j[2]) * (5 if j[1] == "san" else 1))
    for res in engine.pmap(pm_run, jobs):
        rep.merge(res)
    n = engine.ncpu()
    for res in engine.pmap(xml_shard, [(t, i, 4 * n) for i in range(4 * n)]):
        rep.merge(res)
    for res in engine.pmap(length_shard, [(t, i, 2 * n) for i in range(2 * n)]):
        rep.merge(res)
    for res in engine.pmap(semantic_shard, [(t, i, 4 * n) for i in range(4 * n)]):
        rep.merge(res)
    for res in engine.pmap(ill_query_shard, [(i, 2 * n) for i in range(2 * n)]):
        rep.merge(res)
    for res in engine.pmap(pretty_shard, [(t, i, 4 * n) for i in range(4 * n)]):
        rep.merge(res)
    sizes = [10, 100, 1000, 5000, 10000] if t == "quick" else [10, 100, 1000, 10000, 30000, 100000]
    for res in engine.pmap(growth_shard, [(name, sizes) for name in growth_families()]):
        rep.merge(res)
    states = int(rep.extra.get("pm_states", 0))
    trans = int(rep.extra.get("pm_transitions", 0))
    cov = {"states": max(states, 1), "transitions": max(trans, 1), "traces_validated_against_impl": int(rep.evaluations),
           "explanation": "every transition of the search is an execution of the real entry point on the real code (the model IS the "
                          "implementation): %d searches over %d (entry point, context seed) pairs; plus %d XML fault documents and %d "
                          "growth families" % (int(rep.extra.get("pm_searches", 0)), len(cfgs), len(xml_docs(t)), len(growth_families()))}
    rep.rule = ("(1) explicit-state BFS over token strings: %d (entry point, seed) pairs - 17 XML text-block kinds incl. LSC, whole XTA, "
                "queries with the Tiga builder, pretty printer, 3.x syntax, bare blocks; alphabets of 40-90 tokens; depth per tier; state = "
                "(bison stack, lexer state, shifted values, builder stacks, document summary) at the observation point before end of "
                "input; distinct = distinct digest. (2) every single structural fault (delete/duplicate/wrap/rename/swap element, empty or "
                "hostile text, drop/empty/alias/long attribute), every truncation and byte substitution of a kitchen-sink document, the "
                "repository models through buffer/fd/file with truncations. (3) %d growth families at sizes %s on the -O2 build. "
                "(4) %d documents whose identifiers / type names / numbers / strings / comments have lengths around the lexer's "
                "MAXLEN=4000 in 16 position classes, sanitized build. (5) %d documents with semantically invalid but syntactically clean "
                "declarations (alone, in pairs, in four slots) and labels (the builder's error branches), and every dynamic-template "
                "construct (4 quantifiers over instances x 7 kinds of template operand x 28 body shapes; spawn/exit/numOf x 21 operand "
                "shapes) in guards, invariants, updates, probabilities, function bodies and SMC / symbolic queries, and every initialiser "
                "list of up to 3 (thorough: 4) elements (positional, named known / repeated / unknown field, nested, wrong type) for records "
                "of 1-3 fields and for arrays, and 396 combinations of synchronisation kind x guard kind x controllability x target invariant, sanitized build. (6) %d ill-typed queries: every query form with one operand slot or the bound "
                "filled by an operand of the wrong kind (channel, clock, array, record, side effect, string, function, process, unknown, "
                "formula, ...), through parseProperty with the TIGA builder and the property type checker, sanitized build. (7) %d whole texts "
                "through the pretty-printing back end (every document of (5), every query of (6) and of the C03 forms, the C05 constructs, "
                "25 statement forms in 4 surroundings and both syntaxes, the dynamic-template expressions and queries)."
                % (len(cfgs), len(growth_families()), sizes, len(length_docs(t)), len(semantic_docs(t)) + len(dynamic_docs(t)) + len(initialiser_docs(t)) + len(edge_combination_docs(t)) + len(instantiation_docs(t)), len(ill_queries()[1]), len(pretty_items(t))))
    rep.nontrivial_count = states + len(xml_docs(t))
    rep.assumptions = ["digest pruning is sound if the digest covers everything later callbacks read (argued in DESIGN.md §3/C01); the "
                       "'shape' digest runs are heuristic and are not counted as exhaustive",
                       "a search whose budget is exceeded is reported under pm_truncated and makes the run non-exhaustive",
                       "time proportionality is judged by ratio tests on families (x4 slack), not proved"]
    sys.exit(rep.finish(cov))


if __name__ == "__main__":
    main()
