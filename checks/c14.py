#!/usr/bin/env python3
"""C14 — typing of commutative operators and inline-if is symmetric in its
operands; reference parameters accept exactly equivalent types, whichever side
carries the wrapper.  Full matrix over an operand pool, metamorphic oracle."""
import os
import sys

sys.path.insert(0, os.path.join(os.path.dirname(os.path.abspath(__file__)), "..", "lib"))
import engine
import xmlgen

PID = "C14"

DECL = """int i; int[0,3] j; const int ci = 2; bool bb; bool b2; double d; clock x, y;
typedef scalar[3] S1; typedef scalar[3] S2; S1 s1, s1b; S2 s2;
typedef struct { int a; int b; } ST; ST st, st2; typedef struct { int a; bool b; } SU; SU su;
int ar[2], ar2[2]; int ar3[3]; chan c, c2; broadcast chan bc; int f1(int q) { return q; } double fd() { return 1.0; }
typedef S1 S1a; S1a s1a; typedef S1a S1aa; S1aa s1aa; typedef ST STa; STa sta; typedef int[0,3] R3; typedef R3 R3a; R3a j2;
typedef int A2[2]; typedef A2 A2a; A2a ara; typedef clock CK; typedef CK CKa; CKa xa; meta int mi;
const ST kst = {1, 2}; const int kar[2] = {1, 2}; const int[0,3] kj = 1; void wri(int &r) { r = 1; } void wrj(int[0,3] &r) { r = 1; } void wrs(ST &r) { r.a = 1; }
typedef struct { double v; int k; } SD; SD sd; typedef struct { int v; int k; } SI; SI si; typedef struct { bool v; int k; } SB; SB sb;
typedef struct { int v[2]; int k; } SAI; SAI sai; typedef struct { double v[2]; int k; } SAD; SAD sad; typedef struct { SI in; } NI; NI ni; typedef struct { SD in; } ND; ND nd;
double dar[2]; bool bar[2]; typedef struct { int k; int v; } SIr; SIr sir;
const int N4 = 4; int[0,N4] jn; int[0,4] j4; int[0,2+2] jp; int an[N4]; int a4[4]; int ap[2+2]; int[0,N4] arn[2]; int[0,4] ar4[2];
"""
POOL_Q = ["i", "j", "ci", "bb", "d", "x", "x - y", "s1", "s2", "st", "ar", "c", '"abc"', "i + 1", "d * 2.0", "1", "1.5",
          "s1a", "s1aa", "sta", "j2", "ara", "xa", "mi", "jn", "j4", "an", "a4", "ap", "arn", "ar4",
          # records with the same field names and different member types, arrays of different element types
          "sd", "si", "sb", "sai", "sad", "ni", "nd", "dar", "bar", "sir"]
POOL_T = POOL_Q + ["s1b", "st2", "su", "ar2", "ar3", "bc", "true", "f1(i)", "fd()", "st.a", "ar[0]", "x + 1", "-i", "!bb",
                   "i < j", "x < 5", "x - y < 3", "bb && x < 5"]
OPS = ["+", "*", "==", "!=", "&&", "||", "&", "|", "^", "<?", ">?"]
WORD_OPS = {"&&": "and", "||": "or"}


def pool():
    return POOL_T      # both tiers (seconds)


def verdict(r):
    if r.get("exc") is not None or r.get("tc_exc"):
        return ("exc", r.get("exc") or r.get("tc_exc"))
    if r.get("perr"):
        return ("syntax", None)
    return ("rejected" if r.get("terr") else "accepted", r.get("tbase") if not r.get("terr") else None)


def call_exprs(w, decl, items):
    out = []
    for k in range(0, len(items), 400):
        r = w.call_safe({"op": "exprs", "ctx": {"kind": "decl", "text": decl}, "items": items[k:k + 400]}, timeout=60)
        if r.get("died"):
            # pinpoint
            for it in items[k:k + 400]:
                r1 = w.call_safe({"op": "exprs", "ctx": {"kind": "decl", "text": decl}, "items": [it]}, timeout=30)
                out.append(r1 if r1.get("died") else r1["results"][0])
            continue
        if r["ctx"]["errors"] or r["ctx"]["exc"]:
            raise RuntimeError("C14 generator bug: declaration context rejected: %s" % r["ctx"])
        out.extend(r["results"])
    return out


def shard_binary(args):
    a_list, P = args
    part = engine.Part()
    w = engine.worker("fast")
    items = []
    for a in a_list:
        for b in P:
            for op in OPS:
                items.append(("(%s) %s (%s)" % (a, op, b), "(%s) %s (%s)" % (b, op, a), a, op, b))
    fwd = call_exprs(w, DECL, [it[0] for it in items])
    bwd = call_exprs(w, DECL, [it[1] for it in items])
    for it, r1, r2 in zip(items, fwd, bwd):
        part.count(2)
        rp = {"op": "exprs", "ctx": {"kind": "decl", "text": DECL}, "items": [it[0], it[1]]}
        if engine.check_crash(part, PID, r1, it[0], rp) or engine.check_crash(part, PID, r2, it[1], rp):
            continue
        v1, v2 = verdict(r1), verdict(r2)
        part.outcome("binary:" + v1[0])
        if it[2] != it[4]:
            part.nontrivial_case(it[0])
        if v1 != v2:
            part.violation("binary-asym:%s:%s|%s" % (it[3], *sorted([it[2], it[4]])),
                           "`%s` -> %s but `%s` -> %s" % (it[0], v1, it[1], v2), rp)
        if len(part.samples) < 1 and v1[0] == "accepted" and it[2] != it[4]:
            part.sample({"a_op_b": it[0], "b_op_a": it[1], "verdict": v1})
    return part.result()


def shard_inlineif(args):
    a_list, P = args
    part = engine.Part()
    w = engine.worker("fast")
    items = []
    for a in a_list:
        for b in P:
            items.append(("bb ? (%s) : (%s)" % (a, b), "!bb ? (%s) : (%s)" % (b, a), a, b))
    fwd = call_exprs(w, DECL, [it[0] for it in items])
    bwd = call_exprs(w, DECL, [it[1] for it in items])
    for it, r1, r2 in zip(items, fwd, bwd):
        part.count(2)
        rp = {"op": "exprs", "ctx": {"kind": "decl", "text": DECL}, "items": [it[0], it[1]]}
        if engine.check_crash(part, PID, r1, it[0], rp) or engine.check_crash(part, PID, r2, it[1], rp):
            continue
        v1, v2 = verdict(r1), verdict(r2)
        part.outcome("inlineif:" + v1[0])
        if it[2] != it[3]:
            part.nontrivial_case(it[0])
        if v1 != v2:
            part.violation("inlineif-asym:%s|%s" % tuple(sorted([it[2], it[3]])),
                           "`%s` -> %s but `%s` -> %s" % (it[0], v1, it[1], v2), rp)
        if len(part.samples) < 1 and v1[0] == "accepted" and it[2] != it[3]:
            part.sample({"then_else": it[0], "swapped": it[1], "verdict": v1})
    return part.result()


# ---- inline-if as an l-value: swapping the branches (and negating the condition) must not change whether it is writable ------
LV_POOL = ["i", "ci", "j", "kj", "j2", "st.a", "kst.a", "ar[0]", "kar[0]", "ar[i]", "st", "kst", "mi", "d", "bb", "b2"]
LV_WRITES = ["({L}) = 1", "({L}) += 1", "++({L})", "({L})--", "wri({L})", "wrj({L})", "({L}) = ({L})"]
LV_STRUCT_WRITES = ["({L}) = st2", "wrs({L})", "({L}).a = 1"]


def shard_lvalue_inlineif(a):
    part = engine.Part()
    w = engine.worker("fast")
    items = []
    for b in LV_POOL:
        for wr in (LV_STRUCT_WRITES if a in ("st", "kst") or b in ("st", "kst") else LV_WRITES):
            f = wr.replace("{L}", "bb ? %s : %s" % (a, b))
            g = wr.replace("{L}", "!bb ? %s : %s" % (b, a))
            items.append((f, g, a, b, wr))
    fwd = call_exprs(w, DECL, [it[0] for it in items])
    bwd = call_exprs(w, DECL, [it[1] for it in items])
    for it, r1, r2 in zip(items, fwd, bwd):
        part.count(2)
        rp = {"op": "exprs", "ctx": {"kind": "decl", "text": DECL}, "items": [it[0], it[1]]}
        if engine.check_crash(part, PID, r1, it[0], rp) or engine.check_crash(part, PID, r2, it[1], rp):
            continue
        v1, v2 = verdict(r1), verdict(r2)
        part.outcome("inlineif-lvalue:" + v1[0])
        if it[2] != it[3]:
            part.nontrivial_case(it[0])
        if v1[0] != v2[0]:
            part.violation("inlineif-lvalue-asym:%s|%s" % tuple(sorted([it[2], it[3]])),
                           "`%s` -> %s but `%s` -> %s" % (it[0], v1, it[1], v2), rp)
    return part.result()


# ---- reference parameters ---------------------------------------------------------
# every type goes through a typedef so that `const T &` and `T &` wrap the *same* type
RTYPES = {  # name -> (typedef text, equivalence class per the statement / language rules)
    "TyI": ("typedef int TyI;", "int:default"),
    "TyI2": ("typedef int TyI2;", "int:default"),
    "TyR": ("typedef int[0,3] TyR;", "int:0,3"),
    "TyR2": ("typedef int[0,3] TyR2;", "int:0,3"),
    "TyB": ("typedef bool TyB;", "bool"),
    "TyD": ("typedef double TyD;", "double"),
    "TyS1": ("typedef scalar[3] TyS1;", "scalar:S1"),
    "TyS2": ("typedef scalar[3] TyS2;", "scalar:S2"),
    "TyST": ("typedef struct { int a; int b; } TyST;", "struct:a:int,b:int"),
    "TyST3": ("typedef struct { int a; int b; } TyST3;", "struct:a:int,b:int"),
    "TySU": ("typedef struct { int a; bool b; } TySU;", "struct:a:int,b:bool"),
    "TyA2": ("typedef int TyA2[2];", "array:2:int"),
    "TyA2b": ("typedef int TyA2b[2];", "array:2:int"),
    "TyA3": ("typedef int TyA3[3];", "array:3:int"),
    "TyAS1": ("typedef int TyAS1[TyS1];", "array:S1:int"),
    "TyAS2": ("typedef int TyAS2[TyS2];", "array:S2:int"),
    # aliases of the above (typedef of a typedef); class None = only symmetry is demanded (whether an alias of a scalar set
    # names the same set is not settled by the statement)
    "TyS1a": ("typedef TyS1 TyS1a;", None),
    "TyS1aa": ("typedef TyS1a TyS1aa;", None),
    "TyRa": ("typedef TyR TyRa;", "int:0,3"),
    "TySTa": ("typedef TyST TySTa;", "struct:a:int,b:int"),
    "TyA2a": ("typedef TyA2 TyA2a;", "array:2:int"),
    "TyAS1a": ("typedef int TyAS1a[TyS1a];", None),
    # the same bound / size spelled with a named constant, a literal, an expression (declared before use: see ref_consts)
    "TyRN": ("typedef int[0,N4] TyRN;", None), "TyR4": ("typedef int[0,4] TyR4;", None), "TyRP": ("typedef int[0,2+2] TyRP;", None),
    "TyAN": ("typedef int TyAN[N4];", None), "TyA4": ("typedef int TyA4[4];", None), "TyAP": ("typedef int TyAP[2+2];", None),
    "TyARN": ("typedef int[0,N4] TyARN[2];", None), "TyAR4": ("typedef int[0,4] TyAR4[2];", None),
}
REF_CONSTS = "const int N4 = 4;\n"


def ref_decl():
    d = "".join(v[0] + "\n" for v in RTYPES.values())
    for k in RTYPES:
        d += "%s v_%s; const %s k_%s%s; void f_%s(%s &p) {} void g_%s(const %s &p) {}\n" % (
            k, k, k, k, "" if True else "", k, k, k, k)
    return d


def ref_decl_noconstvars():
    d = REF_CONSTS + "".join(v[0] + "\n" for v in RTYPES.values())
    for k in RTYPES:
        d += "%s v_%s; void f_%s(%s &p) {} void g_%s(const %s &p) {}\n" % (k, k, k, k, k, k)
    return d


def run_refparams(rep):
    part = engine.Part()
    w = engine.worker("fast")
    decl = ref_decl_noconstvars()
    names = list(RTYPES)
    items = []
    for fn in ("f", "g"):
        for a in names:
            for b in names:
                items.append((fn, a, b, "%s_%s(v_%s)" % (fn, b, a)))
    res = call_exprs(w, decl, [it[3] for it in items])
    tab = {}
    for it, r in zip(items, res):
        part.count()
        rp = {"op": "exprs", "ctx": {"kind": "decl", "text": decl}, "items": [it[3]]}
        if engine.check_crash(part, PID, r, it[3], rp):
            continue
        tab[(it[0], it[1], it[2])] = verdict(r)[0]
    for (fn, a, b), v in sorted(tab.items()):
        part.outcome("refparam:" + v)
        part.nontrivial_case("ref:%s:%s:%s" % (fn, a, b))
        rp = {"op": "exprs", "ctx": {"kind": "decl", "text": decl}, "items": ["%s_%s(v_%s)" % (fn, b, a), "%s_%s(v_%s)" % (fn, a, b)]}
        mirror = tab.get((fn, b, a))
        if mirror is not None and mirror != v and a < b:
            part.violation("refparam-asym:%s:%s|%s" % (fn, a, b),
                           "argument of type %s for `%s%s &` is %s but argument of type %s for `%s%s &` is %s" %
                           (a, "const " if fn == "g" else "", b, v, b, "const " if fn == "g" else "", a, mirror), rp)
        expect = "accepted" if RTYPES[a][1] == RTYPES[b][1] else "rejected"
        if RTYPES[a][1] is None or RTYPES[b][1] is None:
            expect = "accepted" if a == b else v
        if v != expect:
            part.violation("refparam-equiv:%s:%s->%s" % (fn, a, b),
                           "argument of type %s (%s) for reference parameter of type %s (%s) is %s, equivalence says %s" %
                           (a, RTYPES[a][1], b, RTYPES[b][1], v, expect), rp)
    part.sample({"call": "f_TyS1(v_TyS1)", "decl": "typedef scalar[3] TyS1; TyS1 v_TyS1; void f_TyS1(TyS1 &p) {}", "verdict": tab.get(("f", "TyS1", "TyS1"))})
    # the same matrix through template instantiation (reference parameters of templates)
    docs, meta = [], []
    for a in names:
        for b in names:
            tdecl = REF_CONSTS + "".join(v[0] + "\n" for v in RTYPES.values()) + "%s v_a;" % a
            t = xmlgen.template("T", params="%s &p" % b, locations=[xmlgen.location("id0", "L0")], init="id0")
            docs.append(xmlgen.nta(tdecl, [t], "P = T(v_a); system P;"))
            meta.append((a, b))
    res = xmlgen.run_docs(w, docs, want=["noinv"])
    ttab = {}
    for (a, b), r, doc in zip(meta, res, docs):
        part.count()
        if engine.check_crash(part, PID, r, "template %s arg for %s& param" % (a, b), {"op": "xml", "buf": doc}):
            continue
        ttab[(a, b)] = "accepted" if xmlgen.accepted(r) else "rejected"
    for (a, b), v in sorted(ttab.items()):
        part.outcome("tplrefparam:" + v)
        part.nontrivial_case("tref:%s:%s" % (a, b))
        doc = docs[meta.index((a, b))]
        if ttab.get((b, a)) is not None and ttab[(b, a)] != v and a < b:
            part.violation("tplrefparam-asym:%s|%s" % (a, b), "template reference parameter: %s->%s& is %s, %s->%s& is %s" %
                           (a, b, v, b, a, ttab[(b, a)]), {"op": "xml", "buf": doc})
        expect = "accepted" if RTYPES[a][1] == RTYPES[b][1] else "rejected"
        if RTYPES[a][1] is None or RTYPES[b][1] is None:
            expect = "accepted" if a == b else v
        if v != expect:
            part.violation("tplrefparam-equiv:%s->%s" % (a, b),
                           "template: argument of type %s for reference parameter of type %s is %s, equivalence says %s" %
                           (a, b, v, expect), {"op": "xml", "buf": doc})
    rep.merge(part.result())


# ---- the swap inside whole documents: contexts that demand a compile-time value, guards, updates --------------------------------
CTX_DECL = ("int i = 1; const int ci = 2; bool bb; const bool OFF = false; const bool ON = true; int fk() { return ci; } int fv() { return i; }\n"
            "bool bk() { return OFF; } bool bv() { return bb; }\n")
CTX_INTS = ["i", "ci", "2", "0", "fk()", "fv()"]
CTX_BOOLS = ["bb", "OFF", "ON", "true", "false", "i > 0", "ci > 0", "bk()", "bv()"]
CTX_INT_OPS = ["+", "*", "&", "|", "^", "<?", ">?", "==", "!="]
CTX_BOOL_OPS = ["&&", "||", "==", "!=", "and", "or"]


def ctx_docs(e, kind):
    """documents with the expression e (int or bool valued) in compile-time contexts and in run-time contexts"""
    import xmlgen as X
    t = lambda params=None, decl="", guard=None, assign=None: X.template(       # noqa: E731
        "T", params=params, decl=decl, locations=[X.location("id0", "L0"), X.location("id1", "L1")], init="id0",
        transitions=[X.transition("id0", "id1", guard=guard, assign=assign)])
    ty = "int" if kind == "int" else "bool"
    size = "(%s) * 0 + 2" % e if kind == "int" else "(%s) ? 2 : 3" % e
    sysl = "P = T(); system P;"
    return {
        "const-initialiser": X.nta(CTX_DECL + "const %s q = %s;" % (ty, e), [t()], sysl),
        "variable-initialiser": X.nta(CTX_DECL, [t(decl="%s q = %s;" % (ty, e))], sysl),
        "array-size": X.nta(CTX_DECL + "int arr[%s];" % size, [t()], sysl),
        "range-bound": X.nta(CTX_DECL, [t(decl="int[0, %s] r;" % size)], sysl),
        "template-argument": X.nta(CTX_DECL, [t(params="const %s p" % ty)], "P = T(%s); system P;" % e),
        "guard": X.nta(CTX_DECL, [t(guard=("(%s) >= 0" % e) if kind == "int" else e)], sysl),
        "update": X.nta(CTX_DECL + "%s tgt;" % ty, [t(assign="tgt = %s" % e)], sysl),
    }


CTX_INTS_T = CTX_INTS + ["i + 1", "ci + 1", "-ci", "fk() + ci", "(OFF ? i : ci)", "(bb ? 1 : 2)"]
CTX_BOOLS_T = CTX_BOOLS + ["!OFF", "!bb", "ci == 2", "OFF && bb", "bb || ON", "i == ci"]


def shard_contexts(arg):
    kind, a = arg
    import xmlgen as X
    part = engine.Part()
    w = engine.worker("fast")
    thorough = engine.tier() == "thorough"
    ints, bools = (CTX_INTS_T, CTX_BOOLS_T) if thorough else (CTX_INTS, CTX_BOOLS)
    pool_, ops = (ints, CTX_INT_OPS) if kind == "int" else (bools, CTX_BOOL_OPS)
    pairs = []
    if kind in ("int", "bool"):
        for b in pool_:
            for op in ops:
                pairs.append(("%s %s %s" % (a, op, b), "%s %s %s" % (b, op, a), "binary:" + op, kind))
    else:           # inline-if: a is the condition
        for x in ints:
            for y in ints:
                pairs.append(("%s ? %s : %s" % (a, x, y), "!(%s) ? %s : %s" % (a, y, x), "inline-if", "int"))
    docs, meta = [], []
    for e1, e2, what, k in pairs:
        d1, d2 = ctx_docs(e1, k), ctx_docs(e2, k)
        for cid in d1:
            docs += [d1[cid], d2[cid]]
            meta.append((e1, e2, what, cid))
    res = X.run_docs(w, docs, want=["noinv"], batch=50)
    for n, (e1, e2, what, cid) in enumerate(meta):
        r1, r2 = res[2 * n], res[2 * n + 1]
        part.count()
        rp = {"op": "xml", "buf": docs[2 * n], "swapped": docs[2 * n + 1]}
        if engine.check_crash(part, PID, r1, e1, rp) or engine.check_crash(part, PID, r2, e2, rp):
            continue
        if e1 != e2:
            part.nontrivial_case("context:%s:%s|%s" % (cid, e1, e2))
        v1 = (X.accepted(r1), sorted(X.msgs(r1)))
        v2 = (X.accepted(r2), sorted(X.msgs(r2)))
        if v1 != v2:
            part.outcome("context:verdict-differs")
            part.violation("context-asymmetric:%s:%s" % (what, cid), "in the context %s `%s` gives %s but `%s` gives %s" %
                           (cid, e1, "accepted" if v1[0] else v1[1][:2], e2, "accepted" if v2[0] else v2[1][:2]), rp)
        else:
            part.outcome("context:same-verdict/" + ("accepted" if v1[0] else "rejected"))
    return part.result()


def main():
    P = pool()
    rep = engine.Report(PID, "exploration",
                        "all ordered pairs (a,b) from an operand pool of %d expressions x %d commutative operators as (a op b) "
                        "vs (b op a); all ordered pairs as `c ? a : b` vs `!c ? b : a`; all ordered pairs of 16 l-values (mutable and const, "
                        "ints, ranges, fields, elements, records) as branches of an inline-if that is written to in 7 ways; all ordered pairs of %d typedef'd types "
                        "as (argument type, reference parameter type) for functions (T&, const T&) and templates (T&); "
                        "non-trivial = the two operands/types differ" % (len(P), len(OPS), len(RTYPES)))
    shards = [([a], P) for a in P]
    for res in engine.pmap(shard_binary, shards):
        rep.merge(res)
    for res in engine.pmap(shard_inlineif, shards):
        rep.merge(res)
    for res in engine.pmap(shard_lvalue_inlineif, LV_POOL):
        rep.merge(res)
    run_refparams(rep)
    for res in engine.pmap(shard_contexts, [("int", a) for a in (CTX_INTS_T if engine.tier() == "thorough" else CTX_INTS)] + [(k_, a) for k_ in ("bool", "cond") for a in (CTX_BOOLS_T if engine.tier() == "thorough" else CTX_BOOLS)]):
        rep.merge(res)
    rep.extra["operand_pool"] = P
    rep.assumptions = ["type kinds are compared after stripping const/range/label wrappers",
                       "the reference-parameter table treats two types as equivalent iff structurally equal "
                       "(scalar sets: same name), as the language defines",
                       "small scope: operand pool listed in coverage.operand_pool"]
    sys.exit(rep.finish())


if __name__ == "__main__":
    main()
