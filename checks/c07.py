#!/usr/bin/env python3
"""C07 — identifiers bind to the innermost preceding declaration in scope.
The name `v` may be declared at nine scope levels with pairwise
distinguishable types int[0,10+level]; every subset of declarations is
rendered into one model with use sites before/after each declaration and
inside/outside each scope, in labels of edges with and without a select
binder, in the system section and in queries; the declaration every use is
bound to is read from the document and compared with a reference lexical
scope resolver (R3)."""
import itertools
import os
import re
import sys

sys.path.insert(0, os.path.join(os.path.dirname(os.path.abspath(__file__)), "..", "lib"))
import engine
import xmlgen as X

PID = "C07"
LEVELS = ["global", "tparam", "tlocal", "fparam", "flocal", "block", "iter", "quant", "select"]
UB = {lv: 10 + i for i, lv in enumerate(LEVELS)}      # upper bound identifies the declaration


# Erroneous declarations that open scopes of their own in which `v` is declared (upper bounds 31..): the parse goes on after
# each of them (error recovery), and none of their declarations may become visible to any later use.
DISTURBANCES = {
    "missing-return": "int[0,99] bad(int[0,31] v) { }\n",
    "unknown-identifier-in-body": "int[0,99] bad(int[0,31] v) { return nosuch_name; }\n",
    "syntax-error-in-statement": "void bad(int[0,31] v) { v = ; }\n",
    "syntax-error-in-nested-block": "void bad(int[0,31] v) { { int[0,32] v; v = ( ; } }\n",
    "duplicate-definition-in-body": "void bad(int[0,31] v) { int[0,32] v; }\n",
    "syntax-error-in-quantifier": "int[0,99] bad(int[0,31] q) { return (forall (v : int[0,33]) v > ) ? 1 : 0; }\n",
    "syntax-error-in-iteration": "void bad(int[0,31] q) { for (v : int[0,34]) { q = ; } }\n",
    "syntax-error-in-parameters": "void bad(int[0,31] v, ) { }\n",
    "bad-struct-field": "typedef struct { int[0,35] v; int[0,1] v; } bad_t;\n",
    "return-in-void": "void bad(int[0,31] v) { return v; }\n",
    "unterminated-initialiser": "int[0,31] bad[2] = { 1, ;\n",
    "call-of-unknown-function": "void bad(int[0,31] v) { nosuch_fn(v); }\n",
    # syntax errors from which the grammar recovers *inside* a quantifier's body (parentheses, call arguments): the block's parse
    # succeeds although the quantifier was never closed (the parentheses / the call enclose the quantifier)
    "recovered-error-in-quantifier-parentheses": "bool bad = (forall (v : int[0,36]) v >= ) || true;\n",
    "recovered-error-in-quantifier-call": "int[0,99] bad = abs(sum (v : int[0,37]) v + );\n",
    "recovered-error-in-nested-quantifiers": "bool bad = (exists (w9 : int[0,1]) forall (v : int[0,38]) v + w9 > ) && true;\n",
}
# disturbances that are syntactically well formed: nothing after them may be skipped, every later declaration must be in the document
SEMANTIC_ONLY = {"missing-return", "unknown-identifier-in-body", "duplicate-definition-in-body", "bad-struct-field", "return-in-void",
                 "call-of-unknown-function"}
PLACES = ["global-before-uses", "global-after-function", "template-local"]


def model(D, late_global=False, disturb=None):
    """D: set of levels at which `v` is declared.  All use sites are present in every model.
    disturb: (kind, place) - an erroneous declaration inserted before use sites."""
    d = lambda lv, text: text if lv in D else ""       # noqa: E731
    dist = lambda place: DISTURBANCES[disturb[0]] if disturb and disturb[1] == place else ""    # noqa: E731
    g = "int[0,99] u0 = v;\n"                                                    # use before the global declaration
    g += d("global", "int[0,%d] v;\n" % UB["global"])
    g += dist("global-before-uses")
    g += "int[0,99] u1 = v;\nchan c[20];\n"
    g += "int[0,99] tg_arr[v + 1];\ntypedef int[0, v + 50] tg_t;\nint[0,99] fsite2(int[0, v + 70] pq) { return pq; }\n"   # type positions
    g += "int[0,99] fsite(int[0,99] dmy%s) {\n" % d("fparam", ", int[0,%d] v" % UB["fparam"])
    g += " int[0,99] a0 = v;\n"                                                  # f_before_local
    g += d("flocal", " int[0,%d] v;\n" % UB["flocal"])
    g += " int[0,99] a1 = v;\n int[0,99] r = 0;\n"                               # f_after_local
    g += " int[0, v + 60] tf_l;\n"                                               # type_function_local
    g += " {\n  int[0,99] b0 = v;\n"                                             # blk_before
    g += d("block", "  int[0,%d] v;\n" % UB["block"])
    g += "  int[0,99] b1 = v;\n  r = b0 + b1;\n }\n"                            # blk_inside
    g += " r = v;\n"                                                             # blk_after
    g += " for (%s : int[0,%d]) { r = v; }\n" % ("v" if "iter" in D else "w1", UB["iter"])      # iter_inside
    g += " r = v;\n"                                                             # iter_after
    g += " r = (forall (%s : int[0,%d]) v >= 0) ? 1 : 0;\n" % ("v" if "quant" in D else "w2", UB["quant"])   # quant_inside
    g += " r = v;\n"                                                             # quant_after
    # statements that *start* with the name right after an unbraced construct that closes a binder's scope: the parser has
    # already read that token (to see that no `else` follows) when it closes the scope
    it = "v" if "iter" in D else "w4"
    g += " r = 101;\n for (%s : int[0,%d]) if (r > 50) r = 1;\n v;\n" % (it, UB["iter"])                    # unbraced_iter_after
    g += " r = 102;\n for (%s : int[0,%d]) for (w5 : int[0,1]) if (r > 50) r = 1;\n v;\n" % (it, UB["iter"])    # unbraced_nested_after
    g += " r = 103;\n for (%s : int[0,%d]) while (r > 50) if (r > 60) r = 1;\n v;\n" % (it, UB["iter"])         # unbraced_while_after
    g += " r = 104;\n for (%s : int[0,%d]) if (r > 50) r = 1; else r = 2;\n v;\n" % (it, UB["iter"])          # unbraced_else_after
    g += " return r;\n}\n"
    g += dist("global-after-function")
    tdecl = dist("template-local") + "int[0,99] t0 = v;\n"                                                # t_before_local
    tdecl += d("tlocal", "int[0,%d] v;\n" % UB["tlocal"])
    tdecl += "int[0,99] t1 = v;\n"                                               # t_after_local
    tdecl += "int[0, v + 90] tt_l;\n"                                            # type_template_local
    tdecl += "int[0,99] lfun() { return v; }\n"                                   # tfun
    tdecl += "int[0,pp] w;\n"
    tdecl += "int[0, pp * 2 + 1] w2;\nint[-pp, pp] w3;\nbool wa[pp];\nstruct { int[0, pp + pp] f; } wr;\n"      # the parameter inside compound bounds and sizes
    # ... and behind names of template-local types
    tdecl += "typedef int[0, pp] wr_t;\nwr_t w5;\nwr_t wa5[2];\ntypedef struct { int[0, pp + 1] f; wr_t g; } wrec_t;\nwrec_t w6;\nint wi5[wr_t];\n"
    params = "const int pp" + d("tparam", ", const int[0,%d] v" % UB["tparam"])
    sel = "%s : int[0,%d]" % ("v" if "select" in D else "w3", UB["select"])
    t = X.template("T", params=params, decl=tdecl,
                   locations=[X.location("id0", "L0", inv="v >= 0"), X.location("id1", "L1")], init="id0",    # inv
                   transitions=[X.transition("id0", "id1", select=sel, guard="v >= 0", sync="c[v]!", assign="t1 = v"),
                                X.transition("id1", "id0", select="s2 : int[0, v + 3]", guard="v >= 1", assign="t0 = v"),
                                X.transition("id1", "id1", guard="forall (qq : int[0, v + 4]) qq >= 0")])
    t2 = X.template("T2", decl="int[0,99] z = v;", locations=[X.location("id2", "M0", inv="v >= 2")], init="id2")   # other template
    system = "int[0,99] sy = v;\nP = T(7%s);\nP2 = T(5%s);\nsystem P, P2, T2;" % (d("tparam", ", 1"), d("tparam", ", 1"))
    if late_global:
        system = "int[0,99] sy = v;\nint[0,19] v;\nint[0,99] sy2 = v;\nP = T(7%s);\nP2 = T(5%s);\nsystem P, P2, T2;" % (d("tparam", ", 1"), d("tparam", ", 1"))
    return X.nta(g, [t, t2], system)


def first(D, *chain):
    for lv in chain:
        if lv in D:
            return lv
    return None


def reference(D):
    """site -> level the use must be bound to (None = unknown identifier)"""
    R = {}
    R["g_before"] = None
    R["g_after"] = first(D, "global")
    fbase = ("fparam", "global")
    R["f_before_local"] = first(D, *fbase)
    fl = ("flocal",) + fbase
    R["f_after_local"] = first(D, *fl)
    R["blk_before"] = first(D, *fl)
    R["blk_inside"] = first(D, "block", *fl)
    R["blk_after"] = first(D, *fl)
    R["iter_inside"] = first(D, "iter", *fl)
    R["iter_after"] = first(D, *fl)
    R["quant_inside"] = first(D, "quant", *fl)
    R["quant_after"] = first(D, *fl)
    for site in ("unbraced_iter_after", "unbraced_nested_after", "unbraced_while_after", "unbraced_else_after"):
        R[site] = first(D, *fl)
    R["t_before_local"] = first(D, "tparam", "global")
    tl = ("tlocal", "tparam", "global")
    R["t_after_local"] = first(D, *tl)
    R["tfun"] = first(D, *tl)
    R["inv"] = first(D, *tl)
    R["e_guard"] = first(D, "select", *tl)
    R["e_sync"] = first(D, "select", *tl)
    R["e_upd"] = first(D, "select", *tl)
    R["e2_guard"] = first(D, *tl)
    R["e2_upd"] = first(D, *tl)
    R["type_global_array_size"] = first(D, "global")
    R["type_global_typedef"] = first(D, "global")
    R["type_function_parameter"] = first(D, "global")
    R["type_function_local"] = first(D, *fl)
    R["type_template_local"] = first(D, *tl)
    R["type_select_range"] = first(D, *tl)
    R["type_quantifier_range"] = first(D, *tl)
    R["other_template_local"] = first(D, "global")
    R["other_template_inv"] = first(D, "global")
    R["system_decl"] = first(D, "global")
    return R


def bound_level(sx):
    """which declaration an occurrence `(IDENTIFIER v:TYPE)` refers to, from the type's upper bound"""
    if sx is None:
        return "<missing>"
    m = re.search(r"\(IDENTIFIER v:([^ ]*(?:\([^)]*\)|<[^>]*>| )*?)<\(CONSTANT:INT 0\)> <\(CONSTANT:INT (\d+)\)>", sx)
    if not m:
        if "(CONSTANT:BOOL 0)" in sx and "IDENTIFIER v" not in sx:
            return None
        return "<other:%s>" % sx[:60]
    ub = int(m.group(2))
    for lv, u in UB.items():
        if u == ub:
            return lv
    return "late-global" if ub == 19 else "<ub%d>" % ub


def balanced(s, i):
    """the parenthesised term starting at s[i] == '('"""
    depth = 0
    for j in range(i, len(s)):
        if s[j] == "(":
            depth += 1
        elif s[j] == ")":
            depth -= 1
            if depth == 0:
                return s[i:j + 1]
    return s[i:]


def var_init(body, name):
    i = body.find("(var %s " % name)
    return balanced(body, i + len("(var %s " % name)) if i >= 0 else None


def occurrences(body):
    """the right-hand sides of every `r = <operand>` statement of the function body, in source order"""
    out = []
    for m in re.finditer(r"\(expr \(ASSIGN \(IDENTIFIER r:", body):
        lhs = balanced(body, m.start() + len("(expr (ASSIGN "))
        k = m.start() + len("(expr (ASSIGN ") + len(lhs) + 1
        out.append(balanced(body, k))
    return out


def after_marker(body, marker):
    """the expression statement `v;` that follows the loop after `r = <marker>;`"""
    i = body.find("(CONSTANT:INT %d)" % marker)
    if i < 0:
        return None
    # skip the loop statement: the next *expression statement* at the same nesting level as the marker's own statement
    depth, j = 0, body.rfind("(expr ", 0, i)
    j = j + len(balanced(body, j))           # end of the marker statement
    # the loop follows, then the site
    k = body.find("(", j)
    if k < 0:
        return None
    loop = balanced(body, k)
    k2 = body.find("(expr ", k + len(loop))
    return balanced(body, k2 + len("(expr ")) if k2 >= 0 else None


def observe(dump):
    O = {}
    gv = {v["name"]: v["init"] for v in dump["globals"]["vars"]}
    O["g_before"] = gv.get("u0")
    O["g_after"] = gv.get("u1")
    O["system_decl"] = gv.get("sy")
    fb = [f for f in dump["globals"]["funcs"] if f["name"] == "fsite"]
    body = fb[0]["body"] if fb else ""
    fl = {v["name"]: v["init"] for v in (fb[0]["locals"] if fb else [])}
    O["f_before_local"], O["f_after_local"] = fl.get("a0"), fl.get("a1")
    O["blk_before"], O["blk_inside"] = fl.get("b0"), fl.get("b1")
    occ = occurrences(body)
    # r = b0 + b1 ; r = v (blk_after) ; [iteration body] ; r = v ; r = quantifier ; r = v
    names = [None, "blk_after", "iter_inside", "iter_after", "quant_inside", "quant_after"]
    for k, n in enumerate(names):
        if n:
            O[n] = occ[k] if k < len(occ) else None
    for marker, site in ((101, "unbraced_iter_after"), (102, "unbraced_nested_after"), (103, "unbraced_while_after"), (104, "unbraced_else_after")):
        O[site] = after_marker(body, marker)
    if O.get("quant_inside") and "(GE " in O["quant_inside"]:
        O["quant_inside"] = O["quant_inside"][O["quant_inside"].index("(GE "):]     # the use in the body, not the binder
    t = dump["templates"][0]
    tv = {v["name"]: v["init"] for v in t["decl"]["vars"]}
    O["t_before_local"] = tv.get("t0")
    O["t_after_local"] = tv.get("t1")
    lf = [f for f in t["decl"]["funcs"] if f["name"] == "lfun"]
    O["tfun"] = lf[0]["body"] if lf else None
    O["inv"] = t["locations"][0]["inv"]
    e0, e1 = t["edges"][0], t["edges"][1]
    O["e_guard"], O["e_sync"], O["e_upd"] = e0["guard"], e0["sync"], rhs(e0["assign"])
    O["e2_guard"], O["e2_upd"] = e1["guard"], rhs(e1["assign"])
    gf = {x["name"]: x["type"] for x in dump["globals"]["frame"]}
    O["type_global_array_size"] = gf.get("tg_arr")
    O["type_global_typedef"] = gf.get("tg_t")
    O["type_function_parameter"] = gf.get("fsite2")
    m_ = re.search(r"tf_l:(\(RANGE .*?\)>\))", body)
    O["type_function_local"] = m_.group(1) if m_ else None
    O["type_template_local"] = {x["name"]: x["type"] for x in t["decl"]["frame"]}.get("tt_l")
    O["type_select_range"] = e1["select"] if len(t["edges"]) > 1 else None
    O["type_quantifier_range"] = t["edges"][2]["guard"] if len(t["edges"]) > 2 else None
    t2 = dump["templates"][1]
    O["other_template_local"] = {v["name"]: v["init"] for v in t2["decl"]["vars"]}.get("z")
    O["other_template_inv"] = t2["locations"][0]["inv"]
    return O


def rhs(assign):
    m = re.match(r"\(ASSIGN \(IDENTIFIER t[01]:[^ ]* <\(CONSTANT:INT 0\)> <\(CONSTANT:INT 99\)>\)\) (.*)\)$", assign or "")
    return m.group(1) if m else assign


def subsets():
    for bits in itertools.product((0, 1), repeat=len(LEVELS)):
        D = {lv for lv, b in zip(LEVELS, bits) if b}
        # a parameter and a local of the same name share one frame in UPPAAL: duplicate definition, no binding question
        if {"tparam", "tlocal"} <= D or {"fparam", "flocal"} <= D:
            continue
        yield D


def quick_subsets():
    core = ["global", "tlocal", "flocal", "block", "quant", "select"]
    for bits in itertools.product((0, 1), repeat=len(core)):
        yield {lv for lv, b in zip(core, bits) if b}
    for extra in ("tparam", "fparam", "iter"):
        for g in (0, 1):
            yield ({extra} | ({"global"} if g else set()))


def run_shard(arg):
    i, n, t = arg
    part = engine.Part()
    w = engine.worker("fast")
    Ds = [D for k, D in enumerate(subsets()) if k % n == i]       # both tiers: all admissible subsets
    docs = [model(D) for D in Ds]
    res = X.run_docs(w, docs, want=["dump", "typeexprsyms"], batch=20)
    for D, doc, r in zip(Ds, docs, res):
        key = "+".join(sorted(D)) or "none"
        rp = {"op": "xml", "buf": doc, "want": ["dump"], "declared_at": sorted(D)}
        part.count()
        if engine.check_crash(part, PID, r, key, rp):
            continue
        if r.get("exc") is not None or "dump" not in r:
            part.violation("exception:" + str(r.get("exc")), "model with v declared at %s: %s" % (key, r.get("exc")), rp)
            continue
        O = observe(r["dump"])
        R = reference(D)
        unknown_expected = 0
        for site, exp in R.items():
            part.count()
            got = bound_level(O.get(site))
            part.nontrivial_case(key + ":" + site)
            if exp is None:
                unknown_expected += 1
            if got == exp:
                part.outcome("bound-as-scoped" if exp else "reported-unknown")
            else:
                part.outcome("misbound")
                part.violation("misbound:%s:expected-%s:got-%s" % (site, exp, got),
                               "with `v` declared at {%s}, the use at site %s is bound to %s; lexical scoping says %s" %
                               (key, site, got, exp), rp)
        unk = [e for e in r["errors"] if "Unknown_identifier" in e["msg"] and e["msg"].endswith(" v")]
        if len(unk) != unknown_expected:
            part.violation("unknown-count:%s" % ("more" if len(unk) > unknown_expected else "fewer"),
                           "v declared at {%s}: %d uses have no declaration in scope but %d unknown-identifier diagnostics "
                           "are reported" % (key, unknown_expected, len(unk)), rp)
        if len(part.samples) < 1:
            part.sample({"declared_at": sorted(D), "bindings": {s: bound_level(O.get(s)) for s in list(R)[:8]}})
        # queries: plain name -> global; P.v -> the declaration of P's template; argument substitution in P.w
        qs = ["E<> v >= 0", "E<> P.v >= 0", "E<> P.w >= 0", "E<> T2.v >= 0"]
        qr = w.call_safe({"op": "queries", "ctx": {"kind": "xml", "text": doc}, "items": qs, "symtypes": True}, timeout=60)
        if qr.get("died"):
            engine.check_crash(part, PID, qr, "queries on " + key, rp)
            continue
        # two processes of one template in one query: each member access carries its own process's arguments
        for q2, order in (("E<> P.w >= 0 && P2.w >= 0", (7, 5)), ("E<> P2.w >= 0 && P.w >= 0", (5, 7)), ("E<> P.w + P2.w + P.w >= 0", (7, 5, 7))):
            qr2 = w.call_safe({"op": "queries", "ctx": {"kind": "xml", "text": doc}, "items": [q2], "symtypes": True}, timeout=60)
            part.count()
            if qr2.get("died"):
                engine.check_crash(part, PID, qr2, "query " + q2, rp)
                continue
            sx2 = qr2["results"][0].get("sexpr") or ""
            got2 = tuple(int(x) for x in re.findall(r":w:\(RANGE \(INT\) <\(CONSTANT:INT 0\)> <\(CONSTANT:INT (\d+)\)>\)", sx2))
            part.nontrivial_case(key + ":query:" + q2)
            if got2 != order:
                part.outcome("query-misbound")
                part.violation("query:member-type-of-wrong-process:%s" % q2.split()[1], "`%s` with P = T(7), P2 = T(5): the members' ranges are %s, expected %s"
                               % (q2, got2, order), {"op": "queries", "ctx": {"kind": "xml", "text": doc}, "items": [q2], "symtypes": True})
            else:
                part.outcome("query-bound")
        # the parameter inside compound bounds, sizes and field types of members: every occurrence is replaced by the process's argument
        for mem in ("w2", "w3", "wa", "wr.f", "w5", "wa5", "w6.f", "w6.g", "w6", "wi5"):
            for proc, arg in (("P", 7), ("P2", 5)):
                q3 = "E<> %s.%s == %s.%s" % (proc, mem, proc, mem)
                qr3 = w.call_safe({"op": "queries", "ctx": {"kind": "xml", "text": doc}, "items": [q3], "symtypes": True}, timeout=60)
                part.count()
                qrp3 = {"op": "queries", "ctx": {"kind": "xml", "text": doc}, "items": [q3], "symtypes": True}
                if qr3.get("died"):
                    engine.check_crash(part, PID, qr3, "query " + q3, qrp3)
                    continue
                sx3 = qr3["results"][0].get("sexpr") or ""
                part.nontrivial_case(key + ":query:" + q3)
                dots = re.findall(r"\(DOT:\d+:%s:" % mem.split(".")[0], sx3)
                if not dots:
                    part.violation("query:member-not-typed:%s" % mem, "`%s`: no member access in %s (%s)" % (q3, sx3[:200], qr3["results"][0].get("err")), qrp3)
                elif "IDENTIFIER pp" in sx3 or ("(CONSTANT:INT %d)" % arg) not in sx3:
                    part.outcome("query-misbound")
                    part.violation("query:parameter-left-in-member-type:%s" % mem, "`%s` with %s = T(%d): the member's type still mentions the "
                                   "template parameter (or not the argument): %s" % (q3, proc, arg, sx3[:300]), qrp3)
                else:
                    part.outcome("query-bound")
        exp_q = {0: first(D, "global"), 1: first(D, "tlocal", "tparam"), 3: None}
        for qi, q in enumerate(qs):
            part.count()
            x = qr["results"][qi]
            sx = x.get("sexpr")
            part.nontrivial_case(key + ":query:" + q)
            qrp = {"op": "queries", "ctx": {"kind": "xml", "text": doc}, "items": [q], "symtypes": True}
            if qi == 2:
                ok = sx is not None and "(DOT:" in sx and ":w:(RANGE (INT) <(CONSTANT:INT 0)> <(CONSTANT:INT 7)>)" in sx
                if not ok:
                    part.outcome("query-misbound")
                    part.violation("query:P.w-arguments-not-substituted", "`%s` with P = T(7): %s" % (q, sx or x.get("err")), qrp)
                else:
                    part.outcome("query-bound")
                continue
            if sx is None:
                got = None
            elif qi == 0:
                got = bound_level(sx)
            else:
                m = re.search(r"\(DOT:\d+:v:[^<]*<\(CONSTANT:INT 0\)> <\(CONSTANT:INT (\d+)\)>", sx)
                got = next((lv for lv, u in UB.items() if m and u == int(m.group(1))), "<other>") if m else "<other>"
            if got != exp_q[qi]:
                part.outcome("query-misbound")
                part.violation("query-misbound:%s:expected-%s:got-%s" % (q.split()[1], exp_q[qi], got),
                               "v declared at {%s}: query `%s` binds to %s, expected %s (%s)" %
                               (key, q, got, exp_q[qi], [e["msg"] for e in x.get("err", [])][:1]), qrp)
            else:
                part.outcome("query-bound" if got else "query-unknown")
    return part.result()


def run_disturbed(arg):
    """the same use sites after an erroneous declaration that opened (and must have closed) scopes declaring `v`"""
    i, n, t = arg
    part = engine.Part()
    w = engine.worker("fast")
    cases = []
    Ds = list(subsets() if t == "thorough" else quick_subsets())
    if t != "thorough":
        Ds = [D for D in Ds if len(D) <= 2]
    for kind in DISTURBANCES:
        for place in PLACES:
            for D in Ds:
                cases.append((kind, place, D))
    cases = [c for k, c in enumerate(cases) if k % n == i]
    docs = [model(D, disturb=(kind, place)) for kind, place, D in cases]
    res = X.run_docs(w, docs, want=["dump", "typeexprsyms"], batch=20)
    for (kind, place, D), doc, r in zip(cases, docs, res):
        key = "+".join(sorted(D)) or "none"
        rp = {"op": "xml", "buf": doc, "want": ["dump"], "declared_at": sorted(D), "disturbance": kind, "place": place}
        part.count()
        if engine.check_crash(part, PID, r, "%s/%s/%s" % (kind, place, key), rp):
            continue
        if r.get("exc") is not None or "dump" not in r:
            part.violation("exception:" + str(r.get("exc")), "disturbed model %s/%s: %s" % (kind, place, r.get("exc")), rp)
            continue
        if not r.get("errors"):
            raise RuntimeError("disturbance %s at %s is not diagnosed - generator bug" % (kind, place))
        try:
            O = observe(r["dump"])
        except (IndexError, KeyError):
            part.violation("structure-lost:%s:%s" % (kind, place), "after the erroneous declaration %s (%s) the document lacks templates/functions "
                           "that follow it" % (kind, place), rp)
            continue
        # error recovery may swallow declarations that follow the erroneous one in the same block (legitimately: the
        # text up to the recovery point is skipped); the reference is computed from the declarations that are in the document
        D_eff = set(D)
        dump = r["dump"]
        if "global" in D and not any(v["name"] == "v" for v in dump["globals"]["vars"]):
            D_eff.discard("global")
        if "tlocal" in D and not any(v["name"] == "v" for v in dump["templates"][0]["decl"]["vars"]):
            D_eff.discard("tlocal")
        if D_eff != set(D):
            part.outcome("after-error:declaration-swallowed-by-recovery")
        R = reference(D_eff)
        for site, exp in R.items():
            part.count()
            got = bound_level(O.get(site))
            part.nontrivial_case("%s:%s:%s:%s" % (kind, place, key, site))
            if got == exp:
                part.outcome("after-error:bound-as-scoped" if exp else "after-error:reported-unknown")
            elif O.get(site) is None and kind not in SEMANTIC_ONLY:
                part.outcome("after-error:site-lost")       # the declaration carrying the site was swallowed by error recovery
            elif O.get(site) is None:
                part.outcome("after-error:declaration-misplaced")
                part.violation("declaration-lost-after-error:%s:%s:%s" % (kind, place, site),
                               "after the (syntactically well-formed) erroneous declaration `%s` (%s) the declaration carrying use site %s "
                               "is not where it was declared in the document" % (DISTURBANCES[kind].strip(), place, site), rp)
            else:
                part.outcome("after-error:misbound")
                part.violation("misbound-after-error:%s:%s:%s:got-%s" % (kind, place, site, got),
                               "after the erroneous declaration `%s` (%s), with `v` declared at {%s}, the use at site %s is bound to %s; "
                               "lexical scoping says %s" % (DISTURBANCES[kind].strip(), place, key, site, got, exp), rp)
    return part.result()


def run_late(rep):
    """a declaration that textually follows the use (same scope, later line) must not capture it"""
    part = engine.Part()
    w = engine.worker("fast")
    for D in (set(), {"tlocal"}):
        doc = model(D, late_global=True)
        r = X.run_docs(w, [doc], want=["dump"])[0]
        part.count()
        rp = {"op": "xml", "buf": doc, "want": ["dump"]}
        if engine.check_crash(part, PID, r, "late global", rp):
            continue
        gv = {v["name"]: v["init"] for v in r["dump"]["globals"]["vars"]}
        a, b = bound_level(gv.get("sy")), bound_level(gv.get("sy2"))
        part.nontrivial_case("late:" + str(sorted(D)))
        if a is not None:
            part.violation("bound-to-later-declaration", "use before a later declaration in the system section binds to %s" % a, rp)
        elif b != "late-global":
            part.violation("misbound:after-late-declaration", "use after the declaration in the system section binds to %s" % b, rp)
        else:
            part.outcome("bound-as-scoped")
    rep.merge(part.result())


# ---- members of dynamic instances ---------------------------------------------------------------------------------
# `v` may be declared globally, in the template that holds the labels, and in each of two dynamic templates; a binder over the
# instances of a dynamic template gives access to the declarations of that template only (w.v), bare names in the quantified
# body are scoped as everywhere else, and nested binders of one name are a stack.
DYN_LEVELS = ["global", "mlocal", "wlocal", "plocal"]
DYN_UB = {"global": 10, "mlocal": 12, "wlocal": 40, "plocal": 41}
DYN_SITES = [   # (label kind, text, expected bindings of the occurrences of v in source order: "w"/"p" = member of that template, "bare")
    ("guard", "forall (w : Worker)(w.v >= 0)", ["w"]),
    ("guard", "forall (w : Worker)(w.load >= 0 && v >= 1)", ["bare"]),
    ("guard", "forall (w : Worker)(exists (w : Probe)(w.v >= 2) && w.v >= 3)", ["p", "w"]),
    ("guard", "forall (w : Worker)(w.load >= 0) && v >= 4", ["bare"]),
    ("guard", "forall (v : Worker)(v.load >= 5) && v >= 6", ["bare"]),
    ("guard", "exists (w : Probe)(w.v >= 8 && forall (r : Worker)(r.v >= w.v))", ["p", "w", "p"]),
    ("assignment", "m = (sum (w : Worker)(w.v + v))", ["w", "bare"]),
    ("guard", "forall (w : Worker)(forall (w : Worker)(w.v >= 9) && w.v >= v)", ["w", "w", "bare"]),
    ("guard", "v >= 11 && exists (w : Probe)(w.level >= v)", ["bare", "bare"]),
    ("guard", "forall (w : Worker)(w.nosuch >= 0 && v >= 7)", None),     # always erroneous: only the diagnostics are compared
]


def dynamic_model(D):
    d = lambda lv: "int[0,%d] v; " % DYN_UB[lv] if lv in D else ""      # noqa: E731
    edges = []
    for kind, text, _ in DYN_SITES:
        edges.append(X.transition("id0", "id0", **{"assign" if kind == "assignment" else kind: text}))
    return X.nta("dynamic Worker(int[0,3] wk); dynamic Probe(); " + d("global"),
                 [X.template("Worker", params="int[0,3] wk", decl="int load = 1; " + d("wlocal"), locations=[X.location("w0", "Idle")], init="w0"),
                  X.template("Probe", decl="int level = 1; " + d("plocal"), locations=[X.location("p0", "Wait")], init="p0"),
                  X.template("Main", decl="int m; " + d("mlocal"), locations=[X.location("id0", "A")], init="id0", transitions=edges)],
                 "M = Main(); system M;")


def run_dynamic(arg):
    part = engine.Part()
    w = engine.worker("fast")
    for bits in itertools.product((0, 1), repeat=len(DYN_LEVELS)):
        D = {lv for lv, b in zip(DYN_LEVELS, bits) if b}
        key = "dynamic:" + ("+".join(sorted(D)) or "none")
        doc = dynamic_model(D)
        r = X.run_docs(w, [doc], want=["dump"])[0]
        rp = {"op": "xml", "buf": doc, "want": ["dump"], "declared_at": sorted(D)}
        part.count()
        if engine.check_crash(part, PID, r, key, rp):
            continue
        if r.get("exc") is not None or "dump" not in r:
            part.violation("exception:" + str(r.get("exc")), "%s: %s" % (key, r.get("exc")), rp)
            continue
        ref = {"w": "wlocal" if "wlocal" in D else None, "p": "plocal" if "plocal" in D else None,
               "bare": first(D, "mlocal", "global")}
        edges = r["dump"]["templates"][0]["edges"]
        for k, (kind, text, exp) in enumerate(DYN_SITES):
            part.count()
            part.nontrivial_case("%s:%s" % (key, text))
            path = "/nta/template[3]/transition[%d]/label[1]" % (k + 1)
            here = [e["msg"] for e in r["errors"] if e["path"] == path]
            unk = [m for m in here if "Unknown_identifier" in m and m.endswith(" v")]
            want = [ref[x] for x in (exp if exp is not None else ["bare"])]
            n_unknown = sum(1 for x in want if x is None)
            other = [m for m in here if m not in unk and not (exp is None and m.endswith(" nosuch"))]
            if len(unk) != n_unknown or other:
                part.outcome("dynamic:misbound")
                part.violation("dynamic:diagnostics:%d:%s" % (k, "more" if len(unk) > n_unknown else "fewer" if len(unk) < n_unknown else "other"),
                               "v declared at {%s}: label `%s` has %d uses of v without a declaration in scope, diagnostics there: %s"
                               % (key, text, n_unknown, here), rp)
                continue
            if n_unknown or exp is None:
                part.outcome("dynamic:reported-unknown")
                continue
            sx = edges[k]["guard" if kind == "guard" else "assign"] or ""
            got = [next((lv for lv, u in DYN_UB.items() if u == int(ub)), "<ub%s>" % ub) for ub in
                   re.findall(r"\(IDENTIFIER v:\(RANGE \(INT\) <\(CONSTANT:INT 0\)> <\(CONSTANT:INT (\d+)\)>", sx)]
            if got != want:
                part.outcome("dynamic:misbound")
                part.violation("dynamic:misbound:%d:expected-%s:got-%s" % (k, "/".join(want), "/".join(got)),
                               "v declared at {%s}: in `%s` the uses of v are bound to %s; scoping says %s" % (key, text, got, want), rp)
            else:
                part.outcome("dynamic:bound-as-scoped")
        # SMC queries: bare names see globals only
        qs = [("Pr[<=10](<> forall (w : Worker)(w.v >= 0 && v >= 1))", ["w", "g"]),
              ("Pr[<=10](<> exists (w : Probe)(forall (w : Worker)(w.v >= 0) && w.v >= v))", ["w", "p", "g"])]
        for q, exp in qs:
            qr = w.call_safe({"op": "queries", "ctx": {"kind": "xml", "text": doc}, "items": [q], "symtypes": True}, timeout=60)
            part.count()
            qrp = {"op": "queries", "ctx": {"kind": "xml", "text": doc}, "items": [q], "symtypes": True}
            if qr.get("died"):
                engine.check_crash(part, PID, qr, "query " + q, qrp)
                continue
            part.nontrivial_case(key + ":" + q)
            x = qr["results"][0]
            want = [{"w": ref["w"], "p": ref["p"], "g": first(D, "global")}[e] for e in exp]
            if None in want:
                unk = [e for e in x.get("err", []) if "Unknown_identifier" in e["msg"] and e["msg"].endswith(" v")]
                if len(unk) != sum(1 for e in want if e is None):
                    part.outcome("dynamic:query-misbound")
                    part.violation("dynamic:query-diagnostics", "v declared at {%s}: query `%s`: %d uses have no declaration, diagnostics %s"
                                   % (key, q, sum(1 for e in want if e is None), [e["msg"] for e in x.get("err", [])]), qrp)
                else:
                    part.outcome("dynamic:query-unknown")
                continue
            got = [next((lv for lv, u in DYN_UB.items() if u == int(ub)), "<ub%s>" % ub) for ub in
                   re.findall(r"\(IDENTIFIER v:\(RANGE \(INT\) <\(CONSTANT:INT 0\)> <\(CONSTANT:INT (\d+)\)>", x.get("sexpr") or "")]
            if got != want:
                part.outcome("dynamic:query-misbound")
                part.violation("dynamic:query-misbound:expected-%s:got-%s" % ("/".join(want), "/".join(got)),
                               "v declared at {%s}: query `%s` binds v to %s, scoping says %s (%s)" % (key, q, got, want, x.get("err")), qrp)
            else:
                part.outcome("dynamic:query-bound")
    return part.result()


def run_dynamic_parameters(_):
    """a dynamic template is announced (`dynamic D(params);`) and defined later with its own parameter list: every use of a
    parameter name inside the definition (labels, local functions, local initialisers, types) is bound to the parameter the
    template has - same symbol, so same type - for announcements and definitions spelled alike and with a different precision"""
    part = engine.Part()
    w = engine.worker("fast")
    spell = {"alike": ("int[0,3] wk", "int[0,3] wk"), "definition-more-precise": ("int wk", "int[0,41] wk"),
             "announcement-more-precise": ("int[0,41] wk", "int wk"), "const": ("const int[0,3] wk", "const int[0,3] wk")}
    for sid, (ann, dfn) in spell.items():
        for order in ("definition-first", "definition-last"):
            for gl in ("", "bool wk; "):        # a global of the same name must never be what the uses bind to
                worker = X.template("Worker", params=dfn, decl="int lw() { return wk; } int li = 1; int[0, 50] lr;",
                                    locations=[X.location("w0", "Idle", inv="wk >= 2"), X.location("w1", "B")], init="w0",
                                    transitions=[X.transition("w0", "w1", guard="wk >= 0", assign="li = wk")])
                main_t = X.template("Main", locations=[X.location("id0", "A")], init="id0")
                doc = X.nta(gl + "dynamic Worker(%s); int g;" % ann, [worker, main_t] if order == "definition-first" else [main_t, worker], "system Main;")
                r = X.run_docs(w, [doc], want=["dump"])[0]
                key = "dynamic-parameter:%s:%s:%s" % (sid, order, "global-of-that-name" if gl else "no-global")
                rp = {"op": "xml", "buf": doc, "want": ["dump"]}
                part.count()
                if engine.check_crash(part, PID, r, key, rp):
                    continue
                part.nontrivial_case(key)
                if r.get("errors") or r.get("exc") or not r["dump"].get("dyn_templates"):
                    part.outcome("dynamic-parameter:not-accepted")
                    continue
                t = r["dump"]["dyn_templates"][0]
                ptype = t["params"][0]["type"] if t["params"] else None
                uses = {"guard": t["edges"][0]["guard"], "update": t["edges"][0]["assign"], "invariant": t["locations"][0]["inv"],
                        "local-function": t["decl"]["funcs"][0]["body"] if t["decl"]["funcs"] else ""}
                bad = [(site, sx) for site, sx in uses.items() if ("(IDENTIFIER wk:%s)" % ptype) not in (sx or "")]
                if bad:
                    part.outcome("dynamic-parameter:misbound")
                    part.violation("dynamic-parameter:use-not-bound-to-parameter:%s:%s" % (sid, bad[0][0]),
                                   "%s: the template's parameter is wk:%s but the use in the %s is %s" % (key, ptype, bad[0][0], (bad[0][1] or "")[:200]), rp)
                else:
                    part.outcome("dynamic-parameter:bound-to-the-parameter")
    return part.result()


def run_process_sets(_):
    """templates with free parameters listed in the system line are process sets; S(1,0).v in a query is the v of S's template
    (never a global of that name), for every subset of {global, S, U} declaring v"""
    part = engine.Part()
    w = engine.worker("fast")
    ub = {"global": 10, "S": 40, "U": 41}
    for bits in itertools.product((0, 1), repeat=3):
        D = {lv for lv, b in zip(("global", "S", "U"), bits) if b}
        d = lambda lv: "int[0,%d] v; " % ub[lv] if lv in D else ""      # noqa: E731
        doc = X.nta(d("global") + "int g;",
                    [X.template("S", params="const int[0,2] sid, const int[0,1] s2", decl=d("S") + "int sl;",
                                locations=[X.location("id0", "M0"), X.location("id1", "M1")], init="id0", transitions=[X.transition("id0", "id1", guard="sid == 1")]),
                     X.template("U", params="const int[0,2] uid", decl=d("U") + "int ul;", locations=[X.location("id2", "N0")], init="id2")],
                    "system S, U;")
        key = "process-set:" + ("+".join(sorted(D)) or "none")
        qs = [("E<> S(1,0).v >= 0", ["S"]), ("E<> U(2).v >= 0", ["U"]), ("E<> S(1,0).v + U(2).v + v >= 0", ["S", "U", "global"]),
              ("E<> forall (i : int[0,2]) S(i,0).v >= i", ["S"]), ("E<> S(U(1).v, 0).v >= U(0).v", ["S", "U", "U"]), ("E<> U(S(0,0).sid).v >= 0", ["U"]),
              ("E<> S(2,1).M1 && v >= 0", ["global"]), ("E<> S(v,0).M0", ["global"])]
        for q, exp in qs:
            rp = {"op": "queries", "ctx": {"kind": "xml", "text": doc}, "items": [q], "symtypes": True}
            qr = w.call_safe(rp, timeout=60)
            part.count()
            if qr.get("died"):
                engine.check_crash(part, PID, qr, "query " + q, rp)
                continue
            if qr["ctx"]["errors"] or qr["ctx"]["exc"]:
                raise RuntimeError("C07 generator bug: process-set model rejected: %s" % str(qr["ctx"])[:300])
            part.nontrivial_case(key + ":" + q)
            x = qr["results"][0]
            want = [lv if lv in D else None for lv in exp]
            if None in want:
                if x.get("sexpr") is not None and not x.get("err"):
                    part.outcome("process-set:misbound")
                    part.violation("process-set:accepted-without-declaration:%s" % q.split()[1],
                                   "v declared at {%s}: query `%s` is accepted although a use of v has no declaration in the process's template "
                                   "(or globally): %s" % (key, q, (x.get("sexpr") or "")[:200]), rp)
                else:
                    part.outcome("process-set:reported")
                continue
            got = [next((lv for lv, u in ub.items() if u == int(b)), "<ub%s>" % b) for b in
                   re.findall(r":\(RANGE \(INT\) <\(CONSTANT:INT 0\)> <\(CONSTANT:INT (1[0]|4[01])\)>\)", x.get("sexpr") or "")]
            # every occurrence (DOT member types and the bare identifier) in the order of the rendering: a member access shows its
            # own type before its operand, so the outer access of S(U(1).v, 0).v comes before the inner one
            if got != want:
                part.outcome("process-set:misbound")
                part.violation("process-set:misbound:%s:expected-%s:got-%s" % (q.split()[1], "/".join(want), "/".join(got)),
                               "v declared at {%s}: query `%s` binds v to %s, scoping says %s (%s)" % (key, q, got, want, [e["msg"] for e in x.get("err", [])][:2]), rp)
            else:
                part.outcome("process-set:bound-as-scoped")
    return part.result()


def run_instance_chains(_):
    """P.x in a query for processes made through chains of partial instances: every argument reaches the member's type, whatever
    the order and the names of the forwarded parameters and whatever was declared in between"""
    part = engine.Part()
    w = engine.worker("fast")
    fills = ["", "int f(int z) { return z; } ", "typedef struct { int x; } Rec; Rec rr; ", "const int K = 2; int arr[K]; "]
    systems = [("Q1", "Q(const int k) = P(k, 2); Q1 = Q(3); system Q1;"),
               ("R1", "Q(const int k) = P(k, 2); R(const int j) = Q(j); R1 = R(3); system R1;"),
               ("Q1", "Q(const int k, const int l) = P(l, k); Q1 = Q(2, 3); system Q1;"),
               ("R1", "int sv; Q(const int k) = P(k, 2); int sw; R(const int j) = Q(j); R1 = R(3); system R1;"),
               ("Q1", "Q(const int b) = P(b, 2); Q1 = Q(3); system Q1;"),
               ("Q1", "Q(const int a) = P(3, a); Q1 = Q(2); system Q1;"),
               ("Q1", "Q(const int b, const int a) = P(b, a); Q1 = Q(3, 2); system Q1;"),
               ("S1", "Q(const int b, const int a) = P(a, b); R(const int a) = Q(a, 3); S1 = R(2); system S1;"),
               ("S1", "Q(const int k, const int l) = P(l, k); R(const int l, const int k) = Q(k, l); S1 = R(3, 2); system S1;"),
               ("P1", "P1 = P(3, 2); system P1;")]
    want = {"m": "(RANGE (INT) <(CONSTANT:INT 0)> <(CONSTANT:INT 3)>)", "w": "(RANGE (INT) <(CONSTANT:INT 2)> <(PLUS (CONSTANT:INT 3) (CONSTANT:INT 2))>)",
            "c": "(ARRAY (BOOL) (RANGE (INT) <(CONSTANT:INT 0)> <(MINUS (CONSTANT:INT 3) (CONSTANT:INT 1))>))"}
    for pg, pt, (pn, sy) in itertools.product(fills, fills, systems):
        doc = X.nta(pg + "int g;", [X.template("P", params="const int a, const int b", decl=pt + "int[0,a] m; int[b,a+b] w; bool c[a];",
                                               locations=[X.location("id0", "L0")], init="id0")], sy)
        qs = [("m", "E<> %s.m >= 0" % pn), ("w", "E<> %s.w >= 0" % pn), ("c", "E<> %s.c[0]" % pn)]
        rp = {"op": "queries", "ctx": {"kind": "xml", "text": doc}, "items": [q for _, q in qs], "symtypes": True}
        r = w.call_safe(rp, timeout=60)
        part.count()
        if r.get("died"):
            engine.check_crash(part, PID, r, "instance chain " + sy, rp)
            continue
        if r["ctx"]["errors"] or r["ctx"]["exc"]:
            raise RuntimeError("C07 generator bug: instance-chain model rejected: %s %s" % (sy, str(r["ctx"])[:300]))
        for (mem, q), x in zip(qs, r["results"]):
            part.count()
            part.nontrivial_case("instance-chain:%s|%s|%s|%s" % (pg[:12], pt[:12], sy, mem))
            sx = x.get("sexpr") or ""
            if (":%s:%s " % (mem, want[mem])) not in sx:
                part.outcome("instance-chain:misbound")
                part.violation("instance-chain:member-type:%s:%s" % (mem, re.sub(r"\d+", "N", sy.split(";")[0])[:60]),
                               "`%s` with `%s` (effectively P(3, 2)): the member's type is not %s: %s %s" %
                               (q, sy, want[mem], sx[:260], [e["msg"] for e in x.get("err", [])][:2]), dict(rp, items=[q]))
            else:
                part.outcome("instance-chain:arguments-substituted")
    return part.result()


# ---- how far a binder's scope extends: the whole unparenthesised body, whatever operators it is built from ------------------------
EXTENT_BODIES = {
    "sum": ["v", "v + v", "w > 0 ? v : 0", "w > 0 ? 0 : v", "v > 0 ? v : v + 1", "w > 0 || v > 0 ? v : 1", "w > 0 ? v : w > 1 ? v + 1 : v + 2",
            "v * 2 + (w > 0 ? v : 3)", "w > 0 && v > 0 ? 1 : v", "- v", "v >? w", "v + (sum (u : int[0,1]) v + u)", "v + sum (u : int[0,1]) u + v",
            "v + sum (u : int[0,1]) sum (t : int[0,1]) u + t + v", "sum (u : int[0,1]) (sum (t : int[0,1]) t + v) + u + v"],
    "forall": ["v > 0", "w > 0 || v > 0", "w > 0 && v > 0", "w > 0 imply v > 0", "v > 0 imply w > 0 || v > 1", "w > 0 ? v > 0 : v > 1",
               "! (w > 0) ? v > 0 : true", "w > 0 or v > 0", "w > 0 and v > 0", "w > 0 and v > 0 or v > 1", "not (v > 0)", "forall (u : int[0,1]) v > u",
               "w > 0 ? v > 0 : w > 1 ? v > 2 : v > 3", "exists (u : int[0,1]) u > 0 ? v > 0 : v > 1", "v > 0 == (w > 0)", "w > 0 != v > 0",
               "forall (u : int[0,1]) forall (t : int[0,1]) v > u + t", "exists (u : int[0,1]) (forall (t : int[0,1]) t + v > 0) && u < v"],
}
EXTENT_BODIES["exists"] = EXTENT_BODIES["forall"]


def run_extents(_):
    part = engine.Part()
    w = engine.worker("fast")
    g = "int[0,10] v; int[0,99] w; int[0,99] r;\n"
    cells = []
    for q, bodies in EXTENT_BODIES.items():
        for b in bodies:
            e = "%s (v : int[0,17]) %s" % (q, b)
            uses = len(re.findall(r"\bv\b", b)) + 1
            if q == "sum":
                ctxs = {"update": dict(assign="r = " + e), "function-return": dict(decl="int[0,99] lf() { return %s; }" % e, assign="r = lf()"),
                        "update-second": dict(assign="w = 1, r = " + e), "function-initialiser": dict(decl="int[0,99] lf() { int[0,99] t = %s; return t; }" % e)}
            else:
                ctxs = {"guard": dict(guard=e), "invariant": dict(inv=e), "guard-conjunct": dict(guard="w >= 0 && " + e),
                        "function-return": dict(decl="bool lf() { return %s; }" % e, guard="lf()"), "update": dict(assign="r = " + e)}
            for cid, kw in ctxs.items():
                t = X.template("T", decl=kw.get("decl", ""), locations=[X.location("id0", "L0", inv=kw.get("inv")), X.location("id1", "L1")], init="id0",
                               transitions=[X.transition("id0", "id1", guard=kw.get("guard"), assign=kw.get("assign"))])
                cells.append(("%s:%s:%s" % (q, cid, b), uses, cid, X.nta(g, [t], "P = T(); system P;")))
            cells.append(("%s:query:%s" % (q, b), uses, "query", ("E<> " + e) if q != "sum" else ("E<> (%s) >= 0" % e if False else "sup: " + e)))
    docs = [c for c in cells if c[2] != "query"]
    res = X.run_docs(w, [c[3] for c in docs], want=["dump"], batch=40)
    qs = [c for c in cells if c[2] == "query"]
    t0 = X.template("T", locations=[X.location("id0", "L0")], init="id0")
    qr = w.call_safe({"op": "queries", "ctx": {"kind": "xml", "text": X.nta(g, [t0], "P = T(); system P;")}, "items": [c[3] for c in qs], "symtypes": True}, timeout=120)
    if qr.get("died") or qr["ctx"]["errors"]:
        raise RuntimeError("C07 generator bug: extent query context: %s" % str(qr)[:300])

    def judge(key, uses, text, rp):
        part.count()
        ubs = re.findall(r"\(IDENTIFIER v:.*?<\(CONSTANT:INT 0\)> <\(CONSTANT:INT (\d+)\)>", text or "")
        part.nontrivial_case("extent:" + key)
        if len(ubs) != uses:
            part.outcome("extent:occurrences-missing")
            part.violation("binder-extent:count:" + key.split(":")[0] + ":" + key.split(":")[1], "%s: %d occurrences of v expected in the built expression, %d found: %s" %
                           (key, uses, len(ubs), (text or "")[:200]), rp)
        elif any(u != "17" for u in ubs):
            part.outcome("extent:bound-outside-the-binder")
            part.violation("binder-extent:" + key.split(":")[0] + ":" + key.split(":")[1], "%s: a use of v inside the quantifier's body is bound to the global v (upper bounds %s)" %
                           (key, ubs), rp)
        else:
            part.outcome("extent:all-uses-bound-to-the-binder")
    for (key, uses, cid, doc), r in zip(docs, res):
        rp = {"op": "xml", "buf": doc, "want": ["dump"]}
        if engine.check_crash(part, PID, r, key, rp):
            continue
        if not X.accepted(r):
            raise RuntimeError("C07 generator bug: extent model rejected: %s %s" % (key, X.msgs(r)[:2]))
        t = r["dump"]["templates"][0]
        if cid == "function-initialiser":
            text = {v["name"]: v["init"] for v in [f for f in t["decl"]["funcs"] if f["name"] == "lf"][0]["locals"]}.get("t")
        elif cid.startswith("function"):
            text = [f for f in t["decl"]["funcs"] if f["name"] == "lf"][0]["body"]
        elif cid == "invariant":
            text = t["locations"][0]["inv"]
        elif cid.startswith("guard"):
            text = t["edges"][0]["guard"]
        else:
            text = t["edges"][0]["assign"]
        judge(key, uses, text, rp)
    for (key, uses, cid, q), x in zip(qs, qr["results"]):
        rp = {"op": "queries", "ctx": {"kind": "xml", "text": X.nta(g, [t0], "P = T(); system P;")}, "items": [q], "symtypes": True}
        if x.get("sexpr") is None or x.get("err"):
            raise RuntimeError("C07 generator bug: extent query rejected: %s %s" % (q, x.get("err")))
        judge(key, uses, x["sexpr"], rp)
    return part.result()


def main():
    t = engine.tier()
    n_sub = sum(1 for _ in subsets())
    rep = engine.Report(PID, "exploration",
                        "%d subsets of the nine declaration levels of one name (global, template parameter, template local, function "
                        "parameter, function local, nested block, iteration binder, quantifier binder, select binder; pairs that "
                        "share a frame excluded) x 34 use sites per model (before/after each declaration, inside/outside each scope, "
                        "labels of an edge with and without the select binder, invariant, another template, system section, statements that start with the name after unbraced constructs, seven positions inside types: array sizes and range bounds of global/typedef/parameter/function-local/template-local/select/quantifier types) + 4 "
                        "queries (v, P.v, P.w with argument substitution, T2.v); reference lexical resolver R3. Error-recovery histories: the same "
                        "use sites after each of %d erroneous declarations (missing return, unknown names, syntax errors inside "
                        "statements / nested blocks / quantifiers / iterations / parameter lists / initialisers, duplicates) that declare "
                        "the name in scopes of their own, placed at %d positions. Dynamic instances: 16 subsets of {global, enclosing "
                        "template, two dynamic templates} x %d labels with quantifiers over dynamic instances (member of the bound "
                        "instance, bare names in the body and after it, nested binders of one name, a binder named like the variable, "
                        "a failed member lookup followed by a bare name) + 2 SMC queries."
                        % (n_sub, len(DISTURBANCES), len(PLACES), len(DYN_SITES)))
    n = engine.ncpu()
    for res in engine.pmap(run_shard, [(i, n, t) for i in range(n)]):
        rep.merge(res)
    for res in engine.pmap(run_disturbed, [(i, n, t) for i in range(n)]):
        rep.merge(res)
    run_late(rep)
    rep.merge(run_dynamic(None))
    rep.merge(run_dynamic_parameters(None))
    rep.merge(run_process_sets(None))
    rep.merge(run_instance_chains(None))
    rep.merge(run_extents(None))
    rep.assumptions = ["the declaration a use is bound to is identified by the upper bound of the symbol's declared range",
                       "a parameter and a local of the same name in one frame are a duplicate definition and are not enumerated"]
    sys.exit(rep.finish())


if __name__ == "__main__":
    main()
