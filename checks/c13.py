#!/usr/bin/env python3
"""C13 — sizes, bounds, initialisers and value arguments must be compile-time
computable.  Matrix of compile-time contexts x dependence chains from the
expression to a mutable variable (direct, through functions of depth 1-3,
through parameters); every mutable cell has a constant twin."""
import os
import sys

sys.path.insert(0, os.path.join(os.path.dirname(os.path.abspath(__file__)), "..", "lib"))
import engine
import xmlgen as X

PID = "C13"

GDECL = """const int k = 2; const int ka[2] = {1, 2}; typedef struct { int f; } St; const St ks = {1};
int v = 2; int va[2]; St vs; meta int mv = 1;
int fk() { return k; }  int fk2() { return fk() + 1; }  int fk3() { return fk2(); }
int fv() { return v; }  int fv2() { return fv() + 1; }  int fv3() { return fv2(); }
int fpar(int q) { return q + 1; }
int fstm() { int t = 0; if (v > 0) { t = 1; } return t; }
int floop() { int t = 0; for (i : int[0,1]) { t += va[i]; } return t; }
int fkstm() { int t = 0; for (i : int[0,1]) { t += ka[i]; } return t; }
"""
# functions that return a constant and read {V} in exactly one syntactic position (all their writes are to their own locals)
READ_POSITIONS = {
    "subscript-of-assignment-target": "int la[2]; la[{V} - 2] = 1; return 1;",
    "subscript-under-field-of-target": "St ls[2]; ls[{V} - 2].f = 1; return 1;",
    "subscript-under-nested-field-of-target": "struct {{ St in; }} lo[2]; lo[{V} - 2].in.f = 1; return 1;",
    "second-subscript-of-target": "int lm[2][2]; lm[0][{V} - 2] = 1; return 1;",
    "subscript-of-compound-assignment-target": "int la[2]; la[{V} - 2] += 1; return 1;",
    "subscript-of-incremented-element": "int la[2]; la[{V} - 2]++; return 1;",
    "condition-of-if": "if ({V} > 0) {{ }} return 1;",
    "condition-of-while": "int t = 0; while (t < {V}) {{ t++; }} return 1;",
    "bound-of-for": "int t; for (t = 0; t < {V}; t++) {{ }} return 1;",
    "condition-of-do-while": "int t = 0; do {{ t++; }} while (t < {V}); return 1;",
    "step-of-for": "int t; int u = 0; for (t = 0; t < 2; t = t + 1 + 0 * {V}) {{ u++; }} return 1;",
    "initialisation-of-for": "int t; for (t = {V} - {V}; t < 2; t++) {{ }} return 1;",
    "range-of-iteration": "int u = 0; for (t : int[0, 1]) {{ u = u + {V}; }} return 1;",
    "condition-of-nested-if-in-loop": "int t = 0; while (t < 2) {{ t++; if ({V} > 5) {{ t++; }} }} return 1;",
    "returned-from-a-branch": "if (1 > 2) {{ return {V}; }} return 1;",
    "argument-of-discarded-call": "fpar({V}); return 1;",
    "condition-of-inline-if-target": "int a; int b; ({V} > 0 ? a : b) = 1; return 1;",
    "assertion": "assert({V} > 0); return 1;",
    "initialiser-of-unused-local": "int t = {V}; return 1;",
    "right-hand-side-into-field": "St ls[2]; ls[0].f = {V}; return 1;",
}
GDECL += "".join("int rp%d() { %s }\nint rk%d() { %s }\n" % (n, b.format(V="v"), n, b.format(V="k")) for n, b in enumerate(READ_POSITIONS.values()))

# (id, expression, depends on a mutable variable?)
EXPRS = [
    ("literal", "2", False), ("const", "k", False), ("const-arith", "k + 1", False), ("const-array", "ka[1]", False),
    ("const-struct", "ks.f + 1", False), ("const-inline-if", "(k > 1 ? k : 3)", False), ("fn-const", "fk()", False),
    ("fn-const-chain2", "fk2()", False), ("fn-const-chain3", "fk3()", False), ("fn-const-arg", "fpar(k)", False),
    ("fn-const-loop", "fkstm() + 1", False), ("builtin-on-const", "abs(k) + 1", False),
    ("var", "v", True), ("var-arith", "v + 1", True), ("var-array", "va[0] + 1", True), ("var-struct", "vs.f + 1", True),
    ("var-in-inline-if-cond", "(v > 1 ? 2 : 3)", True), ("var-in-inline-if-branch", "(k > 1 ? v : 3)", True),
    ("fn-var", "fv()", True), ("fn-var-chain2", "fv2()", True), ("fn-var-chain3", "fv3()", True), ("fn-var-arg", "fpar(v)", True),
    ("fn-var-in-statement", "fstm() + 1", True), ("fn-var-in-loop", "floop() + 1", True), ("meta-var", "mv + 1", True),
    ("const-index-by-var", "ka[v - 2]", True),
] + [("fn-reads-var-in:" + nm, "rp%d()" % n, True) for n, nm in enumerate(READ_POSITIONS)] + \
    [("fn-reads-const-in:" + nm, "rk%d()" % n, False) for n, nm in enumerate(READ_POSITIONS)]


def tpl(decl="", params=None):
    return X.template("T", params=params, decl=decl, locations=[X.location("id0", "L0")], init="id0")


LSC_OBS = ('<lsc><name>Obs</name><parameter>const int a, const int b</parameter><type>Universal</type><mode>Invariant</mode><declaration></declaration>'
           '<yloccoord number="0" y="10"/><yloccoord number="1" y="20"/><yloccoord number="2" y="30"/>'
           '<instance id="id7" x="0" y="0"><name>P</name></instance><instance id="id8" x="10" y="0"><name>P2</name></instance>'
           '<prechart x="0" y="0"><lsclocation>1</lsclocation></prechart>'
           '<message x="0" y="0"><source ref="id7"/><target ref="id8"/><lsclocation>0</lsclocation><label kind="message">lc</label></message>'
           '<condition x="0" y="0"><anchor instanceid="id7"/><lsclocation>2</lsclocation><temperature>hot</temperature>'
           '<label kind="condition">lx &gt;= a + b</label></condition></lsc>')


def lsc_doc(instantiation):
    """a model with an LSC template Obs(const int a, const int b) next to an ordinary one"""
    doc = X.nta(GDECL + " chan lc; clock lx;", [tpl()], "P = T(); P2 = T();\n%s\nsystem P, P2;" % instantiation)
    return doc.replace("<system>", LSC_OBS + "<system>", 1)


SYS = "P = T(); system P;"
# context -> builder(e) -> document.  Every declared type is *used* (a variable of it exists).
CONTEXTS = {
    "global-array-size": lambda e: X.nta(GDECL + "int arr[%s];" % e, [tpl()], SYS),
    "global-array-size-2d": lambda e: X.nta(GDECL + "int arr[2][%s];" % e, [tpl()], SYS),
    "global-range-upper": lambda e: X.nta(GDECL + "int[0, %s] r;" % e, [tpl()], SYS),
    "global-range-lower": lambda e: X.nta(GDECL + "int[%s, 10] r;" % e, [tpl()], SYS),
    "global-scalar-size": lambda e: X.nta(GDECL + "typedef scalar[%s] Sc; Sc sv;" % e, [tpl()], SYS),
    "typedef-array-size": lambda e: X.nta(GDECL + "typedef int At[%s]; At q;" % e, [tpl()], SYS),
    "typedef-range": lambda e: X.nta(GDECL + "typedef int[0, %s] Rt; Rt q;" % e, [tpl()], SYS),
    "struct-field-array-size": lambda e: X.nta(GDECL + "struct { int f[%s]; } sq;" % e, [tpl()], SYS),
    "struct-field-range": lambda e: X.nta(GDECL + "struct { int[0, %s] f; } sq;" % e, [tpl()], SYS),
    "global-initialiser": lambda e: X.nta(GDECL + "int q = %s;" % e, [tpl()], SYS),
    "global-const-initialiser": lambda e: X.nta(GDECL + "const int q = %s;" % e, [tpl()], SYS),
    "global-array-initialiser": lambda e: X.nta(GDECL + "int q[2] = {1, %s};" % e, [tpl()], SYS),
    "global-struct-initialiser": lambda e: X.nta(GDECL + "St q = {%s};" % e, [tpl()], SYS),
    "template-local-initialiser": lambda e: X.nta(GDECL, [tpl(decl="int q = %s;" % e)], SYS),
    "template-local-array-size": lambda e: X.nta(GDECL, [tpl(decl="int arr[%s];" % e)], SYS),
    "template-local-range": lambda e: X.nta(GDECL, [tpl(decl="int[0, %s] r;" % e)], SYS),
    "function-local-array-size": lambda e: X.nta(GDECL + "void g() { int arr[%s]; arr[0] = 1; }" % e, [tpl()], SYS),
    "function-local-range": lambda e: X.nta(GDECL + "void g() { int[0, %s] r; r = 0; }" % e, [tpl()], SYS),
    "function-parameter-array-size": lambda e: X.nta(GDECL + "void g(int &a[%s]) { a[0] = 1; }" % e, [tpl()], SYS),
    "select-range": lambda e: X.nta(GDECL, [X.template("T", locations=[X.location("id0", "L0")], init="id0", transitions=[
        X.transition("id0", "id0", select="s : int[0, %s]" % e)])], SYS),
    "template-parameter-range": lambda e: X.nta(GDECL, [tpl(params="int[0, %s] p" % e)], "system T;"),
    "argument-value-parameter": lambda e: X.nta(GDECL, [tpl(params="int p")], "P = T(%s); system P;" % e),
    "argument-const-value-parameter": lambda e: X.nta(GDECL, [tpl(params="const int p")], "P = T(%s); system P;" % e),
    "argument-const-ref-parameter": lambda e: X.nta(GDECL, [tpl(params="const int &p")], "P = T(%s); system P;" % e),
    "argument-partial-instantiation": lambda e: X.nta(GDECL, [tpl(params="const int p, const int q")],
                                                       "Q(const int z) = T(z, %s); P = Q(1); system P;" % e),
    "argument-lsc-template": lambda e: lsc_doc("Scenario = Obs(%s, 3);" % e),
    "argument-lsc-partial-instance": lambda e: lsc_doc("Half(const int hk) = Obs(hk, 3); Scenario = Half(%s);" % e),
    "argument-inside-lsc-partial-instance": lambda e: lsc_doc("Half(const int hk) = Obs(hk, %s); Scenario = Half(1);" % e),
    "lsc-partial-instance-parameter-range": lambda e: lsc_doc("Half(const int[0, %s] hk) = Obs(hk, 3); Scenario = Half(1);" % e),
    "argument-partial-instance-of-partial-instance": lambda e: X.nta(GDECL, [tpl(params="const int p, const int q")],
                                                                      "Q(const int z, const int z2) = T(z, z2); R(const int r) = Q(r, 1); P = R(%s); system P;" % e),
    "array-size-in-unused-template": lambda e: X.nta(GDECL, [tpl(), X.template("U", decl="int arr[%s];" % e, locations=[X.location("id7", "M0")], init="id7")], SYS),
    "range-in-unused-template-first": lambda e: X.nta(GDECL, [X.template("U", decl="int[0, %s] r;" % e, locations=[X.location("id7", "M0")], init="id7"), tpl()], SYS),
    "select-range-in-unused-template": lambda e: X.nta(GDECL, [tpl(), X.template("U", locations=[X.location("id7", "M0")], init="id7", transitions=[
        X.transition("id7", "id7", select="s : int[0, %s]" % e)])], SYS),
    "quantifier-range": lambda e: X.nta(GDECL, [X.template("T", locations=[X.location("id0", "L0")], init="id0", transitions=[
        X.transition("id0", "id0", guard="forall (i : int[0, %s]) i >= 0" % e)])], SYS),
}


# free process parameters inside array sizes: never accepted, whatever the chain
def free_param_docs():
    out = []
    for pid, ptype in (("bounded", "int[0,1] p"), ("const-bounded", "const int[0,1] p"), ("typedef-scalar", "Sid p")):
        g = GDECL + "typedef scalar[2] Sid; int fp(int q) { return q + 1; }\n"
        for eid, e in (("direct", "p + 1"), ("via-function", "fp(p)"), ("via-local-const", None), ("in-range-bound", None)):
            if pid == "typedef-scalar" and eid != "direct":
                continue
            if eid == "via-local-const":
                decl = "const int c = p + 1; int arr[c];"
            elif eid == "in-range-bound":
                decl = "int arr[p + 1];"
            else:
                decl = "int arr[%s];" % (e if pid != "typedef-scalar" else "p")
            free = X.nta(g, [tpl(params=ptype, decl=decl)], "system T;")
            out.append(("free-param:%s:%s" % (pid, eid), "free", free))
            if pid == "const-bounded":   # a non-const value parameter is a variable: no accepted twin exists for it
                bound = X.nta(g, [tpl(params=ptype, decl=decl)], "P = T(1); system P;")
                out.append(("free-param:%s:%s" % (pid, eid), "bound-twin", bound))
    # the free parameter reaches a size only through the initialiser of a template-local constant of a composite type
    # (arrays, records, arrays of records, chains of those), in an array size, a range bound used as an index type and a scalar-set size
    g = GDECL + "typedef struct { int a; int b; } R2;\n"
    CHAINS = [
        ("const-array", "const int DIM[2] = {p, p + 1};", "DIM[1]"),
        ("const-array-2d", "const int D2[2][2] = {{p, 1}, {1, p}};", "D2[0][0] + 1"),
        ("const-array-then-scalar-const", "const int DIM[2] = {1, p}; const int c = DIM[1] + 1;", "c"),
        ("typedef-array-const", "typedef int A2[2]; const A2 ta = {p, 1};", "ta[0] + 1"),
        ("const-record", "const R2 rc = {p, 1};", "rc.a + 1"),
        ("const-array-of-records", "const R2 ra[2] = {{p, 1}, {1, 1}};", "ra[0].a + 1"),
        ("const-record-then-const-array", "const R2 rc = {1, p}; const int DA[2] = {rc.b, 1};", "DA[0] + 1"),
        ("scalar-const-chain", "const int c1 = p; const int c2 = c1 + 1;", "c2"),
    ]
    SINKS = [("array-size", "int arr[%s];"), ("index-type", "typedef int[0, %s] it; int arr[it];"), ("scalar-set-size", "typedef scalar[%s] ss; ss sv;"),
             ("two-dimensional", "int arr[2][%s];")]
    for cid, chain, e in CHAINS:
        for sid, sink in SINKS:
            decl = chain + " " + (sink % e)
            key = "free-param-via:%s:%s" % (cid, sid)
            out.append((key, "free", X.nta(g, [tpl(params="const int[0,1] p", decl=decl)], "system T;")))
            out.append((key, "free", X.nta(g, [tpl(params="const int[0,1] p", decl=decl)], "Q(const int[0,1] k) = T(k); system Q;")))
            out.append((key, "bound-twin", X.nta(g, [tpl(params="const int[0,1] p", decl=decl)], "P = T(1); system P;")))
    # template parameters that are constant in type but not known at compile time (const reference, const double), read
    # directly and through template-local functions, in the compile-time contexts of the template itself
    for pid, ptype, arg, gdecl in (("const-ref", "const int &r", "k", ""), ("const-double", "const double r", "1.5", ""),
                                   ("const-ref-array", "const int &r[2]", "ka", "")):
        rd = {"const-ref": "r", "const-double": "fint(r)", "const-ref-array": "r[0]"}[pid]
        funs = ("int f1() { return %s; } int f2() { return f1() + 1; } int f3() { int t = 0; for (i : int[0,1]) { t += %s; } return t; }\n"
                "int fk() { return k + 1; }\n") % (rd, rd)
        for eid, e, role in (("direct", rd, "free"), ("via-function", "f1()", "free"), ("via-chain", "f2()", "free"), ("via-loop", "f3()", "free"),
                             ("function-of-constants", "fk()", "bound-twin")):
            for cid, ctx in (("array-size", "int arr[%s + 1];"), ("range-bound", "int[0, %s + 1] rr;"), ("initialiser", "int q = %s;"),
                             ("local-const-then-size", "const int n = %s; int arr[n + 1];")):
                if cid == "local-const-then-size" and role == "bound-twin":
                    pass
                doc = X.nta(GDECL + gdecl, [tpl(params=ptype, decl=funs + (ctx % e))], "P = T(%s); system P;" % arg)
                out.append(("param-%s:%s:%s" % (pid, cid, eid), role, doc))
    # a partial instance forwards its own parameter: a forwarded *reference* to a variable is no compile-time value for the value
    # parameter it ends in, a forwarded constant is
    for tpid, tparams, tdecl in (("const-value", "const int p", ""), ("const-value-used-as-size", "const int p", "int arr[p + 1];"), ("value", "int p", "")):
        tt = tpl(params=tparams, decl=tdecl)
        for fid, system, role in (
                ("reference-bound-to-variable", "Q(int &x) = T(x);\nP = Q(v);\nsystem P;", "free"),
                ("reference-bound-to-array-element", "Q(int &x) = T(x);\nP = Q(va[1]);\nsystem P;", "free"),
                ("reference-through-two-instances", "Q(int &x) = T(x);\nQ2(int &y) = Q(y);\nP = Q2(v);\nsystem P;", "free"),
                ("reference-second-of-two-parameters", "Q(const int c0, int &x) = T(x);\nP = Q(1, v);\nsystem P;", "free"),
                ("const-reference-bound-to-variable", "Q(const int &x) = T(x);\nP = Q(v);\nsystem P;", "free"),
                ("constant-bound-to-constant", "Q(const int x) = T(x);\nP = Q(k);\nsystem P;", "bound-twin"),
                ("constant-through-two-instances", "Q(const int x) = T(x);\nQ2(const int y) = Q(y);\nP = Q2(k + 1);\nsystem P;", "bound-twin"),
                ("constant-bound-to-variable", "Q(const int x) = T(x);\nP = Q(v);\nsystem P;", "free")):
            out.append(("forwarded-parameter:%s:%s" % (tpid, fid), role, X.nta(GDECL, [tt], system)))
    # the free parameter reaches the array size through a chain of partial instantiations
    T2 = X.template("T", params="const int[0,1] pa, const int[0,1] pb", decl="int arr[pb + 1];", locations=[X.location("id0", "L0")], init="id0")
    for depth in (1, 2, 3):
        for via in ("restricted-position", "unrestricted-position"):
            lines, prev = [], "T"
            for d in range(1, depth + 1):
                name = "I%d" % d
                if d == 1:
                    args = "1, k1" if via == "restricted-position" else "k1, 1"
                else:
                    args = "k%d" % d
                lines.append("%s(const int[0,1] k%d) = %s(%s);" % (name, d, prev, args))
                prev = name
            key = "free-param-chain:%s:depth%d" % (via, depth)
            doc_free = X.nta(GDECL, [T2], "\n".join(lines) + "\nsystem %s;" % prev)
            doc_bound = X.nta(GDECL, [T2], "\n".join(lines) + "\nB = %s(1);\nsystem B;" % prev)
            out.append((key, "free" if via == "restricted-position" else "bound-twin", doc_free))
            out.append((key, "bound-twin", doc_bound))
    return out


# dependence chains that stay inside one function body: parameters, local variables and local constants whose own
# initialisers depend on run-time values (a function-local initialiser is not itself a compile-time context)
LOCAL_CHAINS = [
    ("parameter", "", "p + 1", True),
    ("local-variable", "int ln = 3;", "ln", True),
    ("local-const-from-parameter", "const int lk = p;", "lk", True),
    ("local-const-from-global-variable", "const int lk = v;", "lk + 1", True),
    ("local-const-chain", "const int l1 = v; const int l2 = l1 + 1;", "l2", True),
    ("local-const-from-function-of-variable", "const int lk = fv();", "lk", True),
    ("local-const-from-local-variable", "int ln = 1; const int lk = ln + 1;", "lk", True),
    ("local-const-array-from-variable", "const int la[2] = {v, 1};", "la[0] + 1", True),
    ("local-const-from-parameter-in-outer-block", "const int lk = p; {", "lk", True),
    ("global-constant", "", "k + 1", False),
    ("function-of-constants", "", "fk2()", False),
]
LOCAL_CONTEXTS = {
    "array-size": "int arr[%s]; arr[0] = 1;",
    "range-bound": "int[0, %s] r; r = 0;",
    "nested-block-array-size": "{ int arr[%s]; arr[0] = 1; }",
    "iteration-range": "for (i : int[0, %s]) { mv = i; }",
    "local-typedef-array": "typedef int At[%s]; At q; q[0] = 1;",
    "local-struct-field-array": "struct { int f[%s]; } sq; sq.f[0] = 1;",
    "second-dimension": "int arr[2][%s]; arr[0][0] = 1;",
}


def local_cells():
    out = []
    for cid, ctx in LOCAL_CONTEXTS.items():
        for eid, prelude, e, mut in LOCAL_CHAINS:
            body = prelude + " " + (ctx % e) + (" }" if prelude.endswith("{") else "")
            fn = "void g(int p) { %s }" % body
            for place in ("global-function", "template-local-function"):
                doc = X.nta(GDECL + (fn if place == "global-function" else ""), [tpl(decl=fn if place != "global-function" else "")], SYS)
                out.append(("function-local:%s:%s:%s" % (place, cid, eid), "mutable" if mut else "const", e, doc))
    return out


# ---- the same kind of named type declared twice: what is checked for one declaration says nothing about the next ---------------
NAMED_KINDS = {
    "range": "typedef int[0, %s] {N};", "array": "typedef int {N}[%s];", "record-field-size": "typedef struct {{ int f[%s]; }} {N};",
    "record-field-range": "typedef struct {{ int[0, %s] f; }} {N};", "scalar-set": "typedef scalar[%s] {N};",
    "array-of-range": "typedef int[0, %s] {N}[2];",
}
NAMED_USES = {"variable": "{N} {q};", "array-of": "{N} {q}[2];", "field": "struct {{ {N} g; }} {q};"}
NAMED_EXPRS = [("literal", "3", False), ("const", "k + 1", False), ("fn-const", "fk2()", False), ("var", "v", True), ("var-array", "va[0] + 1", True),
               ("fn-var", "fv()", True), ("fn-var-chain3", "fv3()", True), ("meta-var", "mv + 1", True)]


def named_layouts(first, second):
    """scope pairs: where the first (well-formed, used) and the second declaration stand"""
    t = lambda name, decl: X.template(name, decl=decl, locations=[X.location("id0" + name, "L0")], init="id0" + name)
    return {
        "global/template": (X.nta(GDECL + first, [t("T", second)], "system T;"), True),
        "global/global-function": (X.nta(GDECL + first + "\nvoid g() { %s }" % second, [t("T", "")], "system T;"), False),
        "global/template-function": (X.nta(GDECL + first, [t("T", "void g() { %s }" % second)], "system T;"), False),
        "global/nested-block": (X.nta(GDECL + first + "\nvoid g() { { { %s } } }" % second, [t("T", "")], "system T;"), False),
        "template/other-template": (X.nta(GDECL, [t("T", first), t("U", second)], "system T, U;"), True),
        "template/its-function": (X.nta(GDECL, [t("T", first + "\nvoid g() { %s }" % second)], "system T;"), False),
        "function/other-function": (X.nta(GDECL + "void g1() { %s }\nvoid g2() { %s }" % (first, second), [t("T", "")], "system T;"), False),
        "block/sibling-block": (X.nta(GDECL + "void g() { { %s } { %s } }" % (first, second), [t("T", "")], "system T;"), False),
    }


def named_cells():
    out = []
    for kid, ktpl in NAMED_KINDS.items():
        for uid, use in NAMED_USES.items():
            for eid, e, mut in EXPRS:
                for names in ("same-name", "different-names"):
                    n2 = "N" if names == "same-name" else "M"
                    for order in ("ill-formed-second", "ill-formed-first"):
                        for fkind in ((kid, "plain") if order == "ill-formed-second" else (kid,)):
                            wf = ("typedef int {N};" if fkind == "plain" else ktpl % "3")
                            a = wf.format(N="N") + " " + use.format(N="N", q="q0")
                            b = (ktpl % e).format(N=n2) + " " + use.format(N=n2, q="q1")
                            first, second = (a, b) if order == "ill-formed-second" else (b.replace("q1", "q0"), a.replace("q0", "q1"))
                            if names == "different-names" and order == "ill-formed-first":
                                first, second = first.replace("{M}", "M"), second
                            lays = named_layouts(first, second)
                            if names == "different-names":
                                both = first + " " + second
                                lays = {"global-same-scope": (X.nta(GDECL + both, [tpl()], SYS), True),
                                        "template-same-scope": (X.nta(GDECL, [tpl(decl=both)], SYS), True),
                                        "function-same-scope": (X.nta(GDECL + "void g() { %s }" % both, [tpl()], SYS), False)}
                            for lid, (doc, scalar_ok) in lays.items():
                                if kid == "scalar-set" and not scalar_ok:
                                    continue
                                key = "named-twice:%s:%s:%s:%s:%s:first-is-%s:%s" % (lid, kid, uid, names, order, fkind, eid)
                                out.append((key, "mutable" if mut else "const", e, doc))
    return out


def run_shard(cid):
    part = engine.Part()
    w = engine.worker("fast")
    if cid == "free-params":
        cells = [(a, b, None, c) for a, b, c in free_param_docs()]
    elif cid == "function-local-chains":
        cells = local_cells()
    elif cid.startswith("named-twice/"):
        i, n = map(int, cid.split("/")[1:])
        cells = named_cells()[i::n]
    else:
        cells = [("%s:%s" % (cid, eid), "mutable" if mut else "const", e, CONTEXTS[cid](e)) for eid, e, mut in EXPRS]
    res = X.run_docs(w, [c[3] for c in cells], want=["noinv"], batch=50)
    for (key, role, e, doc), r in zip(cells, res):
        part.count()
        rp = {"op": "xml", "buf": doc}
        if engine.check_crash(part, PID, r, key, rp):
            continue
        part.nontrivial_case(key + "|" + role)
        acc = X.accepted(r)
        msgs = sorted(set(x["msg"] for x in r.get("errors", [])))[:2]
        if role in ("mutable", "free"):
            if acc:
                part.outcome(role + "-accepted")
                part.violation("%s-accepted:%s" % (role, key), "%s: %s is accepted although it is not compile-time computable" %
                               (key, "`%s`" % e if e else "a free process parameter in an array size"), rp)
            else:
                part.outcome(role + "-rejected")
        else:
            if acc:
                part.outcome(role + "-accepted")
                if len(part.samples) < 1:
                    part.sample({"cell": key, "expr": e, "accepted": True})
            else:
                part.outcome(role + "-rejected")
                part.violation("twin-rejected:%s" % key, "%s: the constant twin `%s` is rejected: %s" % (key, e, msgs), rp)
    return part.result()


def main():
    rep = engine.Report(PID, "exploration",
                        "matrix of %d compile-time contexts (array sizes, range bounds, scalar-set size - global, typedef, struct field, "
                        "template local, function local, function/template parameter, select, quantifier; global/const/array/struct/"
                        "template-local initialisers; arguments for value, const-value, const-reference parameters and partial "
                        "instantiation) x %d expressions (12 constant: literals, constants, const arrays/structs, functions of "
                        "constants with chains 1-3, loops; 14 with a dependence on a mutable variable: direct, array, struct, inline-if, "
                        "functions of depth 1-3, through statements/loops/arguments, meta), plus free process parameters inside array "
                        "sizes with bound twins, directly and through chains of 1-3 partial instantiations; plus %d function-local contexts x %d chains that stay inside one function body (parameters, local "
                        "variables, local constants initialised from run-time values, chains of those), in global and template-local "
                        "functions." % (len(CONTEXTS), len(EXPRS), len(LOCAL_CONTEXTS), len(LOCAL_CHAINS)))
    for res in engine.pmap(run_shard, list(CONTEXTS) + ["free-params", "function-local-chains"] + ["named-twice/%d/32" % i for i in range(32)]):
        rep.merge(res)
    rep.assumptions = ["every declared type is used by a variable (the statement speaks of used types)",
                       "function-local initialisers are not compile-time contexts themselves; sizes and bounds of function-local declarations are"]
    sys.exit(rep.finish())


if __name__ == "__main__":
    main()
