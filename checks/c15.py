#!/usr/bin/env python3
"""C15 — a parse result depends only on its input, not on earlier parses in the process.

System under exploration: the process-global state of the library (parser statics ch/syntax/syntax_token/
rootTransId/types, flex start condition and buffer stack, UTAP::tracker, errno).  Transition: one more call of a
public parsing entry point.  Every history is executed on the real code in a child forked from a zygote that has
never parsed anything (harness/history.cpp); the canonical result of every call is compared with the result of
the same call made first in a fresh process.

  (1) all histories up to length L over the event alphabet from every counter seed, no pruning;
  (2) explicit-state BFS to a larger depth, states merged on the exact global-state digest left behind
      (histories that leave identical globals have identical futures: the library is deterministic and the
      digest is everything a later call can read);
  (3) alignment sweep: for every event, every offset of the position counter relative to 2^31 and 2^32
      (the counter is seeded directly, as the property's anchor allows).
"""
import json
import os
import re
import sys

sys.path.insert(0, os.path.join(os.path.dirname(os.path.abspath(__file__)), "..", "lib"))
import choice
import engine
import modelgen as MG
import xmlgen

PID = "C15"

S_GUARD, S_DECLARATION, S_EXPRESSION, S_ASSIGN = None, None, None, None  # filled from the header below


WARN_TPL = xmlgen.template("T", decl="clock x; int v;", locations=[xmlgen.location("id0", "L0", inv="x < 5"), xmlgen.location("id1", "L1"),
                                                                   xmlgen.location("id2", "__RESET__")], init="id0",
                           transitions=[xmlgen.transition("id0", "id1", select="v : int[0,1]", guard="x > 1", sync="u!"),
                                        xmlgen.transition("id1", "id2", sync="c?", guard="x >= 2")])
WARN_XML = xmlgen.nta("urgent chan u; chan c; int i;", [WARN_TPL], "P = T(); system P;")
WARN_XTA = ("urgent chan u; chan c; int i;\nprocess T() { clock x; int v; state L0 { x < 5 }, L1, __RESET__; init L0; trans L0 -> L1 { select v : int[0,1]; "
            "guard x > 1; sync u!; }, L1 -> __RESET__ { guard x >= 2; sync c?; }; }\nP = T();\nsystem P;\n")


def parts():
    """xta_part_t enumerators from the tree being checked."""
    import re
    import build
    txt = open(os.path.join(build.repo_dir(), "include", "utap", "common.h")).read()
    m = re.search(r"enum\s+xta_part_t\s*\{(.*?)\}", txt, re.S)
    names = [x.strip().split("=")[0].strip() for x in re.sub(r"/\*.*?\*/|//[^\n]*", "", m.group(1), flags=re.S).split(",") if x.strip()]
    return {n: i for i, n in enumerate(names)}


def events():
    P = parts()
    m, _ = choice.run(lambda ch: MG.build(ch, common=True), [])
    xml_ok = MG.render_xml(m, queries=["A[] g1 >= 0", "E<> T1(0,ga).T1_L0" if False else "E<> g1 == 901"])
    xta_ok = MG.render_xta(m)
    g = xmlgen.esc("g1 == ")
    assert g in xml_ok
    small = xmlgen.simple_model(decl="int i; clock x; chan c;", guard="i == 0 && x < 5", assign="i = 1")
    ev = [
        ("xml_ok", {"kind": "xml", "buf": xml_ok, "queries": True}),
        ("xml_type_error", {"kind": "xml", "buf": xml_ok.replace(g, xmlgen.esc("c == "), 1)}),
        ("xml_syntax_error", {"kind": "xml", "buf": xml_ok.replace(g, xmlgen.esc("g1 == ( "), 1)}),
        ("xml_truncated", {"kind": "xml", "buf": xml_ok[:len(xml_ok) * 2 // 3]}),
        ("xml_missing_ref", {"kind": "xml", "buf": small.replace('<target ref="id1"/>', '<target ref="id77"/>')
                             if '<target ref="id1"/>' in small else small.replace('ref="id0"', 'ref="id77"', 1)}),
        ("xta_ok", {"kind": "xta", "buf": xta_ok}),
        ("xta_trans_error", {"kind": "xta", "buf": xta_ok.replace("trans\n", "trans\n  T1_L0 -> T1_L0 { guard ( ; },\n ", 1)}),
        ("query_ok", {"kind": "query", "ctx": small, "text": "A[] i < 5 and P.L0"}),
        ("query_open_comment", {"kind": "query", "ctx": small, "text": "E<> i == 1 /* EXPECT:T never closed"}),
        ("query_sat_throws", {"kind": "query", "ctx": small, "text": "sat: nosuchscenario"}),
        ("xml_old_syntax", {"kind": "xml", "newxta": False,
                            "buf": xmlgen.simple_model(decl="const N 3; int i; clock x; chan c;", guard="i == 0, x < N", assign="i := 1")}),
        ("guard_pretty_error", {"kind": "block", "builder": "pretty", "part": P["S_GUARD"], "text": "i == 0 && ( x <", "xpath": "/nta/x"}),
        ("decl_pretty_ok", {"kind": "block", "builder": "pretty", "part": P["S_DECLARATION"],
                            "text": "int a[2][int[0,1]]; void f(int k) { if (k > 0) a[0][1] = k; }\n// c\n"}),
        ("decl_arrays_doc", {"kind": "block", "builder": "doc", "part": P["S_DECLARATION"],
                             "text": "typedef int[0,2] id_t; int a[2][id_t]; int b[id_t][3][int[0,1]] ; void f(id_t k) { a[0][k] = b[k][1][0]; }"}),
        ("client_throw_in_comment", {"kind": "block", "builder": "throwing", "part": P["S_DECLARATION"],
                                     "text": "int i;\nint j = 1; /* x\n EXPECT:throw still in comment"}),
        ("client_throw_in_array", {"kind": "block", "builder": "throwing", "part": P["S_DECLARATION"],
                                   "text": "int a[int[0,1]][int[0,2]][666]; int b;"}),
        ("client_throw_in_trans", {"kind": "xmlthrowing", "buf": small.replace("i == 0 &amp;&amp; x &lt; 5", "i == 666")}),
        ("xml_open_comment_decl", {"kind": "xml", "buf": xmlgen.simple_model(decl="int i; /* open", guard="i == 0")}),
        ("xml_via_fd", {"kind": "xml", "via": "fd", "buf": small}),
        ("expr_old_syntax", {"kind": "block", "builder": "expr", "newxta": False, "part": P["S_EXPRESSION"], "text": "1 + 2 * 3"}),
        ("xta_from_file", {"kind": "xtafile", "buf": xta_ok}),
        ("xta_from_file_client_throw", {"kind": "xtafile_throwing", "buf": xta_ok.replace("901", "666", 1)}),
        ("queries_from_file", {"kind": "queryfile", "ctx": small, "text": "A[] i < 5\nE<> P.L1 /* c */\nsat: nosuch\nE<> i == 2\n"}),
        # error-recovery shapes that could read the remembered transition source of an earlier call (same location names as the
        # models above): a transition list that starts with a source-less edge, in both syntaxes
        ("xta_sourceless_first_edge", {"kind": "xta", "buf": "process T1() { state T1_L0, T1_L2, A, B; init T1_L0; trans -> T1_L0 { }, -> B { }; }\nsystem T1;\n"}),
        ("xta_old_sourceless_first_edge", {"kind": "xta", "newxta": False,
                                           "buf": "process T1 { state T1_L0, T1_L2, A, B; init T1_L0; trans -> A { }; }\nsystem T1;\n"}),
        # texts that end inside an array declarator with type-indexed dimensions, and victims whose first declarator is an array
        # (no dimension-less declarator, no built-in preamble before it)
        ("xta_old_truncated_in_array", {"kind": "xta", "newxta": False, "buf": "int a[int[0,1]][int[0,1]]["}),
        ("decl_truncated_in_array", {"kind": "block", "builder": "doc", "nopreamble": True, "part": P["S_DECLARATION"],
                                     "text": "int a[int[0,1]][int[0,1]][int[0,1]]["}),
        ("xta_old_array_first", {"kind": "xta", "newxta": False, "buf": "int b[3]; process P { state s; init s; }\nsystem P;\n"}),
        ("params_array_first", {"kind": "block", "builder": "doc", "nopreamble": True, "part": P["S_PARAMETERS"], "text": "int p[3], int &q[2][2]"}),
        # literals that make the C library report a range error while being converted (process-wide errno is state too)
        ("decl_double_out_of_range", {"kind": "block", "builder": "doc", "part": P["S_DECLARATION"], "text": "double d = 1e-400; double e = 1e999; int k = 3;"}),
        ("expr_integer_20_digits", {"kind": "block", "builder": "expr", "part": P["S_EXPRESSION"], "text": "1 + 99999999999999999999"}),
        # scalar sets: every anonymous scalar type gets a generated name, which must not depend on what was parsed before
        ("xml_scalar_sets", {"kind": "xml", "buf": xmlgen.simple_model(decl="typedef scalar[3] sid_t; sid_t sv; scalar[2] an; int bys[sid_t]; int i; clock x; chan c;",
                                                                       select="q : scalar[2]", guard="forall (z : sid_t) bys[z] >= 0 && i == 0")}),
        ("xta_scalar_sets", {"kind": "xta", "buf": "typedef scalar[2] t_t; t_t a; scalar[3] b; process P(scalar[2] p) { scalar[2] l; state s; init s; }\nsystem P;\n"}),
        ("decl_scalar_block", {"kind": "block", "builder": "doc", "part": P["S_DECLARATION"], "text": "scalar[4] s4; typedef scalar[2] u_t; u_t uu[2];"}),
        # models that are accepted with warnings of every kind the type checker and the builders issue (a notice that is issued
        # "once" must be once per document, not once per process)
        ("xml_with_warnings", {"kind": "xml", "buf": WARN_XML}),
        ("xta_with_warnings", {"kind": "xta", "buf": WARN_XTA}),
        # what libxml2 itself remembers between calls (its last-error slot): documents it complains about, then a well-formed one
        # that ends before the reader is done
        ("xml_no_system_element", {"kind": "xml", "buf": re.sub(r"<system>.*?</system>", "", small, flags=re.S)}),
        ("xml_unescaped_less_than", {"kind": "xml", "buf": small.replace("i == 0 &amp;&amp; x &lt; 5", "i == 0 && x < 5")}),
        ("xml_undeclared_namespace_prefix", {"kind": "xml", "buf": small.replace("<location ", '<location ed:y="3" ', 1)}),
        # words that are keywords in one language only (query keywords as identifiers of a 3.x model, as names in XML)
        ("xta_old_query_keywords_as_identifiers", {"kind": "xta", "newxta": False,
                                                   "buf": "int control; int simulate; int strategy; process P { state s; init s; }\nsystem P;\n"}),
        ("xml_location_named_deadlock", {"kind": "xml", "buf": small.replace(">L1<", ">deadlock<", 1)}),
        ("xta_new_old_keywords_as_identifiers", {"kind": "xta", "buf": "int control; int simulate; process P() { state s; init s; }\nsystem P;\n"}),
        ("xta_unknown_source", {"kind": "xta", "buf": "process P() { state A, B; init A; trans A -> B { }, -> A { guard 1 ( ; }; }\nsystem P;\n"}),
    ]
    return ev


SEEDS = [("0", 0), ("2^31-64", 2 ** 31 - 64), ("2^31-1", 2 ** 31 - 1), ("2^32-6000", 2 ** 32 - 6000)]
WRAP_SEED = ("2^32-64", 2 ** 32 - 64)
BFS_SEEDS = [SEEDS[0], SEEDS[1]]

_state = {}


def zygote():
    """one private worker per pool process that serves nothing but history requests"""
    w = _state.get("w")
    if w is None:
        w = engine.Worker("fast")
        _state["w"] = w
    return w


def run_histories(evs, hs, seed, full=False, timeout=None, fan=False):
    w = zygote()
    req = {"op": "history", "events": [e for _, e in evs], "histories": hs, "seed_position": seed, "full": full, "fan": fan}
    r = w.call_safe(req, timeout=timeout or (30 + 0.05 * sum(len(h) + (len(evs) if fan else 0) for h in hs)))
    if r.get("died") or r.get("harness_error"):
        raise RuntimeError("history zygote failed: %s" % json.dumps(r)[:600])
    return r["results"]


def reference(evs):
    """result of every event as the first call of a fresh process (counter at 0), run twice: must be identical"""
    hs = [[i] for i in range(len(evs))]
    a = run_histories(evs, hs, 0, full=True)
    b = run_histories(evs, hs, 0, full=True)
    ref = []
    for i, (x, y) in enumerate(zip(a, b)):
        if x.get("sig") or not x["calls"]:
            raise RuntimeError("reference call %s died: %s" % (evs[i][0], json.dumps(x)[:500]))
        if x["calls"][0].get("harness_error"):
            raise RuntimeError("reference call %s: %s" % (evs[i][0], x["calls"][0]["harness_error"]))
        if x["calls"][0]["h"] != y["calls"][0]["h"]:
            raise RuntimeError("reference call %s is not deterministic" % evs[i][0])
        ref.append(x["calls"][0])
    return ref


def first_difference(a, b, path=""):
    if type(a) != type(b):
        return path, a, b
    if isinstance(a, dict):
        for k in sorted(set(a) | set(b)):
            if k not in a or k not in b:
                return path + "/" + k, a.get(k), b.get(k)
            d = first_difference(a[k], b[k], path + "/" + k)
            if d:
                return d
        return None
    if isinstance(a, list):
        for i in range(min(len(a), len(b))):
            d = first_difference(a[i], b[i], "%s[%d]" % (path, i))
            if d:
                return d
        if len(a) != len(b):
            return path + "[len]", len(a), len(b)
        return None
    return None if a == b else (path, a, b)


def ordered_difference(a, b):
    for k in ("exc", "ret", "ctxret", "errors", "warnings", "methods", "text", "frags", "props", "queries", "dump"):
        if a.get(k) != b.get(k):
            return first_difference(a.get(k), b.get(k), "/" + k)
    return first_difference(a, b)


def position_of(g, seed):
    if g is None:
        return seed
    m = re.search(r" position=(\d+)", g)
    return int(m.group(1)) if m else seed


def judge_call(part, evs, ref, hist, k, h, seedname, seed, phase, g_before=None, g_after=None):
    """call k of `hist` produced result hash h; compare with the fresh-process reference"""
    idx = hist[k]
    names = [evs[i][0] for i in hist]
    part.count()
    if h == ref[idx]["h"]:
        part.outcome("same-as-fresh")
        return
    # differs: fetch the full record (once per shard and affected call/predecessor/seed/result) for the report
    memo = _state.setdefault("memo", {})
    mkey = (idx, hist[k - 1] if k else -1, seedname, h)
    if mkey not in memo:
        full = run_histories(evs, [hist[:k + 1]], seed, full=True)[0]["calls"]
        got = full[k]["r"] if k < len(full) else None
        d = ordered_difference(ref[idx]["r"], got) if got is not None else ("<died>", None, None)
        memo[mkey] = (classify(ref[idx]["r"], got, full[k].get("what") if k < len(full) else None), d)
    what, d = memo[mkey]
    if g_after is not None and position_of(g_after, seed) < position_of(g_before, seed):
        what = "position-counter-wrap"      # the 32-bit counter wrapped inside this very call (known finding), however it shows
    part.outcome("differs:" + what)
    part.violation("%s:%s:after=%s:seed=%s" % (what, names[k], prev_sig(names[:k]), seedname),
                   "call %d (%s) of history %s from counter seed %s differs from the same call in a fresh process at %s: fresh=%s here=%s"
                   % (k, names[k], names[:k + 1], seedname, d[0], json.dumps(d[1])[:200], json.dumps(d[2])[:200]),
                   {"op": "history", "events": [evs[i][1] for i in hist[:k + 1]], "histories": [list(range(k + 1))],
                    "seed_position": seed, "full": True, "phase": phase})


def died(part, evs, hist, k, sig, seedname, seed, stderr):
    names = [evs[i][0] for i in hist]
    part.count()
    part.outcome("child-died")
    part.violation("died:%s:after=%s:seed=%s" % (names[k], prev_sig(names[:k]), seedname),
                   "call %d (%s) of history %s from counter seed %s killed the process (signal/exit %s) although the same call "
                   "succeeds as the first call of a fresh process: %s" % (k, names[k], names[:k + 1], seedname, sig, (stderr or "")[-300:]),
                   {"op": "history", "events": [evs[i][1] for i in hist[:k + 1]], "histories": [list(range(k + 1))],
                    "seed_position": seed, "full": True})


def judge(part, evs, ref, hist, seedname, seed, res, phase):
    """compare one executed history with the references"""
    calls = res["calls"]
    for k in range(len(hist)):
        if k >= len(calls):
            died(part, evs, hist, k, res.get("sig", res.get("exit")), seedname, seed, res.get("stderr"))
            break
        judge_call(part, evs, ref, hist, k, calls[k]["h"], seedname, seed, phase,
                   g_before=calls[k - 1]["g"] if k else None, g_after=calls[k]["g"])


def seedclass(name):
    return name


def prev_sig(names):
    return names[-1] if names else "-"


def classify(fresh, got, what=None):
    if got is None:
        return "died"
    if fresh.get("exc") != got.get("exc"):
        if got.get("exc") == "std::logic_error" and what == "Positions must be monotonically increasing":
            return "position-counter-wrap"
        return "exception(%s->%s)" % (fresh.get("exc"), got.get("exc"))
    if fresh.get("ret") != got.get("ret"):
        return "return-value"
    if fresh.get("errors") != got.get("errors") or fresh.get("warnings") != got.get("warnings"):
        return "diagnostics"
    if fresh.get("methods") != got.get("methods"):
        return "methods"
    return "document"


def shard_unpruned(args):
    evs, ref, seedname, seed, hs = args
    part = engine.Part()
    B = 200
    for i in range(0, len(hs), B):
        chunk = hs[i:i + B]
        rs = run_histories(evs, chunk, seed)
        for h, r in zip(chunk, rs):
            judge(part, evs, ref, h, seedname, seed, r, "unpruned")
            part.add("histories", 1)
    return part.result()


def shard_bfs(args):
    """for every frontier state (a history): the real code is brought into that state once, then every event is
    executed as the next call in its own process forked from that state"""
    evs, ref, seedname, seed, hs = args
    part = engine.Part()
    out = []
    B = 50
    for i in range(0, len(hs), B):
        chunk = hs[i:i + B]
        rs = run_histories(evs, chunk, seed, fan=True)
        for h, r in zip(chunk, rs):
            part.add("expanded_states", 1)
            if len(r["calls"]) < len(h):
                continue     # the prefix itself died here: reported when it was a transition
            for f in r.get("fan", []):
                hist = h + [f["e"]]
                part.add("transitions", 1)
                if "sig" in f:
                    died(part, evs, hist, len(h), f["sig"], seedname, seed, r.get("stderr"))
                    continue
                judge_call(part, evs, ref, hist, len(h), f["h"], seedname, seed, "bfs",
                           g_before=r["calls"][-1]["g"] if h else None, g_after=f["g"])
                out.append((hist, f["g"]))
    res = part.result()
    res["states"] = out
    return res


def shard_align(args):
    evs, ref, jobs = args
    part = engine.Part()
    for (idx, seed, name) in jobs:
        rs = run_histories(evs, [[idx]], seed)
        judge(part, evs, ref, [idx], name, seed, rs[0], "alignment")
        part.add("alignments", 1)
    return part.result()



def kept_events(evs):
    """calls against documents that the client keeps alive (slots A, B, C), next to reads of other documents"""
    by = dict(evs)
    big, small = by["xml_ok"]["buf"], by["xml_via_fd"]["buf"]
    xta = by["xta_ok"]["buf"]
    P = parts()
    A = {"slot": "A", "model": "big", "ctx": big}
    B = {"slot": "B", "model": "small", "ctx": small}
    C = {"slot": "C", "model": "xta", "ctx": xta, "ctxkind": "xta"}
    A2 = {"slot": "A", "model": "small", "ctx": small}
    out = [
        ("query_on_A", dict(A, kind="query_on", text="A[] g1 >= 0")),
        ("query_on_A_diagnosed", dict(A, kind="query_on", text="E<> g1 == 1 and\n   nosuch > 2")),
        ("block_on_A", dict(A, kind="block_on", part=P["S_EXPRESSION"], text="g1 + 1", xpath="/nta/queries/x")),
        ("block_on_A_diagnosed", dict(A, kind="block_on", part=P["S_EXPRESSION"], text="g1 +\n nosuch", xpath="/nta/queries/x")),
        ("query_on_B", dict(B, kind="query_on", text="E<> i == 1 and P.L0")),
        ("query_on_B_diagnosed", dict(B, kind="query_on", text="E<> nosuch")),
        ("query_on_C", dict(C, kind="query_on", text="A[] g1 >= 0")),
        ("query_on_A_other_model", dict(A2, kind="query_on", text="E<> i == 1")),
        ("drop_A", {"kind": "drop", "slot": "A"}),
        # calls that read nothing (the empty query every new model carries, an empty block), and a diagnosed block on another
        # document under the same path
        ("query_on_A_empty", dict(A, kind="query_on", text="")),
        ("block_on_A_empty", dict(A, kind="block_on", part=P["S_EXPRESSION"], text="", xpath="/nta/queries/x")),
        ("block_on_B_diagnosed", dict(B, kind="block_on", part=P["S_EXPRESSION"], text="i +\n nosuch", xpath="/nta/queries/x")),
    ]
    for name in ("xml_ok", "xml_via_fd", "xta_ok", "xml_syntax_error", "query_ok", "xml_old_syntax"):
        out.append((name, by[name]))
    return out


def shard_kept(args):
    evs, ref, seedname, seed, hs = args
    part = engine.Part()
    B = 200
    for i in range(0, len(hs), B):
        chunk = hs[i:i + B]
        rs = run_histories(evs, chunk, seed)
        for h, r in zip(chunk, rs):
            judge(part, evs, ref, h, seedname, seed, r, "kept-documents")
            part.add("kept_document_histories", 1)
    return part.result()


def all_histories(n, length):
    hs = [[]]
    for _ in range(length):
        hs = [h + [e] for h in hs for e in range(n)]
    return hs


def main():
    t = engine.tier()
    evs = events()
    n = len(evs)
    L = 2 if t == "quick" else 3
    DEPTH = 3 if t == "quick" else 6
    rep = engine.Report(PID, "model_checking",
                        "explicit-state search over call histories executed on the real library: %d events (XML/XTA/query/block entry "
                        "points; accepted, diagnosed, throwing XMLReaderError/XMLDocError/runtime_error/TypeException, unterminated "
                        "comments, 3.x syntax, client builder aborting inside a comment / an array declarator / a label) from counter "
                        "seeds %s; all histories of length <= %d unpruned, then BFS to depth %d merging histories that leave identical "
                        "process-global state (parser statics, flex state, tracker, errno); every call compared with the same call "
                        "made first in a fresh process.  Alignment sweep of the position counter across 2^31 and 2^32 for every event.  Documents that stay "
                        "alive between calls: all histories of length <= %d over 18 events (queries and expression blocks, accepted and diagnosed, against "
                        "three kept documents read from XML and XTA, replacing and dropping a kept document, reads of other documents in between)."
                        % (n, [s for s, _ in SEEDS] + [WRAP_SEED[0]], L, DEPTH, 3 if t == "quick" else 4))
    rep.set_deadline(240 if t == "quick" else 2400)
    import time
    t0 = time.time()
    phase_s = {}
    ref = reference(evs)
    sizes = {}
    for (name, _), r in zip(evs, ref):
        rep.nontrivial_case(r["h"])
        sizes[name] = r["g"]
    rep.extra["events"] = [name for name, _ in evs]
    rep.extra["reference_outcomes"] = {name: {"exc": r["r"].get("exc"), "ret": r["r"].get("ret"),
                                              "errors": len(r["r"].get("errors", [])), "globals_after": r["g"][:200]}
                                       for (name, _), r in zip(evs, ref)}
    # (1) unpruned
    ncpu = engine.ncpu()
    jobs = []
    hs_all = []
    for l in range(1, L + 1):
        hs_all += all_histories(n, l)
    # (quick: three of the four counter seeds; the fourth differs from the second only in the alignment, which phase 3 sweeps)
    # (seed by seed, shortest histories first: a tier that runs into its deadline reports what it completed and is not exhaustive)
    done_seeds = []
    for seedname, seed in [SEEDS[0], WRAP_SEED] + (SEEDS[1:] if t == "thorough" else SEEDS[1:2] + SEEDS[3:]):
        if rep.out_of_time(0.45):
            break
        hs = hs_all if seedname != WRAP_SEED[0] else [h for h in hs_all if len(h) <= 2]
        chunk = max(50, len(hs) // (ncpu * 2) + 1)
        jobs = [(evs, ref, seedname, seed, hs[i:i + chunk]) for i in range(0, len(hs), chunk)]
        for res in engine.pmap(shard_unpruned, jobs):
            rep.merge(res)
        done_seeds.append(seedname)
    rep.extra["unpruned_length"] = L
    rep.extra["unpruned_seeds_completed"] = done_seeds
    phase_s["unpruned"] = round(time.time() - t0, 1)
    for h in (hs_all[n + 5], hs_all[-1]):
        rep.sample({"history": [evs[i][0] for i in h], "first_event": evs[h[0]][1]})
    # (2) BFS on the exact global-state digest
    states_total = 0
    depth_done = {}
    for bi, (seedname, seed) in enumerate(BFS_SEEDS):
        seen = {}
        frontier = [[]]
        for depth in range(1, DEPTH + 1):
            if rep.out_of_time(0.75):
                break
            chunk = max(5, min(400, len(frontier) // (ncpu * 3) + 1))
            jobs = [(evs, ref, seedname, seed, frontier[i:i + chunk]) for i in range(0, len(frontier), chunk)]
            nxt = []
            for res in engine.pmap(shard_bfs, jobs):
                st = res.pop("states")
                rep.merge(res)
                for h, g in st:
                    if g not in seen:
                        seen[g] = h
                        nxt.append(h)
            nxt.sort()
            frontier = nxt
            depth_done[seedname] = depth
            if not frontier:
                break
        states_total += len(seen)
    phase_s["bfs"] = round(time.time() - t0, 1)
    trans_total = int(rep.extra.get("transitions", 0))
    rep.extra["bfs_states"] = states_total
    rep.extra["bfs_depth_completed"] = depth_done
    # (3) alignment sweep
    jobs = []
    flat = []
    step = 1 if (t == "thorough" and not rep.out_of_time(0.8)) else 7      # (a thorough tier that is late sweeps with the quick step)
    for idx, (name, e) in enumerate(evs):
        size = len(e.get("buf", "") or e.get("text", "")) + len(e.get("ctx", "")) + 64
        for bname, b in (("2^31", 2 ** 31), ("2^32", 2 ** 32)):
            for k in range(1, size, step):
                flat.append((idx, b - k, "%s-k" % bname))
    chunk = max(20, len(flat) // (ncpu * 4) + 1)
    jobs = [(evs, ref, flat[i:i + chunk]) for i in range(0, len(flat), chunk)]
    for res in engine.pmap(shard_align, jobs):
        rep.merge(res)
    rep.extra["alignment_step"] = step
    phase_s["alignment"] = round(time.time() - t0, 1)
    # (4) documents that stay alive between calls
    kevs = kept_events(evs)
    kref = reference(kevs)
    KL = 3 if (t == "quick" or rep.out_of_time(0.85)) else 4
    kdone = []
    for seedname, seed in BFS_SEEDS:
        for l in range(1, KL + 1):
            if l == KL and KL > 3 and rep.out_of_time(0.9):
                break
            khs = all_histories(len(kevs), l)
            chunk = max(50, len(khs) // (ncpu * 2) + 1)
            jobs = [(kevs, kref, seedname, seed, khs[i:i + chunk]) for i in range(0, len(khs), chunk)]
            for res in engine.pmap(shard_kept, jobs):
                rep.merge(res)
            kdone.append("%s:length-%d" % (seedname, l))
    rep.extra["kept_document_events"] = [name for name, _ in kevs]
    rep.extra["kept_document_length"] = KL
    rep.extra["kept_document_completed"] = kdone
    phase_s["kept"] = round(time.time() - t0, 1)
    rep.extra["phase_end_s"] = phase_s
    print("phases end at", phase_s)
    rep.assumptions = ["exception messages are not compared (only the class), as the statement says",
                       "the position counter is seeded directly instead of feeding gigabytes of input",
                       "libxml2's own global state is observed only through results",
                       "BFS pruning assumes the digest (parser statics via the wrapper TU, flex start condition and buffer stack, "
                       "tracker line/offset/position/path, errno) is everything a later call can read"]
    rep.nontrivial_count = states_total
    rep.rule = rep.rule + "  distinct_nontrivial = number of distinct process-global states reached by a non-empty history (BFS digests)."
    cov = {"states": states_total, "transitions": trans_total, "traces_validated_against_impl": rep.evaluations}
    sys.exit(rep.finish(cov))


if __name__ == "__main__":
    main()
