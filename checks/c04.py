#!/usr/bin/env python3
"""C04 — the document built from an XML model mirrors the XML's structure
exactly.  Choice-tree exploration of the abstract model generator R2
(lib/modelgen.py): the base model and every choice sequence with at most d
deviations is rendered to XML, parsed by the real library, and the resulting
document is compared with the document computed from the abstract model."""
import json
import os
import sys

sys.path.insert(0, os.path.join(os.path.dirname(os.path.abspath(__file__)), "..", "lib"))
import choice
import engine
import modelgen as MG
import xmlgen

PID = "C04"


def bound():
    return 3 if engine.tier() == "thorough" else 2


def gen(choose):
    return MG.build(choose)


def run_shard(prefs):
    part = engine.Part()
    w = engine.worker("fast")
    models, docs = [], []
    for pf in prefs:
        m, r = choice.run(gen, pf)
        models.append((m, r))
        docs.append(MG.render_xml(m))
    res = xmlgen.run_docs(w, docs, want=["dump", "nosymtypes"], batch=50)
    for (m, r), doc, resp in zip(models, docs, res):
        part.count()
        devs = choice.deviations(r.choices, r.tags)
        rp = {"op": "xml", "buf": doc, "want": ["dump", "nosymtypes"], "choices": r.choices, "deviations": devs}
        if engine.check_crash(part, PID, resp, "model " + ",".join(devs), rp):
            continue
        part.nontrivial_case(json.dumps(r.choices))
        if resp.get("exc") is not None or resp.get("ret") != 0:
            part.outcome("aborted")
            part.violation("parse-aborted:" + devkey(devs), "well-formed model (%s) is not parsed: ret=%s exc=%s %s" %
                           (devs, resp.get("ret"), resp.get("exc"), resp.get("what")), rp)
            continue
        exp = MG.expected(m)
        got = MG.project(resp["dump"], m)
        d = MG.diff(exp, got)
        if d:
            part.outcome("mismatch")
            part.violation("mismatch:%s:%s" % (generic_path(d[0]), devkey(devs)),
                           "document differs from the model at %s: expected %s, document has %s (deviations %s)" %
                           (d[0], json.dumps(d[1])[:200], json.dumps(d[2])[:200], devs), rp)
            continue
        if resp.get("errors"):
            part.outcome("mirrors+diagnostics")
            part.violation("unexpected-diagnostics:" + devkey(devs),
                           "type-correct generated model (%s) draws diagnostics %s" % (devs, xmlgen.msgs(resp)[:3]), rp)
            continue
        part.outcome("mirrors:%dT/%dE/%dB/%dP" % (len(m.tpls), len(m.tpls[0].edges), len(m.tpls[0].bps), len(m.procs)))
        if len(part.samples) < 1:
            part.sample({"deviations": devs, "xml": doc[:600] + "..."})
    return part.result()


def generic_path(p):
    import re
    return re.sub(r"\d+", "N", p)


def devkey(devs):
    return "+".join(d.split("=")[0] for d in devs) or "base"


def main():
    b = bound()
    rep = engine.Report(PID, "exploration",
                        "choice-tree exploration of the abstract model generator (about 73 choice points: templates, parameters by "
                        "value/reference/const/bounded, named/anonymous locations, invariant/rate labels, urgent/committed, "
                        "branchpoints, init, edge end points over all nodes, controllable, every label kind and label order, global "
                        "declarations, full/partial/direct instantiation, process order and priorities): the base model and every "
                        "choice sequence with <= %d deviations. distinct = distinct choice sequence." % b)
    prefs = choice.prefixes(gen, b)
    rep.extra["deviation_bound"] = b
    rep.extra["choice_sequences"] = len(prefs)
    n = engine.ncpu()
    chunk = max(1, min(400, len(prefs) // (n * 4) + 1))
    shards = [prefs[i:i + chunk] for i in range(0, len(prefs), chunk)]
    for res in engine.pmap(run_shard, shards):
        rep.merge(res)
    rep.assumptions = ["the reference document is computed from the abstract model by lib/modelgen.py (expected())",
                       "models are type correct by construction; diagnostics on them are reported as violations",
                       "small scope: <= 3 templates, <= 4 locations, <= 2 branchpoints, <= 7 edges, deviation bound %d" % b]
    sys.exit(rep.finish())


if __name__ == "__main__":
    main()
