#!/usr/bin/env python3
"""Build libutap from the *current working tree* of the repository plus the
verification harness, in one of the flavours described in DESIGN.md §2.2.

    fast : -O2 -DNDEBUG -D_GLIBCXX_ASSERTIONS                (volume flavour)
    san  : -O1 -DNDEBUG -fsanitize=address,undefined         (memory/UB oracle)
           parser TU additionally with --param asan-stack=0

The output directory is keyed by a hash of every input (sources of the
repository, harness sources, flags), so a call is a no-op when nothing changed
and a full rebuild whenever /repo (or the harness) was edited.  Only the most
recent directory per flavour is kept.
"""
import concurrent.futures
import fcntl
import hashlib
import os
import shutil
import subprocess
import sys
import time

VERIF = os.path.dirname(os.path.dirname(os.path.abspath(__file__)))
HARNESS = os.path.join(VERIF, "harness")
BUILD = os.path.join(VERIF, "build")
GUARD = "UTAP_VERIF"


def repo_dir():
    return os.environ.get("UTAPV_REPO", "/repo")


COMMON = ["-std=c++17", "-DNDEBUG", "-D" + GUARD, "-fPIC", "-w"]
FLAV = {
    "fast": ["-O2", "-g1", "-D_GLIBCXX_ASSERTIONS"],
    "san": ["-O1", "-g1", "-fsanitize=address,undefined", "-fno-omit-frame-pointer",
            "-fno-sanitize-recover=undefined", "-D_GLIBCXX_ASSERTIONS"],
}
FLAV["cov"] = ["-O0", "-g1", "--coverage"]      # diagnostic only (tools/coverage.sh): which library code do the checks reach
LINK = {
    "cov": ["--coverage"],
    "fast": [],
    "san": ["-fsanitize=address,undefined"],
}
PARSER_EXTRA = {
    "cov": [],
    "fast": [],
    "san": ["--param", "asan-stack=0"],
}
CXX = os.environ.get("UTAPV_CXX", "g++")


def _hash_inputs(repo, flavour):
    h = hashlib.sha256()
    h.update(flavour.encode())
    h.update(" ".join(COMMON + FLAV[flavour] + PARSER_EXTRA[flavour] + LINK[flavour]).encode())
    files = []
    for sub in ("src", "include"):
        for root, _dirs, fs in os.walk(os.path.join(repo, sub)):
            for f in fs:
                files.append(os.path.join(root, f))
    for root, _dirs, fs in os.walk(HARNESS):
        for f in fs:
            files.append(os.path.join(root, f))
    for f in sorted(files):
        h.update(f.encode())
        with open(f, "rb") as fh:
            h.update(hashlib.sha256(fh.read()).digest())
    return h.hexdigest()[:16]


def _run(cmd, log):
    p = subprocess.run(cmd, stdout=subprocess.PIPE, stderr=subprocess.STDOUT)
    if p.returncode != 0:
        log.append("FAILED: " + " ".join(cmd) + "\n" + p.stdout.decode(errors="replace")[-4000:])
    return p.returncode


def _build(repo, flavour, out):
    t0 = time.time()
    os.makedirs(os.path.join(out, "gen", "include"), exist_ok=True)
    os.makedirs(os.path.join(out, "obj"), exist_ok=True)
    gen = os.path.join(out, "gen")
    log = []
    # exactly the command lines of src/CMakeLists.txt
    if _run(["flex", "--outfile=" + os.path.join(gen, "lexer.cc"), "-Putap_", os.path.join(repo, "src", "lexer.l")], log):
        raise RuntimeError("flex failed\n" + "\n".join(log))
    if _run(["bison", "-putap_", "-bparser", os.path.join(repo, "src", "parser.y"),
             "--output=" + os.path.join(gen, "parser.cpp"),
             "--defines=" + os.path.join(gen, "include", "parser.hpp")], log):
        raise RuntimeError("bison failed\n" + "\n".join(log))
    # names of the kind_t enumerators, in order, taken from the tree being built
    import re
    txt = open(os.path.join(repo, "include", "utap", "common.h")).read()
    m = re.search(r"enum\s+kind_t\s*\{(.*?)\};", txt, re.S)
    body = re.sub(r"/\*.*?\*/", "", m.group(1), flags=re.S)
    body = re.sub(r"//[^\n]*", "", body)
    names = [x.strip().split("=")[0].strip() for x in body.split(",") if x.strip()]
    with open(os.path.join(gen, "kindnames.inc"), "w") as fh:
        fh.write(",\n".join('"%s"' % n for n in names) + "\n")
    inc = ["-I", os.path.join(repo, "include"), "-I", os.path.join(repo, "src"), "-I", gen,
           "-I", os.path.join(gen, "include"), "-I", "/usr/include/libxml2", "-I", HARNESS]
    base = [CXX] + COMMON + FLAV[flavour] + inc
    jobs = []
    objs = []
    srcs = sorted(f for f in os.listdir(os.path.join(repo, "src")) if f.endswith(".cpp") or f.endswith(".c"))
    for f in srcs:
        o = os.path.join(out, "obj", f + ".o")
        if f == "expression.cpp":
            # wrapper TU: #include "expression.cpp" + accessors for expression_data (DESIGN §2.2)
            jobs.append(base + ["-fno-access-control", "-c", os.path.join(HARNESS, "wrap_expression.cpp"), "-o", o])
        else:
            jobs.append(base + ["-c", os.path.join(repo, "src", f), "-o", o])
        objs.append(o)
    # parser: wrapper TU with bison's trace output routed into the harness; the file-statics it reads are detected in
    # the generated parser of the tree being built (a renamed/removed one is simply left out of the digest)
    ptxt = open(os.path.join(gen, "parser.cpp"), errors="replace").read()
    has = []
    for nm, pat in (("ch", r"^static\s+ParserBuilder\s*\*\s*ch\s*;"), ("syntax", r"^static\s+syntax_t\s+syntax\s*;"),
                    ("syntax_token", r"^static\s+int\s+syntax_token\b"), ("types", r"^static\s+int\s+types\b"),
                    ("rootTransId", r"^static\s+char\s+rootTransId\s*\[")):
        if re.search(pat, ptxt, re.M):
            has.append("-DUTAPV_HAS_" + nm)
    o = os.path.join(out, "obj", "parser.o")
    jobs.append(base + has + PARSER_EXTRA[flavour] +
                ["-DYYDEBUG=1", "-DYYFPRINTF=utapv_trace", "-include", os.path.join(HARNESS, "utapv_trace.h"),
                 "-c", os.path.join(HARNESS, "wrap_parser.cpp"), "-o", o])
    objs.append(o)
    # private members of the builders that the state digest of harness/pm.cpp reads: only those the tree being built declares
    btxt = ""
    for h in ("ExpressionBuilder.hpp", "StatementBuilder.hpp", "DocumentBuilder.hpp", "AbstractBuilder.hpp"):
        try:
            btxt += open(os.path.join(repo, "include", "utap", h), errors="replace").read()
        except OSError:
            pass
    members = ["-DUTAPV_M_" + nm for nm in ("scalar_count", "typeFragments", "currentTemplate", "params", "blocks", "fields", "labels", "currentFun",
                                            "currentEdge", "currentQuery", "currentExpectation", "currentGantt", "currentIODecl", "currentProcPriority")
               if re.search(r"\b%s\b" % nm, btxt)]
    hobjs = []
    for f in sorted(os.listdir(HARNESS)):
        if f.endswith(".cpp") and not f.startswith("wrap_") and not f.startswith("standalone_"):
            o = os.path.join(out, "obj", "h_" + f + ".o")
            jobs.append(base + members + ["-fno-access-control", "-c", os.path.join(HARNESS, f), "-o", o])
            hobjs.append(o)
    with concurrent.futures.ThreadPoolExecutor(max_workers=int(os.environ.get("UTAPV_JOBS", "16"))) as ex:
        rcs = list(ex.map(lambda c: _run(c, log), jobs))
    if any(rcs):
        raise RuntimeError("compile failed\n" + "\n".join(log))
    lib = os.path.join(out, "libutap.a")
    if _run(["ar", "rcs", lib] + objs, log):
        raise RuntimeError("ar failed\n" + "\n".join(log))
    exe = os.path.join(out, "utapv")
    if _run([CXX] + LINK[flavour] + ["-o", exe] + hobjs + [lib, "-lxml2", "-ldl", "-Wl,--wrap=dlopen"], log):
        raise RuntimeError("link failed\n" + "\n".join(log))
    # standalone programs (header-only targets): one executable each
    for f in sorted(os.listdir(HARNESS)):
        if f.startswith("standalone_") and f.endswith(".cpp"):
            name = f[len("standalone_"):-4]
            rec = ["-fsanitize-recover=undefined", "-pthread"] if flavour == "san" else ["-pthread"]
            if _run([CXX] + COMMON + FLAV[flavour] + rec + inc + LINK[flavour] +
                    ["-o", os.path.join(out, name), os.path.join(HARNESS, f)], log):
                raise RuntimeError("standalone failed\n" + "\n".join(log))
    if flavour != "cov":      # the coverage notes (.gcno) and counts (.gcda) live next to the objects
        shutil.rmtree(os.path.join(out, "obj"), ignore_errors=True)
    with open(os.path.join(out, "OK"), "w") as fh:
        fh.write("%.1f\n" % (time.time() - t0))


def ensure(flavour, quiet=False):
    """Return the directory holding utapv & co. for this flavour, building if needed."""
    repo = repo_dir()
    fdir = os.path.join(BUILD, flavour)
    os.makedirs(fdir, exist_ok=True)
    with open(os.path.join(fdir, ".lock"), "w") as lk:
        fcntl.flock(lk, fcntl.LOCK_EX)
        key = _hash_inputs(repo, flavour)
        out = os.path.join(fdir, key)
        if not os.path.exists(os.path.join(out, "OK")):
            shutil.rmtree(out, ignore_errors=True)
            # keep the two most recently used other builds (mutation demos switch trees back and forth)
            olds = sorted((d for d in os.listdir(fdir) if d != ".lock"),
                          key=lambda d: os.path.getmtime(os.path.join(fdir, d)), reverse=True)
            for d in olds[2:]:
                # (a build that was used in the last half hour may belong to a check that is still running against another tree)
                if time.time() - os.path.getmtime(os.path.join(fdir, d)) > 1800:
                    shutil.rmtree(os.path.join(fdir, d), ignore_errors=True)
            if not quiet:
                print("[build] %s flavour from %s -> %s" % (flavour, repo, out), file=sys.stderr, flush=True)
            t0 = time.time()
            try:
                _build(repo, flavour, out)
            except Exception:
                shutil.rmtree(out, ignore_errors=True)
                raise
            if not quiet:
                print("[build] %s done in %.1fs" % (flavour, time.time() - t0), file=sys.stderr, flush=True)
        else:
            os.utime(out)
        return out


if __name__ == "__main__":
    fl = sys.argv[1:] or ["fast", "san"]
    with concurrent.futures.ThreadPoolExecutor(max_workers=2) as ex:
        for d in ex.map(ensure, fl):
            print(d)
