"""Reference R1: the UPPAAL operator table, abstract expression trees, their
fully / minimally parenthesised renderings and the s-expression the library
must build for them (DESIGN.md §3/C02).  Independent transcription of the
language's operator table - it never looks at parser.y or expression.cpp."""

# declaration context in which every enumerated tree is syntactically and builder-valid
DECL = ("int a, b, c, d, e; int arr[3]; int mat[2][2]; typedef struct { int f; int g; } Rec; Rec rec, rec2; Rec recs[2]; "
        "clock x, y; bool p, q; double z, w; "
        "int fn0() { return 1; } int fn1(int u) { return u; } int fn2(int u, int v) { return u; } "
        "Rec mk() { return rec; } ")

# precedence levels, low -> high
L_QUANT, L_ASSIGN, L_COND, L_OR, L_AND, L_BOR, L_BXOR, L_BAND, L_EQ, L_REL, L_MINMAX, L_SHIFT, L_ADD, L_MUL, L_POW, \
    L_UNARY, L_PREINC, L_POSTFIX, L_ATOM = range(19)

BINARY = {  # kind -> (spelling, level)     all left associative
    "OR": ("||", L_OR), "XOR": ("xor", L_OR), "AND": ("&&", L_AND),
    "BIT_OR": ("|", L_BOR), "BIT_XOR": ("^", L_BXOR), "BIT_AND": ("&", L_BAND),
    "EQ": ("==", L_EQ), "NEQ": ("!=", L_EQ),
    "LT": ("<", L_REL), "LE": ("<=", L_REL), "GE": (">=", L_REL), "GT": (">", L_REL),
    "MIN": ("<?", L_MINMAX), "MAX": (">?", L_MINMAX),
    "BIT_LSHIFT": ("<<", L_SHIFT), "BIT_RSHIFT": (">>", L_SHIFT),
    "PLUS": ("+", L_ADD), "MINUS": ("-", L_ADD),
    "MULT": ("*", L_MUL), "DIV": ("/", L_MUL), "MOD": ("%", L_MUL),
    "POW": ("**", L_POW),
}
# keyword aliases: rendered differently, same tree (imply is sugar for !a || b)
ALIAS_BINARY = {"OR_KW": ("or", L_OR, "OR"), "AND_KW": ("and", L_AND, "AND"), "IMPLY": ("imply", L_OR, None)}
ASSIGN = {"ASSIGN": "=", "ASS_PLUS": "+=", "ASS_MINUS": "-=", "ASS_MULT": "*=", "ASS_DIV": "/=", "ASS_MOD": "%=",
          "ASS_OR": "|=", "ASS_AND": "&=", "ASS_XOR": "^=", "ASS_LSHIFT": "<<=", "ASS_RSHIFT": ">>="}
ALIAS_ASSIGN = {"ASSIGN_COLON": (":=", "ASSIGN")}
PREFIX = {"UNARY_MINUS": ("-", L_UNARY), "NOT": ("!", L_UNARY), "NOT_KW": ("not", L_UNARY), "UPLUS": ("+", L_UNARY),
          "PRE_INCREMENT": ("++", L_PREINC), "PRE_DECREMENT": ("--", L_PREINC)}
POSTFIX = {"POST_INCREMENT": "++", "POST_DECREMENT": "--", "RATE": "'"}
QUANT = {"FORALL": "forall", "EXISTS": "exists", "SUM": "sum"}
BUILTIN = {"ABS_F": ("abs", 1), "FMOD_F": ("fmod", 2), "FMA_F": ("fma", 3), "POW_F": ("pow", 2), "SQRT_F": ("sqrt", 1)}
# every built-in function of the language (the kind <-> name tables of parser and printer are long hand-written lists);
# used at depth 1 only, the five above stand for them at depth 2
BUILTIN_ALL = {
    "FABS_F": ("fabs", 1), "EXP_F": ("exp", 1), "EXP2_F": ("exp2", 1), "EXPM1_F": ("expm1", 1), "LN_F": ("ln", 1), "LOG_F": ("log", 1),
    "LOG10_F": ("log10", 1), "LOG2_F": ("log2", 1), "LOG1P_F": ("log1p", 1), "CBRT_F": ("cbrt", 1), "SIN_F": ("sin", 1), "COS_F": ("cos", 1),
    "TAN_F": ("tan", 1), "ASIN_F": ("asin", 1), "ACOS_F": ("acos", 1), "ATAN_F": ("atan", 1), "SINH_F": ("sinh", 1), "COSH_F": ("cosh", 1),
    "TANH_F": ("tanh", 1), "ASINH_F": ("asinh", 1), "ACOSH_F": ("acosh", 1), "ATANH_F": ("atanh", 1), "ERF_F": ("erf", 1), "ERFC_F": ("erfc", 1),
    "TGAMMA_F": ("tgamma", 1), "LGAMMA_F": ("lgamma", 1), "CEIL_F": ("ceil", 1), "FLOOR_F": ("floor", 1), "TRUNC_F": ("trunc", 1),
    "ROUND_F": ("round", 1), "FINT_F": ("fint", 1), "ILOGB_F": ("ilogb", 1), "LOGB_F": ("logb", 1), "FP_CLASSIFY_F": ("fpclassify", 1),
    "IS_FINITE_F": ("isfinite", 1), "IS_INF_F": ("isinf", 1), "IS_NAN_F": ("isnan", 1), "IS_NORMAL_F": ("isnormal", 1), "SIGNBIT_F": ("signbit", 1),
    "IS_UNORDERED_F": ("isunordered", 1), "RANDOM_F": ("random", 1), "RANDOM_POISSON_F": ("random_poisson", 1), "FMAX_F": ("fmax", 2),
    "FMIN_F": ("fmin", 2), "FDIM_F": ("fdim", 2), "HYPOT_F": ("hypot", 2), "ATAN2_F": ("atan2", 2), "LDEXP_F": ("ldexp", 2),
    "NEXT_AFTER_F": ("nextafter", 2), "COPY_SIGN_F": ("copysign", 2), "RANDOM_ARCSINE_F": ("random_arcsine", 2), "RANDOM_BETA_F": ("random_beta", 2),
    "RANDOM_GAMMA_F": ("random_gamma", 2), "RANDOM_NORMAL_F": ("random_normal", 2), "RANDOM_WEIBULL_F": ("random_weibull", 2),
    "RANDOM_TRI_F": ("random_tri", 3),
}


# ---- trees ------------------------------------------------------------------------
# ("ID", name) ("INT", n) ("DBL", text, hex) ("BOOL", 0/1)
# (kind, child...) for operators; ("ARRAY", base, idx); ("DOT", base, field, index);
# ("CALL", fname, args...); ("BUILTIN", kind, args...); ("QUANT", kind, var, body); ("INLINE_IF", c, a, b)

def level(t):
    k = t[0]
    if k == "PAREN":        # a redundant pair of parentheses around t[1] (C09); no node in the tree
        return L_ATOM
    if k == "INTMIN":       # the literal -2147483648: one constant, spelled with a prefix minus
        return L_UNARY
    if k in ("ID", "INT", "DBL", "BOOL", "CALL", "BUILTIN"):
        return L_ATOM if k != "CALL" else L_POSTFIX
    if k in BINARY:
        return BINARY[k][1]
    if k in ALIAS_BINARY:
        return ALIAS_BINARY[k][1]
    if k in ASSIGN or k in ALIAS_ASSIGN:
        return L_ASSIGN
    if k in PREFIX:
        return PREFIX[k][1]
    if k in POSTFIX or k in ("ARRAY", "DOT"):
        return L_POSTFIX
    if k == "INLINE_IF":
        return L_COND
    if k == "QUANT":
        return L_QUANT
    raise ValueError(k)


def _par(s):
    return "( " + s + " )"


def render(t, full):
    """full=True: every operand parenthesised; full=False: only where R1 requires it"""
    k = t[0]

    def sub(c, need):
        s = render(c, full)
        if c[0] in ("ID", "INT", "DBL", "BOOL") or (c[0] == "INTMIN" and not need and not full):
            return s
        return _par(s) if (full or need) else s

    if k == "PAREN":
        return _par(render(t[1], full))
    if k == "INTMIN":
        return "-2147483648"
    if k == "ID":
        return t[1]
    if k == "INT":
        return str(t[1])
    if k == "DBL":
        return t[1]
    if k == "BOOL":
        return "true" if t[1] else "false"
    if k in BINARY or k in ALIAS_BINARY:
        sp, lv = (BINARY[k] if k in BINARY else ALIAS_BINARY[k][:2])
        a, b = t[1], t[2]
        return "%s %s %s" % (sub(a, level(a) < lv), sp, sub(b, level(b) <= lv))   # left associative
    if k in ASSIGN or k in ALIAS_ASSIGN:
        sp = ASSIGN[k] if k in ASSIGN else ALIAS_ASSIGN[k][0]
        a, b = t[1], t[2]
        # right associative; an inline-if on the left is parenthesised as well (mixfix corner, DESIGN §3/C02)
        return "%s %s %s" % (sub(a, level(a) <= L_COND), sp, sub(b, level(b) < L_ASSIGN))
    if k == "INLINE_IF":
        c, a, b = t[1], t[2], t[3]
        # ?: and the assignment family form one right-associative group, as in C++: the else operand extends as far
        # to the right as possible, so an assignment there needs no parentheses (`c ? a : b = d` is `c ? a : (b = d)`),
        # while an inline-if that is the *left* operand of an assignment does (see the assignment case above).
        return "%s ? %s : %s" % (sub(c, level(c) <= L_COND), sub(a, level(a) < L_COND), sub(b, level(b) < L_ASSIGN))
    if k in PREFIX:
        sp, lv = PREFIX[k]
        return "%s %s" % (sp, sub(t[1], level(t[1]) < lv))
    if k in POSTFIX:
        return "%s %s" % (sub(t[1], level(t[1]) < L_POSTFIX), POSTFIX[k])
    if k == "ARRAY":
        return "%s [ %s ]" % (sub(t[1], level(t[1]) < L_POSTFIX), render(t[2], full) if not full else sub(t[2], True))
    if k == "DOT":
        return "%s . %s" % (sub(t[1], level(t[1]) < L_POSTFIX), t[2])
    if k == "CALL":
        return "%s ( %s )" % (t[1], " , ".join(sub(c, level(c) < L_ASSIGN) if not full else sub(c, True) for c in t[2:]))
    if k == "BUILTIN":
        return "%s ( %s )" % ((BUILTIN.get(t[1]) or BUILTIN_ALL[t[1]])[0], " , ".join(sub(c, level(c) < L_ASSIGN) if not full else sub(c, True)
                                                             for c in t[2:]))
    if k == "QUANT":
        return "%s ( %s : %s ) %s" % (QUANT[t[1]], t[2], t[4] if len(t) > 4 else "int[0,1]", sub(t[3], False))
    raise ValueError(k)


def expected(t):
    """s-expression (harness format, symtypes off) the library must build"""
    k = t[0]
    if k == "PAREN":
        return expected(t[1])
    if k == "INTMIN":
        return "(CONSTANT:INT -2147483648)"
    if k == "ID":
        return "(IDENTIFIER %s)" % t[1]
    if k == "INT":
        return "(CONSTANT:INT %d)" % t[1]
    if k == "DBL":
        return "(CONSTANT:DOUBLE %s)" % t[2]
    if k == "BOOL":
        return "(CONSTANT:BOOL %d)" % t[1]
    if k in BINARY:
        return "(%s %s %s)" % (k, expected(t[1]), expected(t[2]))
    if k in ALIAS_BINARY:
        if k == "IMPLY":
            return "(OR (NOT %s) %s)" % (expected(t[1]), expected(t[2]))
        return "(%s %s %s)" % (ALIAS_BINARY[k][2], expected(t[1]), expected(t[2]))
    if k in ASSIGN:
        return "(%s %s %s)" % (k, expected(t[1]), expected(t[2]))
    if k in ALIAS_ASSIGN:
        return "(%s %s %s)" % (ALIAS_ASSIGN[k][1], expected(t[1]), expected(t[2]))
    if k == "INLINE_IF":
        return "(INLINE_IF %s %s %s)" % (expected(t[1]), expected(t[2]), expected(t[3]))
    if k == "UPLUS":
        return expected(t[1])
    if k == "NOT_KW":
        return "(NOT %s)" % expected(t[1])
    if k in PREFIX or k in POSTFIX:
        return "(%s %s)" % (k, expected(t[1]))
    if k == "ARRAY":
        return "(ARRAY %s %s)" % (expected(t[1]), expected(t[2]))
    if k == "DOT":
        return "(DOT:%d %s)" % (t[3], expected(t[1]))
    if k == "CALL":
        return "(FUN_CALL:v%d (IDENTIFIER %s)%s)" % (len(t) - 1, t[1], "".join(" " + expected(c) for c in t[2:]))
    if k == "BUILTIN":
        return "(%s%s)" % (t[1], "".join(" " + expected(c) for c in t[2:]))
    if k == "QUANT":
        return "(%s (IDENTIFIER %s) %s)" % (t[1], t[2], expected(t[3]))
    raise ValueError(k)


# ---- enumeration ------------------------------------------------------------------
ID = lambda n: ("ID", n)  # noqa: E731

# node constructors with *slots*: make(children) and the list of slot defaults (leaves).
# A slot of type "rec" only takes record-valued operands (the builder, not the grammar, demands it).


def constructors():
    cs = []
    for k in list(BINARY) + list(ALIAS_BINARY):
        cs.append((k, lambda ch, k=k: (k, ch[0], ch[1]), [ID("a"), ID("b")], ["any", "any"]))
    for k in list(ASSIGN) + list(ALIAS_ASSIGN):
        cs.append((k, lambda ch, k=k: (k, ch[0], ch[1]), [ID("a"), ID("b")], ["any", "any"]))
    for k in PREFIX:
        cs.append((k, lambda ch, k=k: (k, ch[0]), [ID("a")], ["any"]))
    for k in POSTFIX:
        cs.append((k, lambda ch, k=k: (k, ch[0]), [ID("x") if k == "RATE" else ID("a")], ["any"]))
    cs.append(("INLINE_IF", lambda ch: ("INLINE_IF", ch[0], ch[1], ch[2]), [ID("p"), ID("a"), ID("b")], ["any"] * 3))
    cs.append(("ARRAY", lambda ch: ("ARRAY", ch[0], ch[1]), [ID("arr"), ID("c")], ["any", "any"]))
    cs.append(("DOT", lambda ch: ("DOT", ch[0], "g", 1), [ID("rec")], ["rec"]))
    cs.append(("CALL0", lambda ch: ("CALL", "fn0"), [], []))
    cs.append(("CALL1", lambda ch: ("CALL", "fn1", ch[0]), [ID("a")], ["any"]))
    cs.append(("CALL2", lambda ch: ("CALL", "fn2", ch[0], ch[1]), [ID("a"), ID("b")], ["any", "any"]))
    for bk, (nm, ar) in BUILTIN.items():
        cs.append((bk, lambda ch, bk=bk: ("BUILTIN", bk) + tuple(ch), [ID("z"), ID("w"), ID("z")][:ar], ["any"] * ar))
    for qk in QUANT:
        cs.append((qk, lambda ch, qk=qk: ("QUANT", qk, "i", ch[0]), [ID("a")], ["any"]))
    return cs


REC_VALUED = [("ID", "rec"), ("ARRAY", ID("recs"), ("INT", 1)), ("CALL", "mk")]
LEAVES_EXTRA = [("INT", 1), ("INT", 0), ("DBL", "1.5", "0x1.8p+0"), ("BOOL", 1), ID("x"), ID("p"), ID("z"), ("INTMIN",)]


def depth1():
    """every constructor with leaf operands, and every built-in function"""
    out = [(name, mk(list(defaults))) for name, mk, defaults, _ in constructors()]
    for bk, (nm, ar) in BUILTIN_ALL.items():
        out.append((bk, ("BUILTIN", bk) + tuple([ID("z"), ID("w"), ID("z")][:ar])))
        out.append((bk + "/int-args", ("BUILTIN", bk) + tuple([ID("a"), ("INT", 2), ID("b")][:ar])))
    return out


def depth2():
    """every (parent, slot, child constructor) triple: child has leaf operands, other slots are leaves"""
    cons = constructors()
    kids = [(n, mk(list(d))) for n, mk, d, _ in cons]
    for pname, pmk, pdef, pslots in cons:
        for si, st in enumerate(pslots):
            if st == "rec":
                for ci, child in enumerate(REC_VALUED):
                    ch = list(pdef)
                    ch[si] = child
                    yield ("%s/%d/rec%d" % (pname, si, ci), pmk(ch))
                continue
            for cname, child in kids:
                ch = list(pdef)
                ch[si] = child
                yield ("%s/%d/%s" % (pname, si, cname), pmk(ch))
            for li, leaf in enumerate(LEAVES_EXTRA):
                ch = list(pdef)
                ch[si] = leaf
                yield ("%s/%d/leaf%d" % (pname, si, li), pmk(ch))


def depth3_chains(shard=None, nshards=1):
    """every chain parent/slot/child/slot/grandchild (other slots leaves)"""
    cons = constructors()
    kids = [(n, mk(list(d))) for n, mk, d, _ in cons]
    idx = 0
    for pname, pmk, pdef, pslots in cons:
        for si, st in enumerate(pslots):
            if st == "rec":
                continue
            for cname, cmk, cdef, cslots in cons:
                for sj, st2 in enumerate(cslots):
                    idx += 1
                    if shard is not None and idx % nshards != shard:
                        continue
                    if st2 == "rec":
                        gks = [("rec%d" % i, r) for i, r in enumerate(REC_VALUED)]
                    else:
                        gks = kids
                    for gname, g in gks:
                        cch = list(cdef)
                        cch[sj] = g
                        ch = list(pdef)
                        ch[si] = cmk(cch)
                        yield ("%s/%d/%s/%d/%s" % (pname, si, cname, sj, gname), pmk(ch))


def depth2_pairs(shard=None, nshards=1):
    """binary-shaped parents with *both* operand slots filled by non-leaf children"""
    cons = constructors()
    kids = [(n, mk(list(d))) for n, mk, d, _ in cons]
    idx = 0
    for pname, pmk, pdef, pslots in cons:
        if len(pslots) != 2 or "rec" in pslots:
            continue
        for an, a in kids:
            idx += 1
            if shard is not None and idx % nshards != shard:
                continue
            for bn, b in kids:
                yield ("%s(%s,%s)" % (pname, an, bn), pmk([a, b]))
