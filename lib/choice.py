"""Choice-tree exploration with deviation bounding (DESIGN.md §2.1a): a generator
is a deterministic function gen(choose) that builds one input and calls
choose(n, tag) at every decision point (0 = default alternative).  explore()
re-runs it for every choice sequence with at most `bound` non-default choices."""


class _Run:
    def __init__(self, prefix):
        self.prefix = prefix
        self.choices = []
        self.arity = []
        self.tags = []

    def choose(self, n, tag=""):
        i = len(self.choices)
        if i < len(self.prefix):
            c = self.prefix[i]
            if c >= n:
                raise RuntimeError("replay divergence at choice %d (%s): %d >= %d" % (i, tag, c, n))
        else:
            c = 0
        self.choices.append(c)
        self.arity.append(n)
        self.tags.append(tag)
        return c


def run(gen, prefix):
    r = _Run(list(prefix))
    obj = gen(r.choose)
    return obj, r


def explore(gen, bound, limit=None):
    """yields (object, choices, tags) for every choice sequence with <= bound deviations,
    fewest deviations first within each subtree (default first)."""
    count = [0]

    def rec(prefix, used):
        obj, r = run(gen, prefix)
        count[0] += 1
        yield obj, list(r.choices), list(r.tags)
        if used >= bound:
            return
        for i in range(len(prefix), len(r.choices)):
            for alt in range(1, r.arity[i]):
                if limit is not None and count[0] >= limit:
                    return
                yield from rec(r.choices[:i] + [alt], used + 1)

    yield from rec([], 0)


def prefixes(gen, bound):
    """the list of choice prefixes explore() would run (cheap enumeration for sharding):
    every prefix is a list of choices whose last element is the newest deviation."""
    out = []

    def rec(prefix, used):
        _, r = run(gen, prefix)
        out.append(list(prefix))
        if used >= bound:
            return
        for i in range(len(prefix), len(r.choices)):
            for alt in range(1, r.arity[i]):
                rec(r.choices[:i] + [alt], used + 1)

    rec([], 0)
    return out


def deviations(choices, tags):
    return ["%s=%d" % (t, c) for c, t in zip(choices, tags) if c != 0]
