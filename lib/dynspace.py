"""Expressions and queries over dynamic templates (quantifiers over instances, members of the bound instance, numOf / foreach):
the space shared by the C03 round trip and the C19 laws."""
import exprgen as G

DYN_XTA = ("dynamic Worker(int[0,3] wk); dynamic Probe(); " + G.DECL + """
process Worker(int[0,3] wk) { int load = 1; clock t; state Idle; init Idle; }
process Probe() { int level = 2; state Wait; init Wait; }
process Main() { state A; init A; }
M = Main();
system M;
""")
DYN_CTX = {"kind": "xta", "text": DYN_XTA}
DYN_MEMBERS = {"Worker": ("load", "Idle"), "Probe": ("level", "Wait")}


def dynamic_items():
    """(expressions, queries): each dynamic quantifier x template x body (member of the bound instance, globals, a binder that
    hides a global), in three surroundings; all ordered pairs of nested quantifiers incl. the same binder name twice"""
    exprs, queries = [], []

    def bodies(b, tn):
        num, loc = DYN_MEMBERS[tn]
        return ["%s.%s > a" % (b, num), "%s.%s" % (b, loc), "%s.%s == b + 1 && q" % (b, num), "a < b", "fn1(%s.%s) > arr[c]" % (b, num),
                "%s.%s && !(%s.%s < rec.f)" % (b, loc, b, num)]

    def nums(b, tn):
        num, _ = DYN_MEMBERS[tn]
        return ["%s.%s" % (b, num), "%s.%s + a" % (b, num), "a * 2", "fn2(%s.%s, b)" % (b, num)]

    quants = []
    for tn in DYN_MEMBERS:
        for b in ("w1", "p"):                     # `p` is also a global bool
            for qf in ("forall", "exists"):
                for body in bodies(b, tn):
                    quants.append("%s (%s : %s)(%s)" % (qf, b, tn, body))
            for body in nums(b, tn):
                quants.append("(sum (%s : %s)(%s)) > c" % (b, tn, body))
    for qf1 in ("forall", "exists"):
        for qf2 in ("forall", "exists", "sum"):
            for b2 in ("r", "w1"):
                inner = ("%s (%s : Probe)(w1.load > %s.level + c)" % (qf2, b2, b2) if qf2 != "sum"
                         else "(sum (%s : Probe)(%s.level + c)) < w1.load" % (b2, b2))
                if b2 == "w1":                     # the inner binder hides the outer one; the outer one is used after it
                    inner = ("%s (w1 : Probe)(w1.level > c)" % qf2 if qf2 != "sum" else "(sum (w1 : Probe)(w1.level)) > c") + " && w1.load > a"
                quants.append("%s (w1 : Worker)(%s)" % (qf1, inner))
    for x in quants:
        exprs += [x, "%s && a > b" % x, "!(%s) || q" % x]
        queries += ["Pr[<=10](<> %s)" % x, "Pr[<=10]([] %s && numOf(Worker) > a)" % x]
    for tn in DYN_MEMBERS:
        num, loc = DYN_MEMBERS[tn]
        queries += ["simulate [<=10] { numOf(%s), (sum (w1 : %s)(w1.%s)), a }" % (tn, tn, num),
                    "Pr[<=10](<> (foreach (w1 : %s)(w1.%s)) > numOf(%s))" % (tn, num, tn),
                    "E[<=10; 5](max: (sum (w1 : %s)(w1.%s + b)))" % (tn, num),
                    "Pr[<=10](<> numOf(%s) == b + 1)" % tn]
    # spawn as an expression: every argument shape, as a statement-like update, as an operand, nested
    for args in ("a", "a + 1", "fn1(b)", "arr[c] * 2", "p ? a : b"):
        exprs += ["spawn Worker(%s)" % args, "a = spawn Worker(%s)" % args, "spawn Worker(%s) + b" % args, "c = (spawn Worker(%s)) + (spawn Probe())" % args]
    exprs += ["spawn Probe()", "spawn Worker(spawn Probe())", "a = (spawn Probe()) + (b = spawn Worker(a))"]
    return exprs, queries


