"""Reference R2: abstract timed-automata models, their XML and XTA renderings and
the document the library must build from them (DESIGN.md §3/C04, C05, C20).

Every label, invariant, initialiser and argument carries a site-unique
constant so that any mis-attachment shows in the comparison."""
import xmlgen as X

GDECL = "const int GLO = 1; const int GHI = 3; typedef int[-2, GHI] gsel_t; int g1 = 901; int g2; int ga; int gb; int gc; clock gx; chan c; broadcast chan bc; clock gxs[2]; clock gys[2]; urgent chan uc; urgent broadcast chan ubc; urgent broadcast chan ubcs[2]; meta int gm; const bool gk = true; double gd; int gmat[2][3]; chan gcm[2][4]; typedef int[0,2] gi3_t; bool gsn[gi3_t][2];"


class Loc:
    def __init__(self, lid, name=None, inv=None, rate=None, kind=""):
        self.lid, self.name, self.inv, self.rate, self.kind = lid, name, inv, rate, kind
        self.rate_first = False    # XML only: the exponentialrate label precedes the invariant label
        self.invstyle = 0     # 0: one conjunct   1: two conjuncts, the first ends in the literal 1   2: three conjuncts

    def sym(self):
        return self.name if self.name is not None else "_" + self.lid


class Edge:
    def __init__(self, src, dst, ctrl=None, select=None, guard=None, sync=None, assign=None, prob=None, order=0):
        self.src, self.dst, self.ctrl = src, dst, ctrl       # ("L", i) / ("B", j)
        self.select, self.guard, self.sync, self.assign, self.prob, self.order = select, guard, sync, assign, prob, order
        self.guardstyle = 0  # 1: modulo operators in the guard text; 2/3: the trivially true guards `true` and `1`; 4: nested quantifiers
        self.selstyle = 0    # 0: `s : int[0,K]`   1: two binders   2: the binder shadows the global g2   3: ... the global clock gx


class Tpl:
    def __init__(self, name):
        self.name = name
        self.params = []     # (kind, name) kind in value / ref / const / range
        self.locals = None   # K of `int l1 = K;` or None
        self.xdecl = ""      # further local declarations (text) ...
        self.xlocals = []    # ... and the variables they declare: [name, initialiser tree]
        self.locs = []
        self.bps = []        # ids
        self.init = 0
        self.edges = []


class Model:
    def __init__(self):
        self.gextra = None
        self.tpls = []
        self.graphics = False    # XML only: coordinates on elements, nails (ignored by the reader, must not disturb anything)
        self.layout = 0          # 0 plain label texts, 1 comments around them, 2 blank lines and blanks around them, 3 comments closed by star runs
        self.xmlstyle = 0        # XML only: 0 compact, 1 pretty printed, 2 comments / processing instructions everywhere, 3 ignorable labels and attributes
        self.encoding = "entities"   # XML only: how element text is written (entities, one CDATA section, text + CDATA, character references)
        self.insts = []      # (name, formal params [(kind,name)], template/instance name, [args])   args: ("k", K) / ("v", varname)
        self.procs = []      # names
        self.prio = []       # separators between consecutive processes: "," or "<"
        self.dyn = None      # (position among the templates, has a parameter): a dynamic template DW declared globally and defined there
        # verbatim extra text (used by the differential checks only; expected() does not describe it)
        self.xg = ""         # appended to the global declarations
        self.xs_pre = ""     # system section, before the instantiations
        self.xs_post = ""    # system section, after the `system` line (progress measures, gantt chart)


PARAM_TEXT = {"value": "int %s", "ref": "int &%s", "const": "const int %s", "range": "int[0,1] %s",
              "constref": "const int &%s", "constrangeref": "const int[0,2000] &%s", "constbool": "const bool %s",
              "ubchanref": "urgent broadcast chan &%s", "bchanref": "broadcast chan &%s", "uchanref": "urgent chan &%s"}
CHAN_ARG = {"ubchanref": "ubc", "bchanref": "bc", "uchanref": "uc"}
PARAM_TYPE = {"value": "(RANGE (INT) <(CONSTANT:INT -32768)> <(CONSTANT:INT 32767)>)",
              "ref": "(REF (RANGE (INT) <(CONSTANT:INT -32768)> <(CONSTANT:INT 32767)>))",
              "const": "(CONSTANT (INT))",
              "range": "(RANGE (INT) <(CONSTANT:INT 0)> <(CONSTANT:INT 1)>)",
              "constref": "(REF (CONSTANT (INT)))", "constrangeref": "(REF (CONSTANT (RANGE (INT) <(CONSTANT:INT 0)> <(CONSTANT:INT 2000)>)))",
              "constbool": "(CONSTANT (BOOL))",
              "ubchanref": "(REF (BROADCAST (URGENT (CHANNEL))))", "bchanref": "(REF (BROADCAST (CHANNEL)))", "uchanref": "(REF (URGENT (CHANNEL)))"}
# labels are parsed in document order, so a select label (a declaration) stays first; the others permute
ORDERS = [["select", "guard", "synchronisation", "assignment", "probability"],
          ["select", "probability", "assignment", "synchronisation", "guard"],
          ["select", "assignment", "probability", "guard", "synchronisation"]]


def params_text(ps):
    return ", ".join(PARAM_TEXT[k] % n for k, n in ps)


# ---- label texts and the trees they must become -----------------------------------------------------
def t_guard(k, style=0):
    if style == 2:    # trivially true guards, spelled out
        return "true", "(CONSTANT:BOOL 1)"
    if style == 3:
        return "1", "(CONSTANT:INT 1)"
    if style == 1:    # modulo with operands whose names start like printf conversions: hazardous for anything that formats label text
        return ("g1 % ga == {0} && g2 % gc != 1".format(k % 7),
                "(AND (EQ (MOD (IDENTIFIER g1) (IDENTIFIER ga)) (CONSTANT:INT %d)) (NEQ (MOD (IDENTIFIER g2) (IDENTIFIER gc)) (CONSTANT:INT 1)))" % (k % 7))
    if style == 4:    # nested quantifiers; the outer binder is named like the global that the update of the same edge writes
        return ("ga >= 0 && forall (g1 : int[0,1]) exists (qj : int[0,1]) (ga + g1 > qj - %d)" % k,
                "(AND (GE (IDENTIFIER ga) (CONSTANT:INT 0)) (FORALL (IDENTIFIER g1) (EXISTS (IDENTIFIER qj) (GT (PLUS (IDENTIFIER ga) (IDENTIFIER g1)) "
                "(MINUS (IDENTIFIER qj) (CONSTANT:INT %d))))))" % k)
    if k % 2 == 0:   # every other guard needs XML escaping (<, &&)
        return ("g1 == %d && g2 < %d" % (k, k),
                "(AND (EQ (IDENTIFIER g1) (CONSTANT:INT %d)) (LT (IDENTIFIER g2) (CONSTANT:INT %d)))" % (k, k))
    return "g1 == %d" % k, "(EQ (IDENTIFIER g1) (CONSTANT:INT %d))" % k


def t_inv(k, style=0):
    # the library stores an invariant as `1 && <text>`; texts with literal 1s and several conjuncts are the hazardous ones for
    # anything that edits label text (e.g. a writer that strips the neutral conjunct)
    le = lambda v, c: "(LE (IDENTIFIER %s) (CONSTANT:INT %d))" % (v, c)      # noqa: E731
    if style == 1:
        return "gx <= 1 && g2 <= %d" % k, "(AND (CONSTANT:INT 1) (AND %s %s))" % (le("gx", 1), le("g2", k))
    fa = "(FORALL (IDENTIFIER qi) %s)"
    rate0 = "(EQ (RATE (ARRAY (IDENTIFIER gxs) (IDENTIFIER qi))) (CONSTANT:INT 0))"
    if style == 3:    # a universally quantified conjunction with a clock rate inside, after an ordinary bound
        return ("gx <= %d && forall (qi : int[0,1]) (gxs[qi]' == 0 && gys[qi] <= 5)" % k,
                "(AND (AND (CONSTANT:INT 1) %s) %s)" % (le("gx", k), fa % ("(AND %s (LE (ARRAY (IDENTIFIER gys) (IDENTIFIER qi)) (CONSTANT:INT 5)))" % rate0)))
    if style == 4:    # ... and before one
        return ("(forall (qi : int[0,1]) gxs[qi]' == 0) && gx <= %d" % k,
                "(AND (AND (CONSTANT:INT 1) %s) %s)" % (fa % rate0, le("gx", k)))
    if style == 5:    # nested quantifiers whose outer binder is named like a global that later labels use
        return ("forall (g1 : int[0,1]) forall (qj : int[0,1]) gys[g1] <= %d + qj" % k,
                "(AND (CONSTANT:INT 1) (FORALL (IDENTIFIER g1) (FORALL (IDENTIFIER qj) (LE (ARRAY (IDENTIFIER gys) (IDENTIFIER g1)) "
                "(PLUS (CONSTANT:INT %d) (IDENTIFIER qj))))))" % k)
    if style == 6:    # a quantifier over rates nested in another one
        return ("gx <= %d && forall (qi : int[0,1]) forall (qj : int[0,1]) (gxs[qi]' == 0 && gys[qj] <= 5)" % k,
                "(AND (AND (CONSTANT:INT 1) %s) (FORALL (IDENTIFIER qi) (FORALL (IDENTIFIER qj) (AND %s (LE (ARRAY (IDENTIFIER gys) (IDENTIFIER qj)) (CONSTANT:INT 5))))))"
                % (le("gx", k), rate0))
    if style == 2:
        return ("g1 <= 1 && gx <= 11 && g2 <= %d" % k,
                "(AND (CONSTANT:INT 1) (AND (AND %s %s) %s))" % (le("g1", 1), le("gx", 11), le("g2", k)))
    return "gx <= %d" % k, "(AND (CONSTANT:INT 1) (LE (IDENTIFIER gx) (CONSTANT:INT %d)))" % k


def t_rate(k):
    return "%d" % k, "(CONSTANT:INT %d)" % k


SEL_NAME = {0: "s", 1: "s", 2: "g2", 3: "gx", 4: "s", 5: "s", 6: "s"}


def t_assign(k, with_select, style=0):
    if with_select:
        b = SEL_NAME[style]       # the update reads the (first) binder; a binder named like a global shadows it inside the edge
        tgt = "g2" if b != "g2" else "ga"
        return ("g1 = %d, %s = %s" % (k, tgt, b),
                "(COMMA (ASSIGN (IDENTIFIER g1) (CONSTANT:INT %d)) (ASSIGN (IDENTIFIER %s) (IDENTIFIER %s)))" % (k, tgt, b))
    return "g1 = %d" % k, "(ASSIGN (IDENTIFIER g1) (CONSTANT:INT %d))" % k


def t_select(k, style=0):
    rng = "(CONSTANT (RANGE (INT) <(CONSTANT:INT 0)> <(CONSTANT:INT %d)>))"
    b = SEL_NAME[style]
    if style == 1:
        return "s : int[0,%d], s2 : int[0,1]" % k, "[s:%s s2:%s]" % (rng % k, rng % 1)
    # ranges without a literal bound (named constants, a negated literal, an expression), a typedef name, a scalar set
    if style == 4:
        return "s : int[GLO, GHI]", "[s:(CONSTANT (RANGE (INT) <(IDENTIFIER GLO)> <(IDENTIFIER GHI)>))]"
    if style == 5:
        return "s : int[-GHI, GHI + 1]", "[s:(CONSTANT (RANGE (INT) <(UNARY_MINUS (IDENTIFIER GHI))> <(PLUS (IDENTIFIER GHI) (CONSTANT:INT 1))>))]"
    if style == 6:
        return "s : gsel_t", "[s:(CONSTANT (LABEL gsel_t:(RANGE (INT) <(UNARY_MINUS (CONSTANT:INT 2))> <(IDENTIFIER GHI)>)))]"
    return "%s : int[0,%d]" % (b, k), "[%s:%s]" % (b, rng % k)


def t_sync(s):
    ch, d = s[:-1], s[-1]
    return s, "(SYNC:%d (IDENTIFIER %s))" % (1 if d == "!" else 0, ch)


def t_prob(k, with_select=False, style=0):
    if with_select:     # the weight reads the edge's (first) select binder
        b = SEL_NAME[style]
        return "%d + %s" % (k, b), "(PLUS (CONSTANT:INT %d) (IDENTIFIER %s))" % (k, b)
    return "%d" % k, "(CONSTANT:INT %d)" % k


def t_arg(a):
    return (str(a[1]), "(CONSTANT:INT %d)" % a[1]) if a[0] == "k" else (a[1], "(IDENTIFIER %s)" % a[1])


def lay(m, text):
    """the label text in the model's layout variant (same tokens)"""
    if text is None or m.layout == 0:
        return text
    if m.layout == 1:
        return "// leading comment\n" + text + " /* trailing */"
    if m.layout == 3:      # block comments that close with a run of stars, in front of the text and in the middle of it
        i = text.find(" && ")
        j = text.find(", ") if i < 0 else -1
        k = i if i >= 0 else j
        mid = (text[:k + 1] + "/*** inner **/" + text[k + 1:]) if k >= 0 else text
        return "/** doc **/ " + mid + " /***/ /* plain */"
    return "\n  \t" + text + "  \n\n"


# ---- renderings ---------------------------------------------------------------------------------------
def node_id(t, n):
    return t.locs[n[1]].lid if n[0] == "L" else t.bps[n[1]]


def node_sym(t, n):
    return t.locs[n[1]].sym() if n[0] == "L" else "_" + t.bps[n[1]]


DW_PARAM = "const int[0,3] dk"
DW_PARAM_TYPE = "(CONSTANT (RANGE (INT) <(CONSTANT:INT 0)> <(CONSTANT:INT 3)>))"


def dyn_decl(m):
    return "" if m.dyn is None else " dynamic DW(%s);" % (DW_PARAM if m.dyn[1] else "")


def dyn_guard(m):
    return ("dk > 0", "(GT (IDENTIFIER dk) (CONSTANT:INT 0))") if m.dyn[1] else ("dl > 0", "(GT (IDENTIFIER dl) (CONSTANT:INT 0))")


def render_xml(m, queries=None):
    saved = X.ENCODING
    X.ENCODING = m.encoding
    try:
        doc = _render_xml(m, queries)
    finally:
        X.ENCODING = saved
    import re
    if m.xmlstyle == 1:      # pretty printed: line breaks and indentation between elements
        doc = re.sub(r">(<(?!/))", r">\n   \1", doc)
    elif m.xmlstyle == 2:    # comments and processing instructions between elements, in front of and inside element text
        doc = re.sub(r"(<(?:label|declaration|parameter|system|name)\b[^>/]*>)((?:&[#a-z0-9]+;|[^<&]){2})", r"\1<!-- c -->\2<?pi x?><!-- d -->", doc)
        doc = doc.replace("<transition", "<!-- t --><transition").replace("<location ", "<?pi y?><location ").replace("</template>", "<!-- e --></template>")
    elif m.xmlstyle == 3:    # elements and attributes the reader has to ignore: comments labels, colours, ids on transitions, an empty label
        doc = re.sub(r"(<location\b[^>]*>(?:<name\b[^>]*>(?:[^<]|<!\[CDATA\[.*?\]\]>)*</name>)?)", r'\1<label kind="comments" x="1" y="2">loc</label>', doc)
        doc = re.sub(r"<transition\b", '<transition color="#ff0000" id="idt9"', doc)
        doc = re.sub(r'(<target ref="[^"]*"/>)', r'\1<label kind="testcode"/><label kind="comments">note &lt; 1 &amp;&amp; x</label>', doc)
    return doc


def _render_xml(m, queries=None):
    tpls = []
    for ti, t in enumerate(m.tpls + [None]):
        if m.dyn is not None and ti == min(m.dyn[0], len(m.tpls)):
            tpls.append(X.template("DW", params=DW_PARAM if m.dyn[1] else None, decl="int dl = 77;",
                                   locations=[X.location("dw0", "DW_A"), X.location("dw1", "DW_B")], init="dw0",
                                   transitions=[X.transition("dw0", "dw1", guard=dyn_guard(m)[0])]))
        if t is None:
            break
        locs = [X.location(l.lid, l.name, inv=lay(m, t_inv(l.inv, l.invstyle)[0]) if l.inv is not None else None,
                           rate=lay(m, t_rate(l.rate)[0]) if l.rate is not None else None,
                           urgent=l.kind == "U", committed=l.kind == "C", rate_first=l.rate_first) for l in t.locs]
        trs = []
        for e in t.edges:
            trs.append(X.transition(node_id(t, e.src), node_id(t, e.dst),
                                    select=lay(m, t_select(e.select, e.selstyle)[0]) if e.select is not None else None,
                                    guard=lay(m, t_guard(e.guard, e.guardstyle)[0]) if e.guard is not None else None,
                                    sync=lay(m, e.sync),
                                    assign=lay(m, t_assign(e.assign, e.select is not None, e.selstyle)[0]) if e.assign is not None else None,
                                    prob=lay(m, t_prob(e.prob, e.select is not None, e.selstyle)[0]) if e.prob is not None else None,
                                    controllable=e.ctrl, order=ORDERS[e.order]))
        tpls.append(X.template(t.name, params=params_text(t.params) if t.params else None,
                               decl=((("int l1 = %d;" % t.locals) if t.locals is not None else "") + t.xdecl) or None,
                               locations=locs, branchpoints=t.bps, init=t.locs[t.init].lid if t.locs else None,
                               transitions=trs))
    doc = X.nta(GDECL + (" int gextra = %d;" % m.gextra if m.gextra is not None else "") + dyn_decl(m) + m.xg, tpls, m.xs_pre + system_text(m) + m.xs_post, queries)
    if m.graphics:
        import re
        doc = re.sub(r'<location id="([^"]*)">', r'<location id="\1" x="-30" y="40" color="#ff0000">', doc)
        doc = re.sub(r'<branchpoint id="([^"]*)"/>', r'<branchpoint id="\1" x="7" y="8"/>', doc)
        doc = re.sub(r'<label kind="([^"]*)">', r'<label kind="\1" x="1" y="-2">', doc)
        doc = doc.replace("</transition>", '<nail x="3" y="4"/><nail x="5" y="6"/></transition>')
        doc = re.sub(r'(<location [^>]*>)<name>', r'\1<name x="9" y="9">', doc)
    return doc


def system_text(m):
    s = ""
    for name, formals, target, args in m.insts:
        s += "%s%s = %s(%s);\n" % (name, "(" + params_text(formals) + ")" if formals else "", target,
                                   ", ".join(t_arg(a)[0] for a in args))
    s += "system "
    for i, p in enumerate(m.procs):
        if i:
            s += " %s " % m.prio[i - 1]
        s += p
    return s + ";"


def render_xta(m, chain=True):
    s = GDECL + (" int gextra = %d;" % m.gextra if m.gextra is not None else "") + dyn_decl(m) + m.xg + "\n"
    for ti, t in enumerate(m.tpls + [None]):
        if m.dyn is not None and ti == min(m.dyn[0], len(m.tpls)):
            s += ("process DW(%s) {\nint dl = 77;\nstate DW_A, DW_B;\ninit DW_A;\ntrans\n  DW_A -> DW_B { guard %s; };\n}\n"
                  % (DW_PARAM if m.dyn[1] else "", dyn_guard(m)[0]))
        if t is None:
            break
        s += "process %s(%s) {\n" % (t.name, params_text(t.params))
        if t.locals is not None:
            s += "int l1 = %d;\n" % t.locals
        if t.xdecl:
            s += t.xdecl + "\n"
        st = []
        for l in t.locs:
            if l.inv is None and l.rate is None:
                st.append(l.sym())
            elif l.rate is None:
                st.append("%s {%s}" % (l.sym(), t_inv(l.inv, l.invstyle)[0]))
            elif l.inv is None:
                st.append("%s {; %s}" % (l.sym(), t_rate(l.rate)[0]))
            else:
                st.append("%s {%s ; %s}" % (l.sym(), t_inv(l.inv, l.invstyle)[0], t_rate(l.rate)[0]))
        s += "state " + ", ".join(st) + ";\n"
        if t.bps:
            s += "branchpoint " + ", ".join("_" + b for b in t.bps) + ";\n"
        for l in t.locs:
            if l.kind == "C":
                s += "commit %s;\n" % l.sym()
            elif l.kind == "U":
                s += "urgent %s;\n" % l.sym()
        s += "init %s;\n" % t.locs[t.init].sym()
        if t.edges:
            tr = []
            for e in t.edges:
                body = ""
                if e.select is not None:
                    body += " select %s;" % lay(m, t_select(e.select, e.selstyle)[0])
                if e.guard is not None:
                    body += " guard %s;" % lay(m, t_guard(e.guard, e.guardstyle)[0])
                if e.sync is not None:
                    body += " sync %s;" % e.sync
                if e.assign is not None:
                    body += " assign %s;" % lay(m, t_assign(e.assign, e.select is not None, e.selstyle)[0])
                if e.prob is not None:
                    body += " probability %s;" % t_prob(e.prob, e.select is not None, e.selstyle)[0]
                prev = t.edges[t.edges.index(e) - 1] if t.edges.index(e) > 0 else None
                if chain and prev is not None and prev.src == e.src and e.prob is None:
                    # chained form: the source is inherited from the previous transition of the list
                    tr.append("%s %s {%s }" % ("-u->" if e.ctrl is False else "->", node_sym(t, e.dst), body))
                else:
                    tr.append("%s %s %s {%s }" % (node_sym(t, e.src), "-u->" if e.ctrl is False else "->", node_sym(t, e.dst), body))
            s += "trans\n  " + ",\n  ".join(tr) + ";\n"
        s += "}\n"
    return s + m.xs_pre + system_text(m) + m.xs_post + "\n"


# ---- the document the library must build --------------------------------------------------------------
TRUE = "(CONSTANT:INT 1)"


def expected(m, xml=True):
    d = {"templates": [], "processes": [], "instances": [], "globals_tail": [], "dyn_templates": []}
    if m.dyn is not None:
        d["dyn_templates"].append({"name": "DW", "params": [["dk", DW_PARAM_TYPE]] if m.dyn[1] else [], "unbound": 1 if m.dyn[1] else 0,
                                   "locals": [["dl", "(CONSTANT:INT 77)"]], "locations": ["DW_A", "DW_B"], "init": "DW_A",
                                   "edges": [["DW_A", "DW_B", dyn_guard(m)[1]]], "is_defined": True})
    rng = "(RANGE (INT) <(CONSTANT:INT -32768)> <(CONSTANT:INT 32767)>)"
    arr2 = "(ARRAY %s (RANGE (INT) <(CONSTANT:INT 0)> <(MINUS (CONSTANT:INT 2) (CONSTANT:INT 1))>))"
    d["globals_tail"] = [["g1", "(CONSTANT:INT 901)", rng], ["g2", "()", rng], ["ga", "()", rng], ["gb", "()", rng], ["gc", "()", rng], ["gx", "()", "(CLOCK)"],
                         ["c", "()", "(CHANNEL)"], ["bc", "()", "(BROADCAST (CHANNEL))"], ["gxs", "()", arr2 % "(CLOCK)"], ["gys", "()", arr2 % "(CLOCK)"],
                         ["uc", "()", "(URGENT (CHANNEL))"], ["ubc", "()", "(BROADCAST (URGENT (CHANNEL)))"], ["ubcs", "()", arr2 % "(BROADCAST (URGENT (CHANNEL)))"],
                         ["gm", "()", "(SYSTEM_META %s)" % rng], ["gk", "(CONSTANT:BOOL 1)", "(CONSTANT (BOOL))"], ["gd", "()", "(DOUBLE)"]]
    # arrays of two different dimensions: `t a[2][3]` is an array of 2 arrays of 3
    dim = lambda n: "(RANGE (INT) <(CONSTANT:INT 0)> <(MINUS (CONSTANT:INT %d) (CONSTANT:INT 1))>)" % n      # noqa: E731
    d["globals_tail"] += [["gmat", "()", "(ARRAY (ARRAY %s %s) %s)" % (rng, dim(3), dim(2))], ["gcm", "()", "(ARRAY (ARRAY (CHANNEL) %s) %s)" % (dim(4), dim(2))],
                          ["gsn", "()", "(ARRAY (ARRAY (BOOL) %s) (LABEL gi3_t:(RANGE (INT) <(CONSTANT:INT 0)> <(CONSTANT:INT 2)>)))" % dim(2)]]
    if m.gextra is not None:
        d["globals_tail"].append(["gextra", "(CONSTANT:INT %d)" % m.gextra, rng])
    tp = {}
    for t in m.tpls:
        tj = {"name": t.name,
              "params": [[n, PARAM_TYPE[k]] for k, n in t.params],
              "unbound": len(t.params),
              "locals": ([["l1", "(CONSTANT:INT %d)" % t.locals]] if t.locals is not None else []) + [list(x) for x in t.xlocals],
              "locations": [[i, l.sym(), l.kind, conjuncts(t_inv(l.inv, l.invstyle)[1]) if l.inv is not None else "()",
                             t_rate(l.rate)[1] if l.rate is not None else "()"] for i, l in enumerate(t.locs)],
              "branchpoints": [[j, "_" + b] for j, b in enumerate(t.bps)],
              "init": t.locs[t.init].sym() if t.locs else None,
              "edges": []}
        for i, e in enumerate(t.edges):
            tj["edges"].append({
                "nr": i,
                "src": node_sym(t, e.src) if e.src[0] == "L" else None,
                "srcb": node_sym(t, e.src) if e.src[0] == "B" else None,
                "dst": node_sym(t, e.dst) if e.dst[0] == "L" else None,
                "dstb": node_sym(t, e.dst) if e.dst[0] == "B" else None,
                "control": e.ctrl is not False,
                "select": t_select(e.select, e.selstyle)[1] if e.select is not None else "[]",
                "guard": t_guard(e.guard, e.guardstyle)[1] if e.guard is not None else TRUE,
                "sync": t_sync(e.sync)[1] if e.sync is not None else "()",
                "assign": t_assign(e.assign, e.select is not None, e.selstyle)[1] if e.assign is not None else TRUE,
                "prob": t_prob(e.prob, e.select is not None, e.selstyle)[1] if e.prob is not None else TRUE})
        d["templates"].append(tj)
        tp[t.name] = {"params": list(t.params), "unbound": len(t.params), "mapping": {}, "templ": t.name}
    # instances: parameters = own formals followed by the target's parameters; mapping = target's mapping + arguments
    for name, formals, target, args in m.insts:
        tg = tp[target]
        params = list(formals) + list(tg["params"])
        mapping = dict(tg["mapping"])
        for a, (k, pn) in zip(args, tg["params"][:len(args)]):
            mapping[pn] = t_arg(a)[1]
        inst = {"params": params, "unbound": len(formals), "mapping": mapping, "templ": tg["templ"]}
        tp[name] = inst
        d["instances"].append(inst_json(name, inst))
    prio = 0
    for i, p in enumerate(m.procs):
        if i and m.prio[i - 1] == "<":
            prio += 1
        pj = inst_json(p, tp[p])
        pj["priority"] = prio
        d["processes"].append(pj)
    return d


def inst_json(name, inst):
    return {"name": name, "templ": inst["templ"], "unbound": inst["unbound"],
            "params": [n for k, n in inst["params"]],
            "mapping": [[i, n, inst["mapping"][n]] for i, (k, n) in enumerate(inst["params"]) if n in inst["mapping"]]}


def project(dump, m):
    """the same shape, read from the library's document dump"""
    d = {"templates": [], "processes": [], "instances": [], "globals_tail": [], "dyn_templates": []}
    for t in dump.get("dyn_templates", []):
        d["dyn_templates"].append({"name": t["name"], "params": [[p["name"], p["type"]] for p in t["params"]], "unbound": t["unbound"],
                                   "locals": [[v["name"], v["init"]] for v in t["decl"]["vars"]],
                                   "locations": [l["name"] for l in t["locations"]], "init": t["init"],
                                   "edges": [[e["src"], e["dst"], e["guard"]] for e in t["edges"]], "is_defined": t["is_defined"]})
    gv = dump["globals"]["vars"]
    names = [v["name"] for v in gv]
    start = names.index("g1") if "g1" in names else len(names)
    d["globals_tail"] = [[v["name"], v["init"], v.get("type")] for v in gv[start:]]
    for t in dump["templates"]:
        tj = {"name": t["name"], "params": [[p["name"], p["type"]] for p in t["params"]], "unbound": t["unbound"],
              "locals": [[v["name"], v["init"]] for v in t["decl"]["vars"]],
              "locations": [[l["nr"], l["name"], l["flags"], conjuncts(l["inv"]) if l["inv"] != "()" else "()", l["exp_rate"]]
                            for l in t["locations"]],
              "branchpoints": [[b["nr"], b["name"]] for b in t["branchpoints"]],
              "init": t["init"], "edges": []}
        for e in t["edges"]:
            tj["edges"].append({k: e[k] for k in ("nr", "src", "srcb", "dst", "dstb", "control", "select", "guard", "sync",
                                                  "assign", "prob")})
        d["templates"].append(tj)
    for i in dump["instances"]:
        d["instances"].append({"name": i["name"], "templ": i["templ"], "unbound": i["unbound"],
                               "params": [p["name"] for p in i["params"]], "mapping": i["mapping"]})
    for p in dump["processes"]:
        d["processes"].append({"name": p["name"], "templ": p["templ"], "unbound": p["unbound"],
                               "params": [q["name"] for q in p["params"]], "mapping": p["mapping"], "priority": p["priority"]})
    return d


def conjuncts(sx):
    """the top-level conjuncts of an invariant s-expression, the neutral `1` dropped, sorted (the type checker re-associates
    the conjunction when it separates clock rates)"""
    out = []

    def rec(t):
        t = t.strip()
        if t.startswith("(AND "):
            depth, start, parts = 0, 5, []
            for i in range(5, len(t) - 1):
                ch = t[i]
                if ch == "(":
                    depth += 1
                elif ch == ")":
                    depth -= 1
                    if depth == 0:
                        parts.append(t[start:i + 1])
                        start = i + 2
            if len(parts) == 2 and start >= len(t) - 1:
                for q in parts:
                    rec(q)
                return
        if t != "(CONSTANT:INT 1)":
            out.append(t)
    rec(sx)
    return "CONJ{" + " & ".join(sorted(out)) + "}"


def diff(a, b, path=""):
    """first difference between two JSON-like values, as (path, a, b)"""
    if type(a) != type(b):
        return (path, a, b)
    if isinstance(a, dict):
        for k in sorted(set(a) | set(b)):
            if k not in a or k not in b:
                return (path + "/" + k, a.get(k, "<absent>"), b.get(k, "<absent>"))
            r = diff(a[k], b[k], path + "/" + k)
            if r:
                return r
        return None
    if isinstance(a, list):
        if len(a) != len(b):
            return (path + "/#len", len(a), len(b))
        for i, (x, y) in enumerate(zip(a, b)):
            r = diff(x, y, "%s/%d" % (path, i))
            if r:
                return r
        return None
    return None if a == b else (path, a, b)


# ---- the generator ------------------------------------------------------------------------------------
def build(choose, common=False, bp_base=True):
    """common=True restricts to the XML/XTA common subset (all locations named).
    Choice 0 everywhere = a rich base model; alternatives ordered simplest-first."""
    m = Model()
    ids = [0]

    idstyle = choose(3, "idstyle")

    def nid():
        ids[0] += 1
        n = ids[0] - 1
        if idstyle == 1:
            return "id%d" % (40 - n)          # descending: document order is not id order, "id9" < "id10" only numerically
        if idstyle == 2:
            return "n_" + "abcdefghijklmnopqrstuvwxyz"[n]
        return "id%d" % n

    shortnames = bool(choose(2, "locnames"))
    m.graphics = bool(choose(2, "graphics")) if not common else False
    m.layout = choose(4, "labellayout")
    m.encoding = ["entities", "cdata", "cdata-split", "charrefs"][choose(4, "xmlencoding")]
    m.xmlstyle = choose(4, "xmlstyle")

    m.gextra = [None, 951][choose(2, "gextra")]
    nt = [2, 1, 3][choose(3, "ntemplates")]
    for ti in range(nt):
        t = Tpl("T%d" % (ti + 1))
        base = 1000 * (ti + 1)
        if ti == 0:
            pv = choose(10, "T1.params")
            t.params = [[("value", "p1"), ("ref", "p2")], [], [("value", "p1")], [("const", "p1"), ("ref", "p2")],
                        [("ref", "p1"), ("value", "p2"), ("const", "p3")],
                        # references to constants (their arguments are constant expressions here) next to ordinary ones
                        [("constref", "p1"), ("ref", "p2")], [("constrangeref", "p1"), ("constref", "p2"), ("value", "p3")],
                        [("constbool", "p1"), ("constref", "p2"), ("ref", "p3")],
                        # channel references with one and with two prefixes
                        [("ubchanref", "p1"), ("bchanref", "p2"), ("value", "p3")], [("uchanref", "p1"), ("ref", "p2")]][pv]
        elif ti == 1:
            pv = choose(3, "T2.params")
            t.params = [[], [("range", "q1")], [("value", "q1")]][pv]
        else:
            t.params = []
        t.locals = [base + 701, None][choose(2, "%s.locals" % t.name)] if ti < 2 else None
        # a type name that lives in one template's scope and is an ordinary variable name in the next template
        if ti == 0 and choose(2, "T1.localtypedef"):
            t.xdecl = " typedef int[0,3] sc_t; sc_t l2 = 2;"
            t.xlocals = [["l2", "(CONSTANT:INT 2)"]]
        if ti == 1 and choose(2, "T2.reusedname"):
            t.xdecl = " const int sc_t = 7; int l3 = sc_t + 1;"
            t.xlocals = [["sc_t", "(CONSTANT:INT 7)"], ["l3", "(PLUS (IDENTIFIER sc_t) (CONSTANT:INT 1))"]]
        nl = ([3, 1, 2, 4][choose(4, "%s.nlocs" % t.name)]) if ti == 0 else ([1, 2][choose(2, "%s.nlocs" % t.name)] if ti == 1 else 1)
        for li in range(nl):
            if common:
                named = True
            elif ti == 0:
                # base: the second location of T1 is anonymous, all others are named
                named = ([False, True] if li == 1 else [True, False])[choose(2, "%s.L%d.named" % (t.name, li))]
            else:
                named = True
            l = Loc(nid(), name=None, kind="")
            if ti == 0:
                inv = [[base + 201 + li, None], [None, base + 201 + li]][1 if li != 0 else 0][choose(2, "%s.L%d.inv" % (t.name, li))]
                rate = [[None, base + 301 + li], [base + 301 + li, None]][1 if li == 1 else 0][choose(2, "%s.L%d.rate" % (t.name, li))]
                kind = (["", "U", "C"] if li != 2 else ["C", "", "U"])[choose(3, "%s.L%d.kind" % (t.name, li))]
                l.inv, l.rate, l.kind = inv, rate, kind
                if inv is not None:
                    l.invstyle = choose(7, "%s.L%d.invstyle" % (t.name, li))
                if inv is not None and rate is not None:
                    l.rate_first = bool(choose(2, "%s.L%d.ratefirst" % (t.name, li)))
                # (urgent and committed locations may carry an invariant and a rate like any other location)
            l.name = (("L%d" % li) if shortnames else ("%s_L%d" % (t.name, li))) if named else None
            t.locs.append(l)
        if ti == 0:
            nb = ([1, 0, 2] if bp_base else [0, 1, 2])[choose(3, "T1.nbps")]
            for _ in range(nb):
                t.bps.append(nid())
            t.init = [0, nl - 1][choose(2, "T1.init")] if nl > 1 else 0
            nodes = [("L", i) for i in range(nl)] + [("B", j) for j in range(nb)]
            # base edge set: a labelled edge, an edge into the branchpoint, two probabilistic branches, a self loop
            plan = []
            if nl >= 2:
                plan.append((("L", 0), ("L", 1), "full"))
            if nb >= 1:
                plan.append((("L", min(1, nl - 1)), ("B", 0), "guard"))
                plan.append((("B", 0), ("L", nl - 1), "prob"))
                plan.append((("B", 0), ("L", 0), "prob2"))
            plan.append((("L", nl - 1), ("L", nl - 1), "sync"))
            plan.append((("L", nl - 1), ("L", 0), "assign"))      # same source as the previous edge (chained form in XTA)
            ne = choose(5, "T1.edgeset")
            if ne == 1:
                plan = plan[:1] if plan else plan
            elif ne == 2:
                plan = plan + [(("L", 0), ("L", 0), "guard"), (("L", 0), ("L", 0), "assign")]   # parallel self loops
            elif ne == 3:
                # four consecutive edges out of one location, the first with an empty body (XTA: a root and three chained transitions)
                plan = plan + [(("L", 0), ("L", nl - 1), "empty"), (("L", 0), ("L", 0), "guard"), (("L", 0), ("L", nl - 1), "assign"),
                               (("L", 0), ("L", 0), "sync")]
            elif ne == 4:
                # two chains in a row, the second starting right after the first
                plan = [(("L", 0), ("L", 0), "full"), (("L", 0), ("L", nl - 1), "guard"), (("L", 0), ("L", 0), "empty"),
                        (("L", nl - 1), ("L", 0), "empty"), (("L", nl - 1), ("L", nl - 1), "assign"), (("L", nl - 1), ("L", 0), "sync")] + plan
            for ei, (src, dst, kind) in enumerate(plan):
                e = Edge(src, dst)
                tag = "T1.E%d" % ei
                k = base + ei
                # re-targeting: every node pair is reachable as a deviation
                sv = choose(len(nodes), tag + ".src")
                if sv:
                    e.src = [n for n in nodes if n != src][sv - 1] if len(nodes) > 1 else src
                dv = choose(len(nodes), tag + ".dst")
                if dv:
                    e.dst = [n for n in nodes if n != dst][dv - 1] if len(nodes) > 1 else dst
                e.ctrl = [None, False, True][choose(3, tag + ".ctrl")]
                has = {"empty": (0, 0, 0, 0, 0), "full": (1, 1, 1, 1, 0), "guard": (0, 1, 0, 0, 0), "prob": (0, 0, 0, 1, 1), "prob2": (0, 0, 0, 0, 1),
                       "sync": (0, 0, 1, 0, 0), "assign": (0, 0, 0, 1, 0)}[kind]
                flip = [choose(2, tag + "." + lab) for lab in ("select", "guard", "sync", "assign", "prob")]
                on = [bool(h) != bool(f) for h, f in zip(has, flip)]
                # weights only make sense on branches leaving a branchpoint; branches carry no guard/sync/select
                if e.src[0] == "B":
                    on[0] = on[1] = on[2] = False
                # (a weight on an edge that leaves a location is unusual but accepted and kept by the library: a deviation)
                if on[0]:
                    e.select = 600 + ei + 1
                    e.selstyle = choose(7, tag + ".selstyle")
                if on[1]:
                    e.guard = k + 101
                    e.guardstyle = choose(5, tag + ".guardstyle")
                if on[2]:
                    e.sync = ["c!", "c?", "bc!"][choose(3, tag + ".chan")]
                if on[3]:
                    e.assign = k + 401
                if on[4]:
                    e.prob = ei + 2
                e.order = choose(3, tag + ".order")
                t.edges.append(e)
        else:
            t.init = 0
            if nl >= 2:
                t.edges.append(Edge(("L", 0), ("L", 1), guard=base + 101))
            if ti == 1 and choose(2, "T2.branchpoint"):
                # a branchpoint in a template that is not the first one
                t.bps.append(nid())
                t.edges.append(Edge(("L", 0), ("B", 0), guard=base + 102))
                t.edges.append(Edge(("B", 0), ("L", nl - 1), prob=7))
                t.edges.append(Edge(("B", 0), ("L", 0), prob=8, assign=base + 403))
        m.tpls.append(t)
    # a dynamic template, declared in the global declarations and defined among the templates
    dv = choose(4, "dynamic")
    if dv:
        m.dyn = ([0, 1, 9][dv - 1], not choose(2, "dynamic.noparam"))
    # system section
    style = choose(3, "system.style")
    t1 = m.tpls[0]

    def args_for(params, base, voff=0):
        out = []
        for i, (k, n) in enumerate(params):
            out.append(("v", CHAN_ARG[k]) if k in CHAN_ARG else ("v", ["ga", "gb", "gc"][(i + voff) % 3]) if k == "ref" else ("k", base + i))
        return out

    procs = []
    if t1.params:
        if style == 2 and len(t1.params) >= 1:
            # partial instantiation: bind all but the first parameter, leave one formal
            k0 = t1.params[0][0]
            formal = [(k0 if k0 in CHAN_ARG else "const" if k0 != "ref" else "ref", "f1")]
            rest = args_for(t1.params, 1801)[1:]
            m.insts.append(("Q", formal, "T1", [("v", "f1")] + rest))
            m.insts.append(("P1", [], "Q", [("v", CHAN_ARG[k0]) if k0 in CHAN_ARG else ("v", "ga") if k0 == "ref" else ("k", 1811)]))
            m.insts.append(("P2", [], "Q", [("v", CHAN_ARG[k0]) if k0 in CHAN_ARG else ("v", "gb") if k0 == "ref" else ("k", 1812)]))
        else:
            m.insts.append(("P1", [], "T1", args_for(t1.params, 1801)))
            a2 = args_for(t1.params, 1851, 1)
            if style == 1:
                a2 = [("v", "gc") if a[0] == "v" and a[1] not in CHAN_ARG.values() else a for a in a2]
            m.insts.append(("P2", [], "T1", a2))
        procs += ["P1", "P2"]
    else:
        procs.append("T1")
    for t in m.tpls[1:]:
        if t.params and t.params[0][0] == "value":
            m.insts.append(("R%s" % t.name[1:], [], t.name, [("k", 1900 + int(t.name[1:]))]))
            procs.append("R%s" % t.name[1:])
        else:
            procs.append(t.name)
    if choose(2, "system.order"):
        procs = procs[::-1]
    m.procs = procs
    pv = choose(3, "system.prio")
    m.prio = [","] * (len(procs) - 1)
    if pv == 1 and m.prio:
        m.prio[0] = "<"
    elif pv == 2 and m.prio:
        m.prio[-1] = "<"
    return m
