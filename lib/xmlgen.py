"""Rendering of small UPPAAL models to XML / XTA text, and batch execution of
documents on a worker with crash isolation."""
import engine

HEADER = ('<?xml version="1.0" encoding="utf-8"?>\n'
          "<!DOCTYPE nta PUBLIC '-//Uppaal Team//DTD Flat System 1.5//EN' "
          "'http://www.it.uu.se/research/group/darts/uppaal/flat-1_5.dtd'>\n")

SLOT = "\x01"


# how the text of an element is written: "entities" (default) | "cdata" (one CDATA section) | "cdata-split" (escaped text
# followed by a CDATA section) | "charrefs" (numeric character references for the special characters and some letters)
ENCODING = "entities"


def esc(t):
    if ENCODING == "cdata" and t and "]]>" not in t:
        return "<![CDATA[" + t + "]]>"
    if ENCODING == "cdata-split" and t and "]]>" not in t and len(t) > 2:
        k = t.find(" ", len(t) // 2)
        k = k if k > 0 else len(t) // 2
        return _entities(t[:k]) + "<![CDATA[" + t[k:] + "]]>"
    if ENCODING == "charrefs":
        return "".join("&#%d;" % ord(ch) if ch in "&<>" else ("&#x%x;" % ord(ch) if ch in "gq=" else ch) for ch in t)
    return _entities(t)


def _entities(t):
    return t.replace("&", "&amp;").replace("<", "&lt;").replace(">", "&gt;")


def label(kind, text):
    if text is None:
        return ""
    return '<label kind="%s">%s</label>' % (kind, esc(text))


def location(lid, name=None, inv=None, rate=None, urgent=False, committed=False, rate_first=False):
    s = '<location id="%s">' % lid
    if name is not None:
        s += "<name>%s</name>" % esc(name)
    if rate_first:
        s += label("exponentialrate", rate) + label("invariant", inv)
    else:
        s += label("invariant", inv) + label("exponentialrate", rate)
    if urgent:
        s += "<urgent/>"
    if committed:
        s += "<committed/>"
    return s + "</location>"


def transition(src, dst, select=None, guard=None, sync=None, assign=None, prob=None, controllable=None, order=None):
    s = "<transition%s>" % ("" if controllable is None else ' controllable="%s"' % ("true" if controllable else "false"))
    s += '<source ref="%s"/><target ref="%s"/>' % (src, dst)
    labs = {"select": select, "guard": guard, "synchronisation": sync, "assignment": assign, "probability": prob}
    for k in (order or ["select", "guard", "synchronisation", "assignment", "probability"]):
        s += label(k, labs[k])
    return s + "</transition>"


def template(name, params=None, decl=None, locations=(), branchpoints=(), init=None, transitions=()):
    s = "<template><name>%s</name>" % esc(name)
    if params is not None:
        s += "<parameter>%s</parameter>" % esc(params)
    if decl is not None:
        s += "<declaration>%s</declaration>" % esc(decl)
    s += "".join(locations)
    s += "".join('<branchpoint id="%s"/>' % b for b in branchpoints)
    if init is not None:
        s += '<init ref="%s"/>' % init
    s += "".join(transitions)
    return s + "</template>"


def nta(decl="", templates=(), system="", queries=None, inst=None):
    s = HEADER + "<nta><declaration>%s</declaration>" % esc(decl)
    s += "".join(templates)
    if inst is not None:
        s += "<instantiation>%s</instantiation>" % esc(inst)
    s += "<system>%s</system>" % esc(system)
    if queries is not None:
        s += "<queries>"
        for q in queries:
            s += "<query><formula>%s</formula><comment/></query>" % esc(q)
        s += "</queries>"
    return s + "</nta>\n"


def simple_model(decl="", tdecl="", params=None, inv=None, guard=None, sync=None, assign=None, select=None,
                 system="P = T(); system P;", extra_templates=(), prob=None):
    """Two locations, one edge: the carrier of most matrix checks."""
    t = template("T", params=params, decl=tdecl,
                 locations=[location("id0", "L0", inv=inv), location("id1", "L1")], init="id0",
                 transitions=[transition("id0", "id1", select=select, guard=guard, sync=sync, assign=assign, prob=prob)])
    return nta(decl, [t] + list(extra_templates), system)


def run_docs(w, docs, want=(), kind="xml", newxta=True, batch=100, timeout=30.0, extra=None, one_timeout=10.0):
    """docs: list of document texts.  Returns the list of responses (one per doc);
    a doc that kills the worker yields {'died': True, ...}.  On a death inside a
    batch every doc of that batch is re-run alone so the culprit is exact."""
    out = []
    base = {"op": "xmls", "kind": kind, "newxta": newxta, "want": list(want)}
    if extra:
        base.update(extra)
    for i in range(0, len(docs), batch):
        chunk = docs[i:i + batch]
        req = dict(base)
        req["bufs"] = chunk
        try:
            r = w.call(req, timeout)
            if "harness_error" in r:
                raise RuntimeError(r["harness_error"])
            out.extend(r["results"])
        except engine.WorkerDied:
            for d in chunk:
                req = dict(base)
                req["bufs"] = [d]
                r = w.call_safe(req, one_timeout)
                if r.get("died"):
                    out.append(r)
                else:
                    out.extend(r["results"])
    return out


def accepted(resp):
    return (not resp.get("died")) and resp.get("exc") is None and resp.get("ret") == 0 and not resp.get("errors")


def msgs(resp):
    return sorted(e["msg"] for e in resp.get("errors", []))
