"""Common machinery for all checks (DESIGN.md §2): worker management with crash
isolation, a process pool in which every process owns one private C++ worker,
known-findings handling, replay artefacts, evidence files and exit status."""
import hashlib
import json
import multiprocessing
import os
import re
import select
import signal
import subprocess
import sys
import tempfile
import time

VERIF = os.path.dirname(os.path.dirname(os.path.abspath(__file__)))
sys.path.insert(0, os.path.join(VERIF, "lib"))
import build  # noqa: E402

SAN_RE = re.compile(r"ERROR: AddressSanitizer|runtime error:|ERROR: LeakSanitizer|Assertion .* failed|"
                    r"Assertion '.*' failed|terminate called|stack-overflow|AddressSanitizer:DEADLYSIGNAL")


def tier():
    t = os.environ.get("VERIF_TIER")
    for i, a in enumerate(sys.argv):
        if a == "--tier" and i + 1 < len(sys.argv):
            t = t or sys.argv[i + 1]
    return t if t in ("quick", "thorough") else "quick"


def seed():
    try:
        return int(os.environ.get("VERIF_SEED", "0"))
    except ValueError:
        return 0


def ncpu():
    return int(os.environ.get("UTAPV_PROCS", str(min(16, os.cpu_count() or 4))))


class WorkerDied(Exception):
    def __init__(self, sig, stderr_tail, timed_out=False):
        super().__init__("worker died sig=%s timeout=%s" % (sig, timed_out))
        self.sig = sig
        self.stderr_tail = stderr_tail
        self.timed_out = timed_out


class Worker:
    """One utapv process.  call() sends one request and returns the response; a
    crash or a hang is turned into WorkerDied and the process is restarted on
    the next call."""

    def __init__(self, flavour="fast", bindir=None, extra_env=None, stack_kb=None):
        if os.environ.get("UTAPV_COV") and bindir is None:
            flavour = "cov"       # tools/coverage.sh: the same checks on a gcov-instrumented build
        self.flavour = flavour
        self.bindir = bindir or build.ensure(flavour, quiet=True)
        self.exe = os.path.join(self.bindir, "utapv")
        self.proc = None
        self.errfile = None
        self.extra_env = extra_env or {}
        self.stack_kb = stack_kb
        self.restarts = 0

    def start(self):
        # anonymous (already unlinked) file shared with the worker as its stderr
        self.errfile = tempfile.TemporaryFile(prefix="utapv-err-", dir=os.environ.get("UTAPV_TMP", "/dev/shm"))
        env = dict(os.environ)
        env["ASAN_OPTIONS"] = "detect_leaks=0:abort_on_error=0:allocator_may_return_null=1:detect_stack_use_after_return=0"
        env["UBSAN_OPTIONS"] = "print_stacktrace=1"
        env.update(self.extra_env)
        import resource
        kb = self.stack_kb
        # a runaway input must fail fast instead of eating the machine (ASan needs its huge address space,
        # so the san flavour is limited through hard_rss_limit_mb instead)
        as_limit = None if self.flavour == "san" else int(os.environ.get("UTAPV_AS_MB", "6000")) << 20
        env["ASAN_OPTIONS"] += ":hard_rss_limit_mb=6000"

        def pre():
            if kb:
                resource.setrlimit(resource.RLIMIT_STACK, (kb * 1024, kb * 1024))
            if as_limit:
                resource.setrlimit(resource.RLIMIT_AS, (as_limit, as_limit))
        self.proc = subprocess.Popen([self.exe, "--stderr-inherit"], stdin=subprocess.PIPE, stderr=self.errfile,
                                     stdout=subprocess.PIPE, env=env, preexec_fn=pre, bufsize=0)
        self._buf = b""

    def stop(self):
        if self.proc is not None:
            try:
                self.proc.kill()
                self.proc.wait()
            except Exception:
                pass
            self.proc = None
        if self.errfile is not None:
            try:
                self.errfile.close()
            except OSError:
                pass
            self.errfile = None

    def _stderr_tail(self):
        try:
            n = os.fstat(self.errfile.fileno()).st_size
            data = os.pread(self.errfile.fileno(), 3000, max(0, n - 3000))
            return data.decode(errors="replace")
        except Exception:
            return ""

    def _readline(self, timeout):
        deadline = time.time() + timeout
        fd = self.proc.stdout.fileno()
        while True:
            i = self._buf.find(b"\n")
            if i >= 0:
                line, self._buf = self._buf[:i], self._buf[i + 1:]
                return line
            left = deadline - time.time()
            if left <= 0:
                return None
            r, _, _ = select.select([fd], [], [], left)
            if not r:
                return None
            chunk = os.read(fd, 1 << 20)
            if not chunk:
                return b""  # EOF
            self._buf += chunk

    def call(self, req, timeout=20.0):
        if self.proc is None or self.proc.poll() is not None:
            self.stop()
            self.start()
        data = (json.dumps(req) + "\n").encode()
        try:
            self.proc.stdin.write(data)
            self.proc.stdin.flush()
        except (BrokenPipeError, OSError):
            pass
        line = self._readline(timeout)
        if line is None:
            tail = self._stderr_tail()
            self.stop()
            self.restarts += 1
            raise WorkerDied(None, tail, timed_out=True)
        if line == b"":
            self.proc.wait()
            rc = self.proc.returncode
            tail = self._stderr_tail()
            self.stop()
            self.restarts += 1
            raise WorkerDied(-rc if rc < 0 else "exit%d" % rc, tail)
        return json.loads(line)

    def call_safe(self, req, timeout=20.0):
        """Like call(), but a death becomes a response dict with key 'died'.  A
        timeout is re-run once alone with 10x the limit before it is called a hang."""
        try:
            return self.call(req, timeout)
        except WorkerDied as e:
            if e.timed_out:
                try:
                    return self.call(req, min(timeout * 10, 120.0))
                except WorkerDied as e2:
                    e = e2
            return {"died": True, "sig": e.sig, "timed_out": e.timed_out, "stderr": e.stderr_tail}


def crash_signature(resp):
    """A stable signature for a crash / sanitizer report: kind + first in-library frame."""
    text = resp.get("stderr", "") or ""
    kind = "?"
    if resp.get("died"):
        if resp.get("timed_out"):
            kind = "hang"
        else:
            kind = "sig%s" % resp.get("sig")
    m = re.search(r"ERROR: AddressSanitizer: ([\w-]+)", text)
    if m:
        kind = "asan:" + m.group(1)
    else:
        m = re.search(r"runtime error: ([^\n]{0,60})", text)
        if m:
            kind = "ubsan:" + re.sub(r"0x[0-9a-f]+|\d+", "N", m.group(1)).strip()
        elif "Assertion" in text and "failed" in text:
            m = re.search(r"Assertion [`'](.{0,80}?)' failed", text)
            kind = "assert:" + (m.group(1) if m else "?")
    frame = "?"
    for m in re.finditer(r"#\d+ 0x[0-9a-f]+ in ([^\n]+?) (/[^\s:]+):(\d+)", text):
        fn, path = m.group(1), m.group(2)
        if "/harness/" in path or "/usr/" in path or "libsanitizer" in path or "/gcc/" in path:
            continue
        fn = re.sub(r"\(.*", "", fn)
        frame = fn.strip()
        break
    return "%s@%s" % (kind, frame)


def sanitizer_hit(resp):
    return bool(SAN_RE.search(resp.get("stderr", "") or ""))


# ---------------------------------------------------------------------------------------
# process pool: each pool process owns one private worker

_W = {}


def worker(flavour="fast", **kw):
    key = (flavour, tuple(sorted(kw.items())))
    w = _W.get(key)
    if w is None:
        w = Worker(flavour, **kw)
        _W[key] = w
    return w


def _pool_init():
    signal.signal(signal.SIGINT, signal.SIG_IGN)


def pmap(fn, shards, procs=None, chunksize=1):
    """Run fn(shard) for every shard on a pool; yields results as they complete."""
    procs = procs or ncpu()
    shards = list(shards)
    if procs <= 1 or len(shards) <= 1:
        for s in shards:
            yield fn(s)
        return
    with multiprocessing.Pool(procs, initializer=_pool_init) as pool:
        for r in pool.imap_unordered(fn, shards, chunksize):
            yield r


# ---------------------------------------------------------------------------------------
# findings, replay artefacts, evidence

def load_known_findings(pid):
    """finding: property=<id> key=<signature> <text>   (glob patterns allowed in key)"""
    out = []
    p = os.path.join(VERIF, "known_findings.txt")
    if os.path.exists(p):
        for line in open(p):
            line = line.strip()
            m = re.match(r"finding:\s+property=(\S+)\s+key=(\S+)\s*(.*)", line)
            if m and m.group(1) == pid:
                out.append((m.group(2), m.group(3)))
    return out


class Report:
    def __init__(self, pid, level, rule):
        self.pid = pid
        self.level = level
        self.rule = rule
        self.tier = tier()
        self.seed = seed()
        self.t0 = time.time()
        self.evaluations = 0
        self.nontrivial = set()
        self.nontrivial_count = None  # set when the machinery counts distinct cases itself
        self.samples = []
        self.violations = {}     # signature -> dict(detail, replay)
        self.known_hit = {}      # key -> description
        self.known = load_known_findings(pid)
        self.extra = {}
        self.assumptions = []
        self.exhaustive = True
        self.outcomes = {}
        self.deadline = None

    # -- bookkeeping ---------------------------------------------------------------
    def count(self, n=1):
        self.evaluations += n

    def nontrivial_case(self, key):
        if len(self.nontrivial) < 5_000_000:
            self.nontrivial.add(key if isinstance(key, (int, str)) else hashlib.md5(repr(key).encode()).hexdigest())

    def outcome(self, cls, n=1):
        self.outcomes[cls] = self.outcomes.get(cls, 0) + n

    def sample(self, s, limit=12):
        if len(self.samples) < limit:
            self.samples.append(s)

    def set_deadline(self, seconds):
        self.deadline = self.t0 + seconds

    def out_of_time(self, fraction=1.0):
        """past the given fraction of the budget (a check with several phases gives each of them a share)"""
        if self.deadline is not None and time.time() > self.t0 + (self.deadline - self.t0) * fraction:
            self.exhaustive = False
            return True
        return False

    # -- violations ------------------------------------------------------------------
    def violation(self, signature, detail, replay=None):
        """signature: specific, stable identification of *what* fails (used to match
        known findings).  detail: human readable.  replay: JSON-able artefact."""
        import fnmatch
        for key, desc in self.known:
            if signature == key or fnmatch.fnmatchcase(signature, key):
                if key not in self.known_hit:
                    self.known_hit[key] = (desc, signature, detail)
                return False
        if signature not in self.violations and len(self.violations) < 200:
            self.violations[signature] = {"detail": detail, "replay": replay, "n": 1}
        elif signature in self.violations:
            self.violations[signature]["n"] += 1
        return True

    def merge(self, part):
        """merge a partial result produced in a pool process (see Part)"""
        self.evaluations += part["evaluations"]
        for k in part["nontrivial"]:
            self.nontrivial_case(k)
        for s in part["samples"]:
            self.sample(s)
        for cls, n in part["outcomes"].items():
            self.outcome(cls, n)
        for sig, detail, replay in part["violations"]:
            self.violation(sig, detail, replay)
        for k, v in part.get("extra", {}).items():
            if isinstance(v, (int, float)):
                self.extra[k] = self.extra.get(k, 0) + v
            elif isinstance(v, list):
                self.extra.setdefault(k, [])
                self.extra[k] = (self.extra[k] + v)[:50]
        if not part.get("exhaustive", True):
            self.exhaustive = False

    # -- finish -----------------------------------------------------------------------
    def finish(self, coverage_extra=None):
        wall = time.time() - self.t0
        rdir = os.path.join(os.environ.get("UTAPV_OUT_DIR", VERIF), "replays", self.pid)
        lines = []
        for key, (desc, sig, detail) in sorted(self.known_hit.items()):
            lines.append("KNOWN-FINDING: property=%s key=%s %s" % (self.pid, key, desc))
        nviol = 0
        for sig, v in sorted(self.violations.items()):
            os.makedirs(rdir, exist_ok=True)
            h = hashlib.sha1(sig.encode()).hexdigest()[:12]
            path = os.path.join(rdir, h + ".json")
            with open(path, "w") as fh:
                json.dump({"property": self.pid, "signature": sig, "detail": v["detail"], "occurrences": v["n"],
                           "replay": v["replay"]}, fh, indent=1, default=str)
            lines.append("VIOLATION property=%s replay=%s  # %s :: %s" % (self.pid, path, sig.replace("\n", " "), str(v["detail"])[:300].replace("\n", " | ")))
            nviol += 1
        cov = {
            "evaluations": int(self.evaluations),
            "distinct_nontrivial": self.nontrivial_count if self.nontrivial_count is not None else len(self.nontrivial),
            "rule": self.rule,
            "samples": self.samples[:12] or ["<none>"],
            "exhaustive": bool(self.exhaustive),
            "outcome_classes": self.outcomes,
            "known_findings_reobserved": sorted(self.known_hit.keys()),
        }
        cov.update(self.extra)
        if coverage_extra:
            cov.update(coverage_extra)
        ev = {
            "property_id": self.pid,
            "tier": self.tier,
            "seed": self.seed,
            "level": self.level,
            "coverage": cov,
            "assumptions": self.assumptions,
            "wall_s": round(wall, 2),
            "violations": nviol,
        }
        edir = os.path.join(os.environ.get("UTAPV_OUT_DIR", VERIF), "evidence")     # (UTAPV_OUT_DIR: diagnostic runs only)
        os.makedirs(edir, exist_ok=True)
        with open(os.path.join(edir, self.pid + ".json"), "w") as fh:
            json.dump(ev, fh, indent=1, default=str)
        for ln in lines:
            print(ln)
        print("[%s %s] evaluations=%d distinct_nontrivial=%d outcomes=%s exhaustive=%s violations=%d known=%d wall=%.1fs"
              % (self.pid, self.tier, self.evaluations, cov["distinct_nontrivial"], json.dumps(self.outcomes)[:300],
                 self.exhaustive, nviol, len(self.known_hit), wall))
        if len(self.outcomes) < 2 and self.evaluations > 0:
            print("[%s] note: fewer than two outcome classes observed" % self.pid)
        sys.stdout.flush()
        return 1 if nviol else 0


class Part:
    """Accumulator used inside pool processes; converted with .result() and merged by Report.merge."""

    def __init__(self):
        self.evaluations = 0
        self.nontrivial = set()
        self.samples = []
        self.outcomes = {}
        self.violations = []
        self.extra = {}
        self.exhaustive = True

    def count(self, n=1):
        self.evaluations += n

    def nontrivial_case(self, key):
        self.nontrivial.add(key if isinstance(key, (int, str)) else hashlib.md5(repr(key).encode()).hexdigest())

    def outcome(self, cls, n=1):
        self.outcomes[cls] = self.outcomes.get(cls, 0) + n

    def sample(self, s, limit=3):
        if len(self.samples) < limit:
            self.samples.append(s)

    def violation(self, sig, detail, replay=None):
        if len(self.violations) < 400:
            self.violations.append((sig, detail, replay))

    def add(self, key, v):
        if isinstance(v, list):
            self.extra.setdefault(key, [])
            if len(self.extra[key]) < 50:
                self.extra[key].extend(v)
        else:
            self.extra[key] = self.extra.get(key, 0) + v

    def result(self):
        return {"evaluations": self.evaluations, "nontrivial": list(self.nontrivial), "samples": self.samples,
                "outcomes": self.outcomes, "violations": self.violations, "extra": self.extra,
                "exhaustive": self.exhaustive}


def check_crash(part, pid, resp, what, replay):
    """Shared C01-style oracle on any response: worker death, sanitizer report,
    non-std exception.  Returns True if the response is unusable."""
    if resp.get("died"):
        part.violation("crash:" + crash_signature(resp), "%s: worker died (%s) on %s" % (pid, crash_signature(resp), what),
                       replay)
        return True
    if sanitizer_hit(resp):
        part.violation("san:" + crash_signature(resp), "%s: sanitizer/assert report on %s: %s" %
                       (pid, what, (resp.get("stderr") or "")[:300]), replay)
    if resp.get("harness_error"):
        raise RuntimeError("harness error: %s" % resp["harness_error"])
    return False
