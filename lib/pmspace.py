"""The input spaces of the parser-machine explorer (C01, C16): entry points
("slots"), context seeds and token alphabets."""
import xmlgen as X

SLOT = "\x01"

# symbols every alphabet refers to: one representative per identifier class
GDECL = ("int i; int j; clock x; clock y; chan c; broadcast chan bc; int arr[2]; struct { int f; int g; } s; "
         "int fn(int a) { return a; } typedef int[0,3] ty; typedef scalar[2] sc; bool b; double d; const int k = 2; ")

IDS = ["i", "x", "c", "arr", "s", "fn", "ty", "k", "zz"]
LITS = ["0", "1", "2147483648", "1.5", '"str"', "true"]
BRACKETS = ["(", ")", "[", "]", "{", "}"]
PUNCT = [";", ",", ":", ".", "'", "?", "!"]
OPS = ["+", "-", "*", "<", "<=", "==", "&&", "||", "&", "<?", "=", "+=", "++", "--", "->"]
EXPR_KW = ["forall", "exists", "sum", "deadlock", "not", "and", "imply", "int"]
HOSTILE = ["@", "/*", "//", "\\"]
EXPR = IDS + LITS + BRACKETS + PUNCT + OPS + EXPR_KW + HOSTILE
DECL_KW = ["int", "clock", "chan", "const", "typedef", "struct", "void", "bool", "urgent", "broadcast", "meta", "double",
           "scalar", "return", "if", "else", "for", "while", "do", "break", "continue", "switch", "case", "default", "assert",
           "import", "hybrid", "dynamic", "string"]
# "lt" is a type name only inside the scopes some seeds open (function-local / block-local typedef): a look-ahead token that was
# classified under one scope and is consumed under another (after error recovery closed the scope)
DECL = IDS + ["f0", "T", "lt"] + LITS[:4] + BRACKETS + PUNCT + OPS[:10] + ["=", "++"] + ["forall", "sum"] + DECL_KW + HOSTILE + ["&"]
SYSTEM = IDS[:4] + ["T", "P", "Q", "zz"] + ["0", "1"] + BRACKETS[:4] + [";", ",", "=", "<", ":"] + \
    ["system", "process", "progress", "gantt", "chan", "priority", "default", "int", "const", "IO", "{", "}"] + HOSTILE
XTA = IDS[:5] + ["T", "A", "B", "zz"] + ["0", "1"] + BRACKETS + [";", ",", ":", "=", "<", "!", "?", "->", "-u->"] + \
    ["process", "state", "init", "trans", "commit", "urgent", "branchpoint", "select", "guard", "sync", "assign", "probability",
     "system", "int", "clock", "chan", "const"] + HOSTILE
PROP = IDS[:6] + ["P", "P.L0", "zz", "S1"] + ["0", "1", "10", "0.5", '"f"'] + BRACKETS + [";", ",", ":", ".", "#", "<=", ">=", "==",
                                                                                          "&&", "=", "->", "<", "+"] + \
    ["A[]", "E<>", "A<>", "E[]", "-->", "A[", "U", "W", "control:", "control_t*", "Pr[", "E[", "simulate", "sup:", "inf:", "bounds:",
     "sup", "minE", "maxE", "minPr", "maxPr", "strategy", "loadStrategy", "saveStrategy", "under", "imitate", "sat:", "min:", "max:",
     "<>", "[]", "forall", "exists", "deadlock", "not", "imply", "numOf", "foreach", "spawn", "exit", "Pmax", "E<>+", "\n"] + HOSTILE
OLD = IDS[:5] + ["0", "1"] + BRACKETS[:4] + [";", ",", ":=", "=", "<", "<=", "==", "&&", "and", "not", "+", "-", "const", "int",
                                              "clock", "chan", "urgent", "!", "?"] + HOSTILE


def t_edge(inner):
    return ('<transition><source ref="id0"/><target ref="id1"/>%s</transition>'
            '<transition><source ref="id1"/><target ref="id0"/><label kind="guard">i &gt;= 0</label>'
            '<label kind="assignment">j = i</label></transition>' % inner)


def ta_doc(gdecl=GDECL, params="", ldecl="int l; clock lx;", loc0="", edge="", inst="", system="P = T(); system P;", extra_tpl=""):
    t = ("<template><name>T</name><parameter>%s</parameter><declaration>%s</declaration>"
         '<location id="id0"><name>L0</name>%s</location><location id="id1"><name>L1</name></location><init ref="id0"/>%s</template>'
         % (params, ldecl, loc0, t_edge(edge)))
    t2 = ('<template><name>T2</name><declaration>int m;</declaration><location id="id5"><name>M0</name>'
          '<label kind="invariant">m &lt;= 5</label></location><init ref="id5"/></template>')
    return (X.HEADER + "<nta><declaration>%s</declaration>%s%s%s%s<system>%s</system>"
            "<queries><query><formula>A[] i &gt;= 0</formula><comment/></query></queries></nta>\n" %
            (gdecl, t, t2, extra_tpl, ("<instantiation>%s</instantiation>" % inst) if inst else "", system))


def lab(kind, text):
    return '<label kind="%s">%s</label>' % (kind, text)


LSC = ('<lsc><name>Sc</name><parameter></parameter><type>Universal</type><mode>Invariant</mode><declaration></declaration>'
       '<yloccoord number="0" y="10"/><yloccoord number="1" y="20"/><yloccoord number="2" y="30"/>'
       '<instance id="id7" x="0" y="0"><name>%s</name></instance><instance id="id8" x="10" y="0"><name>Q</name></instance>'
       '<prechart x="0" y="0"><lsclocation>1</lsclocation></prechart>'
       '<message x="0" y="0"><source ref="id7"/><target ref="id8"/><lsclocation>0</lsclocation><label kind="message">%s</label></message>'
       '<condition x="0" y="0"><anchor instanceid="id7"/><lsclocation>2</lsclocation><temperature>hot</temperature>'
       '<label kind="condition">%s</label></condition>'
       '<update x="0" y="0"><anchor instanceid="id8"/><lsclocation>2</lsclocation><label kind="update">%s</label></update></lsc>')


def xml_slots():
    """name -> (template document with one slot, alphabet, seeds)"""
    S = {}
    expr_seeds = [[], ["forall", "(", "q", ":", "int[0,1]", ")"], ["fn", "("], ["arr", "["], ["i", "?"], ["("], ["s", "."],
                  ["i", "=="], ["!"], ["i", ","]]
    S["guard"] = (ta_doc(edge=lab("guard", SLOT) + lab("assignment", "j = 1")), EXPR, expr_seeds)
    S["invariant"] = (ta_doc(loc0=lab("invariant", SLOT)), EXPR, expr_seeds[:6] + [["x", "<="], ["x", "'", "=="]])
    S["exponentialrate"] = (ta_doc(loc0=lab("exponentialrate", SLOT)), EXPR, [[], ["("], ["i", ":"]])
    S["assignment"] = (ta_doc(edge=lab("guard", "i >= 0") + lab("assignment", SLOT)), EXPR,
                       expr_seeds[:7] + [["i", "="], ["i", "=", "1", ","], ["fn", "(", "i", ")", ","]])
    S["synchronisation"] = (ta_doc(edge=lab("synchronisation", SLOT) + lab("assignment", "j = 1")), EXPR,
                            [[], ["c"], ["arr", "["], ["c", "["], ["("]])
    S["select"] = (ta_doc(edge=lab("select", SLOT) + lab("guard", "i >= 0")), EXPR + ["int[0,1]", "sc"],
                   [[], ["q", ":"], ["q", ":", "int", "["], ["q", ":", "int[0,1]", ","], ["q", ":", "struct", "{"]])
    S["probability"] = (ta_doc(edge=lab("probability", SLOT)), EXPR, [[], ["("], ["i", "+"]])
    decl_seeds = [[], ["void", "f0", "(", ")", "{"], ["void", "f0", "(", ")", "{", "if", "("], ["void", "f0", "(", ")", "{", "for", "("],
                  ["void", "f0", "(", ")", "{", "while", "("], ["void", "f0", "(", ")", "{", "{"], ["void", "f0", "(", ")", "{", "return"],
                  ["void", "f0", "(", ")", "{", "i", "=", "fn", "("], ["void", "f0", "(", ")", "{", "do", "{", "}", "while", "("],
                  ["void", "f0", "(", ")", "{", "for", "(", "q", ":", "int[0,1]", ")"], ["void", "f0", "(", ")", "{", "if", "(", "i", ")", "i", "++", ";", "else"],
                  ["typedef", "struct", "{"], ["int", "f0", "["], ["int", "f0", "=", "{"], ["int", "f0", "(", "int"], ["const", "int", "f0", "="],
                  ["struct", "{", "int", "f0", ";", "}"], ["int", "f0", ","], ["chan", "priority"], ["typedef"], ["int", "["],
                  ["void", "f0", "(", ")", "{", "int", "f0", "=", "forall", "(", "q", ":", "int[0,1]", ")"],
                  ["void", "f0", "(", ")", "{", "typedef", "int[0,1]", "lt", ";", "int", "q", ";", "q", "=", "1", ";"],
                  ["void", "f0", "(", ")", "{", "{", "typedef", "int[0,1]", "lt", ";", "}"],
                  ["void", "f0", "(", ")", "{", "typedef", "struct", "{", "int", "g", ";", "}", "lt", ";", "lt", "q", ";", "for", "(", "q", ":", "lt", ")"]]
    S["declaration"] = (ta_doc(gdecl=GDECL + SLOT), DECL + ["int[0,1]"], decl_seeds)
    S["local-declaration"] = (ta_doc(ldecl="int l; clock lx; " + SLOT), DECL + ["int[0,1]"], decl_seeds[:8] + decl_seeds[11:16])
    S["parameter"] = (ta_doc(params=SLOT, system="system T2;"), DECL + ["int[0,1]", "&"],
                      [[], ["int"], ["int", "f0", ","], ["int", "&"], ["const"], ["int", "f0", "["], ["ty", "f0"]])
    S["instantiation"] = (ta_doc(inst=SLOT, system="system T2;"), SYSTEM, [[], ["P", "="], ["P", "=", "T", "("], ["P", "(", "int"],
                                                                          ["P", "(", "int", "q", ")", "=", "T2", "("]])
    S["system"] = (ta_doc(system=SLOT), SYSTEM,
                   [[], ["P", "=", "T", "(", ")", ";"], ["P", "=", "T", "(", ")", ";", "system"], ["system", "T2"], ["system", "T2", "<"],
                    ["system", "T2", ";", "progress", "{"], ["system", "T2", ";", "gantt", "{"], ["system", "T2", ";", "gantt", "{", "P", ":"],
                    ["P", "=", "T", "("], ["chan", "priority"], ["chan", "priority", "c", "<"], ["system", "T2", ";", "IO"]])
    S["lsc-instance"] = (ta_doc(extra_tpl=LSC % (SLOT, "c", "i &gt;= 0", "i = 1")), SYSTEM, [[], ["P"], ["P", "("]])
    S["lsc-message"] = (ta_doc(extra_tpl=LSC % ("P", SLOT, "i &gt;= 0", "i = 1")), EXPR, [[], ["c"], ["c", "["]])
    S["lsc-condition"] = (ta_doc(extra_tpl=LSC % ("P", "c", SLOT, "i = 1")), EXPR, [[], ["i", "=="], ["("]])
    S["lsc-update"] = (ta_doc(extra_tpl=LSC % ("P", "c", "i &gt;= 0", SLOT)), EXPR, [[], ["i", "="], ["i", "=", "1", ","]])
    return S


# ---- dynamic templates: quantifiers over instances, members of the bound instance, spawn / exit / numOf --------------
DYN = ["forall", "exists", "sum", "foreach", "(", ")", ":", ".", ",", "D", "b", "i", "dload", "Idle", "0", "1", "+", "<", "==", "=", "&&", "'",
       "numOf", "spawn", "exit", "?", "[", "]", "zz", "!", "T", "int", "/*", ";"]
D_TEMPLATE = ('<template><name>D</name><parameter>int[0,3] dk</parameter><declaration>int dload = 1;</declaration>'
              '<location id="d0"><name>Idle</name></location><init ref="d0"/></template>')


def dyn_doc(**kw):
    kw["gdecl"] = "dynamic D(int[0,3] dk); " + kw.get("gdecl", GDECL)
    d = ta_doc(**kw)
    assert "<template><name>T</name>" in d
    return d.replace("<template><name>T</name>", D_TEMPLATE + "<template><name>T</name>", 1)


def dyn_slots():
    q = ["forall", "(", "b", ":", "D", ")"]
    seeds = [[], q, q + ["("], q + ["(", "b", "."], ["sum", "(", "b", ":", "D", ")"], ["sum", "(", "b", ":", "D", ")", "b", "."],
             q + ["(", "exists", "(", "b", ":", "D", ")", "("], q + ["(", "exists", "(", "b", ":", "D", ")", "(", "b", ".", "dload", ")", "&&"],
             ["spawn"], ["spawn", "D", "("], ["numOf", "("], ["foreach", "(", "b", ":"], ["forall", "(", "b", ":"]]
    S = {}
    S["dyn-guard"] = (dyn_doc(edge=lab("guard", SLOT) + lab("assignment", "j = 1")), DYN, seeds)
    S["dyn-assignment"] = (dyn_doc(edge=lab("guard", "i >= 0") + lab("assignment", SLOT)), DYN, seeds + [["i", "="], ["i", "=", "spawn"]])
    S["dyn-invariant"] = (dyn_doc(loc0=lab("invariant", SLOT)), DYN, seeds[:6])
    fb = ["void", "f0", "(", ")", "{"]
    S["dyn-declaration"] = (dyn_doc(gdecl=GDECL + SLOT), DYN + ["void", "f0", "{", "}", "return", "dynamic"],
                            [[], fb, fb + ["i", "="] + q, fb + ["spawn"], fb + ["exit", "("], ["dynamic"], ["dynamic", "zz", "("]])
    S["dyn-local-declaration"] = (dyn_doc(ldecl="int l; clock lx; " + SLOT), DYN + ["void", "f0", "{", "}", "return", "dynamic"],
                                  [[], fb, fb + ["spawn"], fb + ["exit", "("], ["dynamic"]])
    return S


def dyn_prop_seeds():
    q = ["forall", "(", "b", ":", "D", ")"]
    pr = ["Pr[", "<=", "10", "]", "(", "<>"]
    return [pr, pr + q, pr + q + ["(", "b", "."], pr + ["numOf", "("], pr + ["sum", "(", "b", ":", "D", ")"], pr + ["foreach", "(", "b", ":", "D", ")"],
            ["E<>"] + q, ["simulate", "[", "<=", "10", "]", "{"], ["simulate", "[", "<=", "10", "]", "{", "foreach", "("]]


XTA_PRE = GDECL + "\n"
XTA_POST = ""


def xta_slots():
    body = ["process", "T", "(", ")", "{"]
    st = body + ["state", "A", ",", "B", ";"]
    tr = st + ["init", "A", ";", "trans", "A", "->", "B", "{"]
    seeds = [[], body, body + ["int"], body + ["state"], body + ["state", "A", "{"], st, st + ["branchpoint"], st + ["commit"],
             st + ["init"], st + ["init", "A", ";", "trans"], st + ["init", "A", ";", "trans", "A"], tr, tr + ["select"],
             tr + ["select", "q", ":", "int[0,1]", ";", "guard"], tr + ["guard"], tr + ["sync"], tr + ["assign"], tr + ["probability"],
             tr + ["}", ","], tr + ["}", ",", "->"], tr + ["guard", "i", ">=", "0", ";", "}", ",", "zz", "->", "B", "{"],
             tr + ["guard", "i", ">=", "0", ";", "}", ",", "zz", "->", "B", "{", "select", "q", ":", "ty"],
             tr + ["guard", "i", ">=", "0", ";", "}", ",", "A", "->", "zz", "{", "guard"],
             st + ["init", "A", ";", "trans", "zz", "->", "B", "{", "select", "q", ":"],
             tr + ["}", ";", "}"], tr + ["}", ";", "}", "system"], tr + ["}", ";", "}", "P", "=", "T", "("],
             tr + ["}", ";", "}", "system", "T", "<"], ["process", "T", "("], ["process", "T", "(", "int"]]
    return {"xta": ("xta", XTA_PRE + SLOT, XTA + ["int[0,1]", ">="], seeds)}


PROP_MODEL = None


def prop_model():
    return ta_doc(params="", system="P = T(); system P;")


def prop_seeds():
    return [[], ["A[]"], ["E<>"], ["E<>", "i", "=="], ["E<>", "forall", "(", "q", ":", "int[0,1]", ")"], ["i", "-->"], ["A[", "i", "U"],
            ["control:"], ["control:", "A["], ["control_t*", "("], ["E<>", "control:"], ["{", "i", "}"], ["Pr[", "<=", "10", "]", "("],
            ["Pr[", "<=", "10", "]", "(", "<>", "b", ")"], ["Pr[", "<=", "10", "]", "(", "<>", "b", ")", ">="], ["Pr["], ["Pr[", "x", "<="],
            ["Pr[", "#", "<=", "10", ";"], ["E[", "<=", "10", "]", "("], ["E[", "<=", "10", "]", "(", "max:"], ["simulate"],
            ["simulate", "[", "<=", "10", "]", "{"], ["simulate", "[", "<=", "10", "]", "{", "i", "}", ":"], ["sup:"], ["sup", "{"], ["inf:"],
            ["bounds:"], ["minE", "("], ["minE", "(", "i", ")", "[", "<=", "10", "]"], ["maxPr", "[", "<=", "10", "]", ":"],
            ["strategy", "S1", "="], ["strategy", "S1", "=", "control:", "A<>", "b", "\n", "E<>", "b", "under"], ["saveStrategy", "("],
            ["strategy", "S1", "=", "loadStrategy"], ["sat:"], ["E<>", "P.L0", "&&"], ["E<>", "b", "\n"], ["A[]", "b", "imitate"]]
