// Force-included into the generated bison parser (verification flavours only):
// bison's YYFPRINTF debug output is routed to the harness, which turns it into
// observation points of the LALR automaton (DESIGN.md §2.2, Appendix A).
#ifndef UTAPV_TRACE_H
#define UTAPV_TRACE_H
#include <cstdio>
extern "C" int utapv_trace(FILE*, const char* fmt, ...);
#endif
