// C18: range_t<T> against set semantics.  Exhaustive over int8_t intervals;
// exhaustive over boundary grids for int32_t and double.  The reference is
// computed in wider arithmetic (int / __int128; double for double) from the
// set-theoretic definition, never from the header's formulas.
//
//   c18 <tier> <nthreads>      prints one JSON object on stdout
#include "utap/range.h"

#include <algorithm>
#include <atomic>
#include <cinttypes>
#include <cmath>
#include <cstdio>
#include <cstring>
#include <map>
#include <mutex>
#include <set>
#include <string>
#include <thread>
#include <vector>

using UTAP::range_t;

static std::mutex g_mu;
static std::map<std::string, std::pair<uint64_t, std::string>> g_viol;  // signature -> (count, first example)
static std::atomic<uint64_t> g_evals{0};
static std::atomic<uint64_t> g_skipped_overflow{0};
static std::map<std::string, uint64_t> g_per_op;

static void viol(const std::string& sig, const std::string& example)
{
    std::lock_guard<std::mutex> lk(g_mu);
    auto& e = g_viol[sig];
    if (e.first++ == 0)
        e.second = example;
}

struct LocalCount
{
    std::map<std::string, uint64_t> per_op;
    uint64_t evals = 0, skipped = 0;
    void op(const char* n)
    {
        ++per_op[n];
        ++evals;
    }
    ~LocalCount()
    {
        std::lock_guard<std::mutex> lk(g_mu);
        for (auto& kv : per_op)
            g_per_op[kv.first] += kv.second;
        g_evals += evals;
        g_skipped_overflow += skipped;
    }
};

// ---- int8_t, reference in int -----------------------------------------------------

struct ISet  // a (possibly empty) integer interval in wide arithmetic
{
    int lo, hi;
    bool empty() const { return lo > hi; }
};

static std::string i8s(int a, int b) { return "[" + std::to_string(a) + "," + std::to_string(b) + "]"; }

static void cmp8(const char* op, const range_t<int8_t>& r, ISet exp, const std::string& what)
{
    // membership of every value of the type must agree
    bool bad = false;
    int witness = 0;
    for (int x = -128; x <= 127; ++x) {
        bool in_exp = !exp.empty() && exp.lo <= x && x <= exp.hi;
        bool in_act = !r.empty() && r.first() <= x && x <= r.last();
        // the library's own membership predicates, applied to the result (which may be empty)
        if (in_exp != in_act || r.contains((int8_t)x) != in_exp || (r && (int8_t)x) != in_exp) {
            bad = true;
            witness = x;
            break;
        }
    }
    if (bad)
        viol(std::string(op) + ":int8:membership",
             what + " -> " + (r.empty() ? "empty" : i8s(r.first(), r.last())) + " expected " +
                 (exp.empty() ? "empty" : i8s(exp.lo, exp.hi)) + " (differs at " + std::to_string(witness) + ")");
}
// cheap comparison (bounds only) for the billion-pair loops; equivalent for intervals
static inline bool same8(const range_t<int8_t>& r, ISet exp)
{
    if (exp.empty() || r.empty())
        return exp.empty() == r.empty();
    return r.first() == exp.lo && r.last() == exp.hi;
}

static bool fits8(int lo, int hi) { return lo >= -128 && hi <= 127; }

static void unary8(int a, int b, LocalCount& lc)
{
    using R = range_t<int8_t>;
    const R base((int8_t)a, (int8_t)b);
    const std::string bs = i8s(a, b);
    for (int e = -128; e <= 127; ++e) {
        const int8_t e8 = (int8_t)e;
        const std::string es = std::to_string(e);
        {
            R r = base;
            r.gt(e8);
            lc.op("gt");
            cmp8("gt", r, ISet{std::max(a, e + 1), b}, bs + ".gt(" + es + ")");
        }
        {
            R r = base;
            r.geq(e8);
            lc.op("geq");
            cmp8("geq", r, ISet{std::max(a, e), b}, bs + ".geq(" + es + ")");
        }
        {
            R r = base;
            r.lt(e8);
            lc.op("lt");
            cmp8("lt", r, ISet{a, std::min(b, e - 1)}, bs + ".lt(" + es + ")");
        }
        {
            R r = base;
            r.leq(e8);
            lc.op("leq");
            cmp8("leq", r, ISet{a, std::min(b, e)}, bs + ".leq(" + es + ")");
        }
        {
            // == between results that reached their value by different routes (empty results included): equal iff the same set
            R rs[6] = {base, base, base, base, base, R::make_empty()};
            rs[0].gt(e8);
            rs[1].geq(e8);
            rs[2].lt(e8);
            rs[3].leq(e8);
            rs[4] &= e8;
            const ISet es_[6] = {ISet{std::max(a, e + 1), b}, ISet{std::max(a, e), b}, ISet{a, std::min(b, e - 1)}, ISet{a, std::min(b, e)},
                                 (a <= e && e <= b) ? ISet{e, e} : ISet{1, 0}, ISet{1, 0}};
            lc.op("eq_results");
            for (int i = 0; i < 6; ++i)
                for (int j = 0; j < 6; ++j) {
                    bool same = (es_[i].empty() && es_[j].empty()) || (!es_[i].empty() && !es_[j].empty() && es_[i].lo == es_[j].lo && es_[i].hi == es_[j].hi);
                    if ((rs[i] == rs[j]) != same) {
                        viol("eq_results:int8", bs + " narrowed by " + es + ": results " + std::to_string(i) + " and " + std::to_string(j) + " compare " +
                                                    ((rs[i] == rs[j]) ? "equal" : "different"));
                        i = j = 6;
                    }
                }
        }
        {
            lc.op("contains");
            bool exp = a <= e && e <= b;
            if (base.contains(e8) != exp || (base && e8) != exp)
                viol("contains:int8", bs + ".contains(" + es + ")");
        }
        {
            lc.op("eq_elem");
            bool exp = (a == e && b == e);
            if ((base == e8) != exp)
                viol("eq_elem:int8", bs + "==" + es);
        }
        {
            R r = base;
            r |= e8;
            lc.op("union_elem");
            cmp8("union_elem", r, ISet{std::min(a, e), std::max(b, e)}, bs + "|=" + es);
            R r2 = base.unite(e8);
            if (!same8(r2, ISet{std::min(a, e), std::max(b, e)}))
                viol("unite_elem:int8", bs + ".unite(" + es + ")");
        }
        {
            R r = base;
            r &= e8;
            lc.op("inter_elem");
            cmp8("inter_elem", r, (a <= e && e <= b) ? ISet{e, e} : ISet{1, 0}, bs + "&=" + es);
            R r2 = base.intersection(e8);
            if (!same8(r2, (a <= e && e <= b) ? ISet{e, e} : ISet{1, 0}))
                viol("intersection_elem:int8", bs + ".intersection(" + es + ")");
        }
        if (fits8(a + e, b + e)) {
            R r = base;
            r += e8;
            lc.op("plus_elem");
            cmp8("plus_elem", r, ISet{a + e, b + e}, bs + "+=" + es);
        } else
            ++lc.skipped;
        if (fits8(a - e, b - e)) {
            R r = base;
            r -= e8;
            lc.op("minus_elem");
            cmp8("minus_elem", r, ISet{a - e, b - e}, bs + "-=" + es);
        } else
            ++lc.skipped;
        {
            int lo = std::min(a * e, b * e), hi = std::max(a * e, b * e);
            if (fits8(lo, hi)) {
                R r = base;
                r *= e8;
                lc.op("mult_elem");
                cmp8("mult_elem", r, ISet{lo, hi}, bs + "*=" + es);
            } else
                ++lc.skipped;
        }
    }
    lc.op("size");
    if (base.size() != (uint32_t)(b - a + 1))
        viol("size:int8", bs + ".size()=" + std::to_string(base.size()));
    if (base.empty())
        viol("empty:int8", bs + ".empty()");
}

static void binary8(int a, int b, int c, int d, bool brute_mult, LocalCount& lc)
{
    using R = range_t<int8_t>;
    const R x((int8_t)a, (int8_t)b), y((int8_t)c, (int8_t)d);
    auto ex = [&] { return i8s(a, b) + " op " + i8s(c, d); };
    {
        lc.op("inter");
        ISet e{std::max(a, c), std::min(b, d)};
        if (!same8(x & y, e))
            viol("inter:int8", ex());
        R r = x;
        r.intersect(y);
        if (!same8(r, e) || !same8(x.intersection(y), e))
            viol("intersect:int8", ex());
        if (e.empty()) {
            R viaLeq = x;
            viaLeq.leq((int8_t)(a > -128 ? a - 1 : -128));
            if (a > -128 && (!((x & y) == viaLeq) || !((x & y) == R::make_empty()) || !(viaLeq == (x & y))))
                viol("inter:int8:empty-results-differ", ex());
        }
        // membership in the result by the library's own predicate (an empty result has no members)
        for (int p : {a, b, c, d, std::max(a, c), std::min(b, d), 0, -128, 127}) {
            bool in = !e.empty() && e.lo <= p && p <= e.hi;
            if (r.contains((int8_t)p) != in) {
                viol("inter:int8:contains-on-result", ex() + " contains " + std::to_string(p));
                break;
            }
        }
    }
    {
        lc.op("union");
        ISet e{std::min(a, c), std::max(b, d)};
        if (!same8(x | y, e) || !same8(x.unite(y), e))
            viol("union:int8", ex());
    }
    {
        lc.op("overlap");
        bool e = std::max(a, c) <= std::min(b, d);
        if ((x && y) != e || x.intersects(y) != e)
            viol("overlap:int8", ex());
    }
    {
        lc.op("eq");
        if ((x == y) != (a == c && b == d))
            viol("eq:int8", ex());
    }
    {
        lc.op("order");
        if ((x < y) != (b < c))
            viol("lt_order:int8", ex());
        if ((x > y) != (a > d))
            viol("gt_order:int8", ex());
        if ((x <= y) != !(a > d))
            viol("le_order:int8", ex());
        if ((x >= y) != !(b < c))
            viol("ge_order:int8", ex());
    }
    if (fits8(a + c, b + d)) {
        lc.op("plus");
        if (!same8(x + y, ISet{a + c, b + d}))
            viol("plus:int8", ex());
    } else
        ++lc.skipped;
    if (fits8(a - d, b - c)) {
        lc.op("minus");
        if (!same8(x - y, ISet{a - d, b - c}))
            viol("minus:int8", ex());
    } else
        ++lc.skipped;
    {
        int lo, hi;
        if (brute_mult) {
            // independent of the corner formula: scan all pointwise products
            lo = INT32_MAX;
            hi = INT32_MIN;
            for (int p = a; p <= b; ++p)
                for (int q = c; q <= d; ++q) {
                    lo = std::min(lo, p * q);
                    hi = std::max(hi, p * q);
                }
        } else {
            // for each x the product is linear in y: extremes at y in {c,d}; then linear in x
            int c1 = a * c, c2 = a * d, c3 = b * c, c4 = b * d;
            lo = std::min(std::min(c1, c2), std::min(c3, c4));
            hi = std::max(std::max(c1, c2), std::max(c3, c4));
        }
        if (fits8(lo, hi)) {
            lc.op("mult");
            if (!same8(x * y, ISet{lo, hi}))
                viol("mult:int8", ex());
        } else
            ++lc.skipped;
    }
    {
        lc.op("minmax");
        R mn = std::min(x, y), mx = std::max(x, y);
        if (!same8(mn, ISet{std::min(a, c), std::min(b, d)}))
            viol("min:int8", ex());
        if (!same8(mx, ISet{std::max(a, c), std::max(b, d)}))
            viol("max:int8", ex());
    }
}

// ---- boundary grids for int32_t (reference in __int128) and double (long double) ------

template <class T>
struct Wide;
template <>
struct Wide<int32_t>
{
    using type = __int128;
    static bool ok(type v) { return v >= INT32_MIN && v <= INT32_MAX; }
    static const char* name() { return "int32"; }
};
template <>
struct Wide<double>
{
    // pointwise results are double-arithmetic results and x (+,-,*) e is monotone in x, so the
    // exact answer is the double-rounded image of the end points; NaN (inf-inf, 0*inf) = no result
    using type = double;
    static bool ok(type v) { return !std::isnan(v); }
    static const char* name() { return "double"; }
};

template <>
struct Wide<float>
{
    using type = float;
    static bool ok(type v) { return !std::isnan(v); }
    static const char* name() { return "float"; }
};
template <>
struct Wide<int16_t>
{
    using type = int;
    static bool ok(type v) { return v >= INT16_MIN && v <= INT16_MAX; }
    static const char* name() { return "int16"; }
};
template <>
struct Wide<int64_t>
{
    using type = __int128;
    static bool ok(type v) { return v >= (__int128)INT64_MIN && v <= (__int128)INT64_MAX; }
    static const char* name() { return "int64"; }
};

template <class T>
static std::string vs(T v)
{
    char b[64];
    if constexpr (std::is_floating_point_v<T>)
        snprintf(b, sizeof b, "%a", (double)v);
    else
        snprintf(b, sizeof b, "%lld", (long long)v);
    return b;
}

template <class T>
static void grid(const std::vector<T>& g, const std::vector<T>& probes, LocalCount& lc)
{
    using R = range_t<T>;
    using W = typename Wide<T>::type;
    const std::string tn = Wide<T>::name();
    auto member = [](const R& r, T x) {
        bool m = !r.empty() && r.first() <= x && x <= r.last();
        if (r.contains(x) != m || (r && x) != m)      // the library's own predicates on a result (which may be empty)
            viol(std::string("contains_on_result:") + Wide<T>::name(), "[" + vs(r.first()) + "," + vs(r.last()) + "].contains(" + vs(x) + ")");
        return m;
    };
    for (T a : g)
        for (T b : g) {
            if (!(a <= b))
                continue;
            const R base(a, b);
            const std::string bs = "[" + vs(a) + "," + vs(b) + "]";
            for (T e : g) {
                // strict / non-strict bounds: membership over the probe set from the definition
                struct
                {
                    const char* n;
                    int k;
                } ops[] = {{"gt", 0}, {"geq", 1}, {"lt", 2}, {"leq", 3}};
                for (auto& o : ops) {
                    R r = base;
                    switch (o.k) {
                    case 0: r.gt(e); break;
                    case 1: r.geq(e); break;
                    case 2: r.lt(e); break;
                    case 3: r.leq(e); break;
                    }
                    lc.op(o.n);
                    for (T x : probes) {
                        bool in_base = a <= x && x <= b;
                        bool sat = o.k == 0 ? x > e : o.k == 1 ? x >= e : o.k == 2 ? x < e : x <= e;
                        if (member(r, x) != (in_base && sat)) {
                            viol(std::string(o.n) + ":" + tn + ":membership",
                                 bs + "." + o.n + "(" + vs(e) + ") membership of " + vs(x));
                            break;
                        }
                    }
                }
                lc.op("contains");
                if (base.contains(e) != (a <= e && e <= b) || (base && e) != (a <= e && e <= b))
                    viol("contains:" + tn, bs + ".contains(" + vs(e) + ")");
                lc.op("eq_elem");
                if ((base == e) != (a == e && b == e))
                    viol("eq_elem:" + tn, bs + "==" + vs(e));
                {
                    // the named members and the value-returning operators are the compound operators under another name
                    auto same = [](const R& p, const R& q) { return (p.empty() && q.empty()) || (p.first() == q.first() && p.last() == q.last()); };
                    R u = base, i = base, u2 = base, i2 = base;
                    u |= e;
                    i &= e;
                    u2.add(e);
                    i2.intersect(e);
                    lc.op("aliases_elem");
                    if (!same(u, base | e) || !same(u, base.unite(e)) || !same(u, u2))
                        viol("alias_union_elem:" + tn, bs + " | " + vs(e));
                    if (!same(i, base & e) || !same(i, base.intersection(e)) || !same(i, i2))
                        viol("alias_inter_elem:" + tn, bs + " & " + vs(e));
                }
                {
                    R r = base;
                    r |= e;
                    lc.op("union_elem");
                    if (!(r.first() == std::min(a, e) && r.last() == std::max(b, e)))
                        viol("union_elem:" + tn, bs + "|=" + vs(e));
                }
                {
                    R r = base;
                    r &= e;
                    lc.op("inter_elem");
                    bool in = a <= e && e <= b;
                    if (r.empty() == in || (in && !(r.first() == e && r.last() == e)))
                        viol("inter_elem:" + tn, bs + "&=" + vs(e));
                }
                {
                    W lo = (W)a + (W)e, hi = (W)b + (W)e;
                    if (Wide<T>::ok(lo) && Wide<T>::ok(hi)) {
                        R r = base;
                        r += e;
                        lc.op("plus_elem");
                        if (!((W)r.first() == lo && (W)r.last() == hi))
                            viol("plus_elem:" + tn, bs + "+=" + vs(e));
                    } else
                        ++lc.skipped;
                }
                {
                    W lo = (W)a - (W)e, hi = (W)b - (W)e;
                    if (Wide<T>::ok(lo) && Wide<T>::ok(hi)) {
                        R r = base;
                        r -= e;
                        lc.op("minus_elem");
                        if (!((W)r.first() == lo && (W)r.last() == hi))
                            viol("minus_elem:" + tn, bs + "-=" + vs(e));
                    } else
                        ++lc.skipped;
                }
                {
                    W p1 = (W)a * (W)e, p2 = (W)b * (W)e;
                    if (Wide<T>::ok(p1) && Wide<T>::ok(p2)) {
                        R r = base;
                        r *= e;
                        lc.op("mult_elem");
                        if (!((W)r.first() == std::min(p1, p2) && (W)r.last() == std::max(p1, p2)))
                            viol("mult_elem:" + tn, bs + "*=" + vs(e));
                    } else
                        ++lc.skipped;
                }
            }
            // ---- operands that alias the receiver: its own bounds handed back to it, the range itself as the other operand ----
            {
                struct
                {
                    const char* n;
                    int k;
                } aops[] = {{"plus_own_first", 0},  {"plus_own_last", 1},  {"minus_own_first", 2}, {"minus_own_last", 3}, {"mult_own_first", 4},
                            {"mult_own_last", 5},  {"plus_self", 6},      {"minus_self", 7},      {"mult_self", 8},      {"union_self", 9},
                            {"inter_self", 10},    {"union_own_first", 11}, {"inter_own_last", 12}, {"geq_own_first", 13}, {"leq_own_last", 14},
                            {"gt_own_first", 15},  {"lt_own_last", 16}};
                for (auto& o : aops) {
                    W lo = 0, hi = 0;
                    bool empty = false;
                    switch (o.k) {
                    case 0: lo = (W)a + (W)a; hi = (W)b + (W)a; break;
                    case 1: lo = (W)a + (W)b; hi = (W)b + (W)b; break;
                    case 2: lo = (W)a - (W)a; hi = (W)b - (W)a; break;      // (inf - inf is no result)
                    case 3: lo = (W)a - (W)b; hi = (W)b - (W)b; break;
                    case 4:
                    case 5: {
                        W e = o.k == 4 ? (W)a : (W)b;
                        W p1 = (W)a * e, p2 = (W)b * e;
                        if (!Wide<T>::ok(p1) || !Wide<T>::ok(p2)) {
                            lo = p1;
                            hi = p1;      // skipped below when not representable; a NaN product is never representable
                            if (Wide<T>::ok(p1))
                                lo = hi = p2;
                            break;
                        }
                        lo = std::min(p1, p2);
                        hi = std::max(p1, p2);
                        break;
                    }
                    case 6: lo = (W)a + (W)a; hi = (W)b + (W)b; break;
                    case 7: lo = (W)a - (W)b; hi = (W)b - (W)a; break;
                    case 8: {
                        W p[4] = {(W)a * (W)a, (W)a * (W)b, (W)b * (W)a, (W)b * (W)b};
                        lo = *std::min_element(p, p + 4);
                        hi = *std::max_element(p, p + 4);
                        for (W q : p)
                            if (!Wide<T>::ok(q))
                                lo = hi = q;      // skipped below
                        break;
                    }
                    case 9:
                    case 10:
                    case 13:
                    case 14: lo = (W)a; hi = (W)b; break;
                    case 11: lo = (W)a; hi = (W)b; break;
                    case 12: lo = (W)b; hi = (W)b; break;
                    case 15: lo = (W)a; hi = (W)b; empty = !(a < b); break;      // x > a within [a,b]
                    case 16: lo = (W)a; hi = (W)b; empty = !(a < b); break;      // x < b within [a,b]
                    }
                    if (!Wide<T>::ok(lo) || !Wide<T>::ok(hi)) {
                        ++lc.skipped;
                        continue;
                    }
                    R r = base;
                    switch (o.k) {
                    case 0: r += r.first(); break;
                    case 1: r += r.last(); break;
                    case 2: r -= r.first(); break;
                    case 3: r -= r.last(); break;
                    case 4: r *= r.first(); break;
                    case 5: r *= r.last(); break;
                    case 6: r += r; break;
                    case 7: r -= r; break;
                    case 8: r *= r; break;
                    case 9: r |= r; break;
                    case 10: r &= r; break;
                    case 11: r |= r.first(); break;
                    case 12: r &= r.last(); break;
                    case 13: r.geq(r.first()); break;
                    case 14: r.leq(r.last()); break;
                    case 15: r.gt(r.first()); break;
                    case 16: r.lt(r.last()); break;
                    }
                    lc.op(o.n);
                    if (o.k == 15 || o.k == 16) {
                        // strict bound by an own end point: that end point leaves, everything else stays
                        bool ok = empty ? r.empty()
                                        : (!r.empty() && (o.k == 15 ? ((W)r.last() == (W)b && r.first() > a) : ((W)r.first() == (W)a && r.last() < b)));
                        if (!ok)
                            viol(std::string(o.n) + ":" + tn, bs + " " + o.n);
                    } else if (r.empty() || !((W)r.first() == lo && (W)r.last() == hi))
                        viol(std::string(o.n) + ":" + tn, bs + " " + o.n + " gives [" + vs(r.first()) + "," + vs(r.last()) + "]");
                }
            }
            if constexpr (std::is_integral_v<T>) {
                W n = (W)b - (W)a + 1;
                if (n <= (W)UINT32_MAX) {
                    lc.op("size");
                    if ((W)base.size() != n)
                        viol("size:" + tn, bs + ".size()");
                } else
                    ++lc.skipped;
            }
            for (T c : g)
                for (T d : g) {
                    if (!(c <= d))
                        continue;
                    const R y(c, d);
                    const std::string ex = bs + " op [" + vs(c) + "," + vs(d) + "]";
                    lc.op("inter");
                    {
                        R r = base & y;
                        T lo = std::max(a, c), hi = std::min(b, d);
                        if (r.empty() != (lo > hi) || (!r.empty() && !(r.first() == lo && r.last() == hi)))
                            viol("inter:" + tn, ex);
                    }
                    lc.op("union");
                    {
                        R r = base | y;
                        if (!(r.first() == std::min(a, c) && r.last() == std::max(b, d)))
                            viol("union:" + tn, ex);
                    }
                    lc.op("overlap");
                    if ((base && y) != (std::max(a, c) <= std::min(b, d)) || base.intersects(y) != (base && y))
                        viol("overlap:" + tn, ex);
                    {
                        auto same = [](const R& p, const R& q) { return (p.empty() && q.empty()) || (p.first() == q.first() && p.last() == q.last()); };
                        R u = base, i = base, u2 = base, i2 = base;
                        u |= y;
                        i &= y;
                        u2.add(y);
                        i2.intersect(y);
                        lc.op("aliases");
                        if (!same(u, base | y) || !same(u, base.unite(y)) || !same(u, u2))
                            viol("alias_union:" + tn, ex);
                        if (!same(i, base & y) || !same(i, base.intersection(y)) || !same(i, i2))
                            viol("alias_inter:" + tn, ex);
                    }
                    lc.op("eq");
                    if ((base == y) != (a == c && b == d))
                        viol("eq:" + tn, ex);
                    lc.op("order");
                    if ((base < y) != (b < c) || (base > y) != (a > d))
                        viol("order:" + tn, ex);
                    {
                        W lo = (W)a + (W)c, hi = (W)b + (W)d;
                        if (Wide<T>::ok(lo) && Wide<T>::ok(hi)) {
                            lc.op("plus");
                            R r = base + y;
                            if (!((W)r.first() == lo && (W)r.last() == hi))
                                viol("plus:" + tn, ex);
                        } else
                            ++lc.skipped;
                    }
                    {
                        W lo = (W)a - (W)d, hi = (W)b - (W)c;
                        if (Wide<T>::ok(lo) && Wide<T>::ok(hi)) {
                            lc.op("minus");
                            R r = base - y;
                            if (!((W)r.first() == lo && (W)r.last() == hi))
                                viol("minus:" + tn, ex);
                        } else
                            ++lc.skipped;
                    }
                    {
                        W p[4] = {(W)a * (W)c, (W)a * (W)d, (W)b * (W)c, (W)b * (W)d};
                        bool ok = true;
                        for (W v : p)
                            ok = ok && Wide<T>::ok(v);
                        if (ok) {
                            lc.op("mult");
                            W lo = std::min(std::min(p[0], p[1]), std::min(p[2], p[3]));
                            W hi = std::max(std::max(p[0], p[1]), std::max(p[2], p[3]));
                            R r = base * y;
                            if (!((W)r.first() == lo && (W)r.last() == hi))
                                viol("mult:" + tn, ex);
                        } else
                            ++lc.skipped;
                    }
                }
        }
}

int main(int argc, char** argv)
{
    std::string tier = argc > 1 ? argv[1] : "quick";
    int nthreads = argc > 2 ? atoi(argv[2]) : 16;
    // --- int8: every non-empty interval, every element
    std::vector<std::pair<int, int>> all;
    for (int a = -128; a <= 127; ++a)
        for (int b = a; b <= 127; ++b)
            all.emplace_back(a, b);
    // binary: quick = intervals with endpoints in [-9,9] U {-128,-127,126,127}; thorough = all pairs
    std::vector<std::pair<int, int>> bin;
    if (tier == "thorough")
        bin = all;
    else {
        std::vector<int> pts;
        for (int v = -9; v <= 9; ++v)
            pts.push_back(v);
        for (int v : {-128, -127, 126, 127})
            pts.push_back(v);
        std::sort(pts.begin(), pts.end());
        for (int a : pts)
            for (int b : pts)
                if (a <= b)
                    bin.emplace_back(a, b);
    }
    std::atomic<size_t> next{0};
    auto work = [&] {
        LocalCount lc;
        for (;;) {
            size_t i = next.fetch_add(1);
            if (i >= all.size())
                break;
            unary8(all[i].first, all[i].second, lc);
        }
    };
    std::vector<std::thread> th;
    for (int t = 0; t < nthreads; ++t)
        th.emplace_back(work);
    for (auto& t : th)
        t.join();
    th.clear();
    std::atomic<size_t> nextb{0};
    auto workb = [&] {
        LocalCount lc;
        for (;;) {
            size_t i = nextb.fetch_add(1);
            if (i >= bin.size())
                break;
            int a = bin[i].first, b = bin[i].second;
            bool brute = (b - a) <= 20;  // product scanned pointwise for small left operands
            for (auto& y : bin)
                binary8(a, b, y.first, y.second, brute && (y.second - y.first) <= 20, lc);
        }
    };
    for (int t = 0; t < nthreads; ++t)
        th.emplace_back(workb);
    for (auto& t : th)
        t.join();
    // --- grids
    {
        LocalCount lc;
        constexpr int32_t mn = INT32_MIN, mx = INT32_MAX;
        std::vector<int32_t> g{mn, mn + 1, -2, -1, 0, 1, 2, mx - 1, mx};
        if (tier == "thorough")
            g = {mn, mn + 1, mn + 2, -65536, -3, -2, -1, 0, 1, 2, 3, 65536, mx - 2, mx - 1, mx};
        grid<int32_t>(g, g, lc);
    }
    {
        LocalCount lc;
        const double inf = std::numeric_limits<double>::infinity();
        const double lowest = std::numeric_limits<double>::lowest(), mx = std::numeric_limits<double>::max();
        const double dm = std::numeric_limits<double>::denorm_min();
        std::vector<double> g{-inf, lowest, -1.0, -0.0, 0.0, dm, 0.25, 0.75, 1.0, 1.5, mx, inf};
        if (tier == "thorough")
            g = {-inf, lowest, -1e300, -2.0, -1.0, -0.5, -dm, -0.0, 0.0, dm, 0.25, 0.5, 0.75, 1.0, 1.0 + 0x1p-52, 1.5, 2.0, 1e300, mx, inf};
        std::vector<double> probes = g;
        for (double v : g) {
            if (v > -inf)
                probes.push_back(std::nextafter(v, -inf));
            if (v < inf)
                probes.push_back(std::nextafter(v, inf));
        }
        grid<double>(g, probes, lc);
    }
    {
        LocalCount lc;
        const float inf = std::numeric_limits<float>::infinity();
        const float lowest = std::numeric_limits<float>::lowest(), mx = std::numeric_limits<float>::max();
        std::vector<float> g{-inf, lowest, -1.0f, -0.0f, 0.0f, std::numeric_limits<float>::denorm_min(), 0.25f, 0.75f, 1.0f, 1.5f, 16777216.0f, mx, inf};
        std::vector<float> probes = g;
        for (float v : g) {
            if (v > -inf)
                probes.push_back(std::nextafter(v, -inf));
            if (v < inf)
                probes.push_back(std::nextafter(v, inf));
        }
        grid<float>(g, probes, lc);
    }
    {
        LocalCount lc;
        std::vector<int16_t> g{INT16_MIN, INT16_MIN + 1, -256, -2, -1, 0, 1, 2, 255, 256, INT16_MAX - 1, INT16_MAX};
        grid<int16_t>(g, g, lc);
    }
    {
        LocalCount lc;
        constexpr int64_t mn = INT64_MIN, mx = INT64_MAX;
        std::vector<int64_t> g{mn, mn + 1, -4294967296LL, -2147483649LL, -2, -1, 0, 1, 2, 2147483648LL, 4294967295LL, 4294967296LL, mx - 1, mx};
        grid<int64_t>(g, g, lc);
    }
    // --- report
    printf("{\"evaluations\": %" PRIu64 ", \"skipped_overflow\": %" PRIu64 ", \"int8_intervals\": %zu, \"int8_pairs\": %zu, ",
           g_evals.load(), g_skipped_overflow.load(), all.size(), bin.size() * bin.size());
    printf("\"per_op\": {");
    bool first = true;
    for (auto& kv : g_per_op) {
        printf("%s\"%s\": %" PRIu64, first ? "" : ", ", kv.first.c_str(), kv.second);
        first = false;
    }
    printf("}, \"violations\": [");
    first = true;
    for (auto& kv : g_viol) {
        printf("%s{\"sig\": \"%s\", \"count\": %" PRIu64 ", \"example\": \"%s\"}", first ? "" : ", ", kv.first.c_str(),
               kv.second.first, kv.second.second.c_str());
        first = false;
    }
    printf("]}\n");
    return 0;
}
