#include "dump.h"

#include "utap/typechecker.h"

#include <cmath>
#include <cstdio>
#include <cstring>
#include <map>
#include <set>
#include <sstream>

using namespace UTAP;
using namespace UTAP::Constants;

namespace utapv {

static const char* const kind_names[] = {
#include "kindnames.inc"
};
static constexpr int n_kind_names = sizeof(kind_names) / sizeof(kind_names[0]);

const char* kind_name(int kind)
{
    static thread_local char buf[32];
    if (kind >= 0 && kind < n_kind_names)
        return kind_names[kind];
    snprintf(buf, sizeof buf, "K%d", kind);
    return buf;
}

std::string hexdouble(double d)
{
    char buf[64];
    snprintf(buf, sizeof buf, "%a", d);
    return buf;
}

static std::string quote(const std::string& s)
{
    std::string r = "\"";
    for (unsigned char c : s) {
        if (c == '"' || c == '\\') {
            r += '\\';
            r += (char)c;
        } else if (c < 0x20) {
            char b[8];
            snprintf(b, sizeof b, "\\x%02x", c);
            r += b;
        } else
            r += (char)c;
    }
    return r + "\"";
}

static std::string sexpr_d(const expression_t& e, const SexprOpts& o, int depth);

static thread_local bool g_type_expr_syms = false;

static std::string type_sexpr_d(const type_t& t, int depth)
{
    if (t.data == nullptr)
        return "?";
    if (depth > 40)
        return "(...)";
    expression_t ex = t.get_expression();
    if (!ex.empty()) {
        SexprOpts o;
        o.sym_types = g_type_expr_syms && depth < 6;
        return "<" + sexpr_d(ex, o, depth + 1) + ">";
    }
    int k = t.get_kind();
    std::string r = "(";
    r += kind_name(k);
    size_t n = t.size();
    if (k == PROCESS || k == INSTANCE || k == LSC_INSTANCE || k == PROCESS_SET) {
        // children are whole frames; labels identify them, types only one level down
        for (size_t i = 0; i < n; ++i) {
            r += " ";
            r += t.get_label(i);
            if (k != PROCESS && depth < 3)
                r += ":" + type_sexpr_d(t.get(i), depth + 8);
        }
        return r + ")";
    }
    for (size_t i = 0; i < n; ++i) {
        r += " ";
        const std::string& l = t.get_label(i);
        if (!l.empty())
            r += l + ":";
        r += type_sexpr_d(t.get(i), depth + 1);
    }
    return r + ")";
}

std::string type_sexpr(const type_t& t, int depth) { return type_sexpr_d(t, depth); }

static size_t n_children_hint(const expression_t& e) { return expr_stored_children(e); }

static std::string sexpr_d(const expression_t& e, const SexprOpts& o, int depth)
{
    if (e.empty())
        return "()";
    if (depth > 200)
        return "(...)";
    int k = e.get_kind();
    std::string r = "(";
    r += kind_name(k);
    int32_t iv;
    double dv;
    std::string sv;
    int yv;
    if (k == CONSTANT) {
        r += ":";
        r += kind_name(e.get_type().get_kind());
        if (expr_value_int(e, iv))
            r += " " + std::to_string(iv);
        else if (expr_value_double(e, dv))
            r += " " + hexdouble(dv);
        else if (expr_value_string(e, sv))
            r += " " + quote(sv);
        else if (expr_value_sync(e, yv))
            r += " sync" + std::to_string(yv);
    } else if (k == IDENTIFIER) {
        symbol_t s = expr_symbol_raw(e);
        if (o.subst_sym != nullptr && s == *o.subst_sym)
            return *o.subst_text;
        if (s == symbol_t())
            r += " <nosymbol>";
        else {
            r += " " + s.get_name();
            if (o.sym_types)
                r += ":" + type_sexpr_d(s.get_type(), depth + 1);
        }
    } else {
        if (k == DOT || k == VAR_INDEX) {
            if (expr_value_int(e, iv)) {
                r += ":" + std::to_string(iv);
                // the member the index selects, with its (argument-substituted) type
                if (k == DOT && o.sym_types && o.dot_members && n_children_hint(e) == 1) {
                    type_t bt = expr_child(e, 0)->get_type();
                    if (bt.data != nullptr && (bt.is_process() || bt.is_record()) && iv >= 0 &&
                        (size_t)iv < (size_t)bt.get_record_size())
                        r += ":" + bt.get_record_label(iv) + ":" + type_sexpr_d(e.get_type(), depth + 1);
                }
            }
        } else if (k == SYNC) {
            if (expr_value_sync(e, yv))
                r += ":" + std::to_string(yv);
        } else {
            // any other payload is part of the observable tree too
            if (expr_value_int(e, iv)) {
                if (iv != 0)
                    r += ":v" + std::to_string(iv);
            } else if (expr_value_double(e, dv))
                r += ":d" + hexdouble(dv);
            else if (expr_value_string(e, sv))
                r += ":s" + quote(sv);
        }
        if (expr_has_symbol(e))
            r += " @" + expr_symbol_raw(e).get_name();
    }
    size_t n = expr_stored_children(e);
    for (size_t i = 0; i < n; ++i) {
        r += " ";
        r += sexpr_d(*expr_child(e, i), o, depth + 1);
    }
    r += ")";
    if (o.expr_types) {
        type_t t = e.get_type();
        r += "^";
        r += (t.data == nullptr) ? "?" : kind_name(t.get_kind());
    }
    return r;
}

std::string sexpr(const expression_t& e, const SexprOpts& o) { return sexpr_d(e, o, 0); }

static std::string frame_sexpr(const frame_t& f)
{
    if (f == frame_t())
        return "[]";
    std::string r = "[";
    for (uint32_t i = 0; i < f.get_size(); ++i) {
        if (i)
            r += " ";
        r += f[i].get_name() + ":" + type_sexpr_d(f[i].get_type(), 1);
    }
    return r + "]";
}

static std::string stmt_d(Statement* s, const SexprOpts& o, int depth);

static std::string block_body(BlockStatement* b, const SexprOpts& o, int depth)
{
    std::string r;
    r += " frame=" + frame_sexpr(b->get_frame());
    for (auto& v : b->variables)
        r += " (var " + v.uid.get_name() + " " + sexpr_d(v.init, o, depth + 1) + ")";
    for (auto it = b->begin(); it != b->end(); ++it)
        r += " " + stmt_d(it->get(), o, depth + 1);
    return r;
}

static std::string stmt_d(Statement* s, const SexprOpts& o, int depth)
{
    if (s == nullptr)
        return "(null)";
    if (depth > 200)
        return "(...)";
    if (dynamic_cast<EmptyStatement*>(s))
        return "(empty)";
    if (auto* p = dynamic_cast<ExprStatement*>(s))
        return "(expr " + sexpr_d(p->expr, o, depth) + ")";
    if (auto* p = dynamic_cast<AssertStatement*>(s))
        return "(assert " + sexpr_d(p->expr, o, depth) + ")";
    if (auto* p = dynamic_cast<ForStatement*>(s))
        return "(for " + sexpr_d(p->init, o, depth) + " " + sexpr_d(p->cond, o, depth) + " " +
               sexpr_d(p->step, o, depth) + " " + stmt_d(p->stat.get(), o, depth + 1) + ")";
    if (auto* p = dynamic_cast<IterationStatement*>(s))
        return "(iter " + (p->symbol == symbol_t() ? std::string("<nosymbol>")
                                                   : p->symbol.get_name() + ":" + type_sexpr_d(p->symbol.get_type(), 1)) +
               " " + stmt_d(p->stat.get(), o, depth + 1) + ")";
    if (auto* p = dynamic_cast<WhileStatement*>(s))
        return "(while " + sexpr_d(p->cond, o, depth) + " " + stmt_d(p->stat.get(), o, depth + 1) + ")";
    if (auto* p = dynamic_cast<DoWhileStatement*>(s))
        return "(do " + stmt_d(p->stat.get(), o, depth + 1) + " " + sexpr_d(p->cond, o, depth) + ")";
    if (auto* p = dynamic_cast<SwitchStatement*>(s))
        return "(switch " + sexpr_d(p->cond, o, depth) + block_body(p, o, depth) + ")";
    if (auto* p = dynamic_cast<CaseStatement*>(s))
        return "(case " + sexpr_d(p->cond, o, depth) + block_body(p, o, depth) + ")";
    if (auto* p = dynamic_cast<DefaultStatement*>(s))
        return "(default" + block_body(p, o, depth) + ")";
    if (auto* p = dynamic_cast<BlockStatement*>(s))
        return "(block" + block_body(p, o, depth) + ")";
    if (auto* p = dynamic_cast<IfStatement*>(s))
        return "(if " + sexpr_d(p->cond, o, depth) + " " + stmt_d(p->trueCase.get(), o, depth + 1) + " " +
               (p->falseCase ? stmt_d(p->falseCase.get(), o, depth + 1) : std::string("-")) + ")";
    if (dynamic_cast<BreakStatement*>(s))
        return "(break)";
    if (dynamic_cast<ContinueStatement*>(s))
        return "(continue)";
    if (auto* p = dynamic_cast<ReturnStatement*>(s))
        return "(return " + sexpr_d(p->value, o, depth) + ")";
    return "(stmt?)";
}

std::string stmt_sexpr(Statement* s, const SexprOpts& o) { return stmt_d(s, o, 0); }

static json err_json(const UTAP::error_t& e)
{
    json j;
    j["msg"] = e.msg;
    j["ctx"] = e.context;
    j["path"] = e.start.path ? *e.start.path : std::string("<null>");
    j["epath"] = e.end.path ? *e.end.path : std::string("<null>");
    j["sl"] = e.start.line;
    j["el"] = e.end.line;
    // same arithmetic as error_t::str(): column = absolute position - position of line start
    j["sc"] = (int64_t)e.position.start - (int64_t)e.start.position;
    j["ec"] = (int64_t)e.position.end - (int64_t)e.end.position;
    j["unknown_pos"] = (e.position.start == position_t::unknown_pos);
    return j;
}

json dump_errors(const std::vector<UTAP::error_t>& errs)
{
    json a = json::array();
    for (auto& e : errs)
        a.push_back(err_json(e));
    return a;
}

static std::string symname(const symbol_t& s) { return s == symbol_t() ? std::string("<null>") : s.get_name(); }

static json names_of(const std::set<symbol_t>& ss)
{
    std::vector<std::string> v;
    for (auto& s : ss)
        v.push_back(symname(s));
    std::sort(v.begin(), v.end());
    return v;
}

static json decl_json(declarations_t& d, const SexprOpts& o)
{
    json j;
    json fr = json::array();
    if (!(d.frame == frame_t()))
        for (uint32_t i = 0; i < d.frame.get_size(); ++i)
            fr.push_back({{"name", d.frame[i].get_name()}, {"type", type_sexpr_d(d.frame[i].get_type(), 0)}});
    j["frame"] = fr;
    json vars = json::array();
    for (auto& v : d.variables)
        vars.push_back({{"name", symname(v.uid)},
                        {"type", v.uid == symbol_t() ? std::string("?") : type_sexpr_d(v.uid.get_type(), 0)},
                        {"init", sexpr_d(v.init, o, 0)}});
    j["vars"] = vars;
    json funs = json::array();
    for (auto& f : d.functions) {
        json fj;
        fj["name"] = symname(f.uid);
        fj["type"] = f.uid == symbol_t() ? std::string("?") : type_sexpr_d(f.uid.get_type(), 0);
        fj["changes"] = names_of(f.changes);
        fj["depends"] = names_of(f.depends);
        json lv = json::array();
        for (auto& v : f.variables)
            lv.push_back({{"name", symname(v.uid)}, {"init", sexpr_d(v.init, o, 0)}});
        fj["locals"] = lv;
        fj["body"] = stmt_d(f.body.get(), o, 0);
        funs.push_back(fj);
    }
    j["funcs"] = funs;
    json pr = json::array();
    for (auto& p : d.progress)
        pr.push_back({sexpr_d(p.guard, o, 0), sexpr_d(p.measure, o, 0)});
    j["progress"] = pr;
    json ga = json::array();
    for (auto& g : d.ganttChart) {
        json gj;
        gj["name"] = g.name;
        gj["params"] = frame_sexpr(g.parameters);
        json ms = json::array();
        for (auto& m : g.mapping)
            ms.push_back({frame_sexpr(m.parameters), sexpr_d(m.predicate, o, 0), sexpr_d(m.mapping, o, 0)});
        gj["map"] = ms;
        ga.push_back(gj);
    }
    j["gantt"] = ga;
    json io = json::array();
    for (auto& d2 : d.iodecl) {
        json ij;
        ij["inst"] = d2.instanceName;
        json a = json::array();
        for (auto& e : d2.param) a.push_back(sexpr_d(e, o, 0));
        ij["param"] = a;
        a = json::array();
        for (auto& e : d2.inputs) a.push_back(sexpr_d(e, o, 0));
        ij["in"] = a;
        a = json::array();
        for (auto& e : d2.outputs) a.push_back(sexpr_d(e, o, 0));
        ij["out"] = a;
        io.push_back(ij);
    }
    j["iodecl"] = io;
    return j;
}

static json instance_json(instance_t& in, const SexprOpts& o)
{
    json j;
    j["name"] = symname(in.uid);
    j["type"] = in.uid == symbol_t() ? std::string("?") : type_sexpr_d(in.uid.get_type(), 0);
    j["templ"] = in.templ == nullptr ? std::string("<null>") : symname(in.templ->uid);
    json ps = json::array();
    if (!(in.parameters == frame_t()))
        for (uint32_t i = 0; i < in.parameters.get_size(); ++i)
            ps.push_back({{"name", in.parameters[i].get_name()}, {"type", type_sexpr_d(in.parameters[i].get_type(), 0)}});
    j["params"] = ps;
    j["unbound"] = in.unbound;
    j["arguments"] = in.arguments;
    // mapping rendered by parameter *position* (the map itself is pointer-ordered)
    json mp = json::array();
    if (!(in.parameters == frame_t())) {
        std::set<symbol_t> seen;
        for (uint32_t i = 0; i < in.parameters.get_size(); ++i) {
            auto it = in.mapping.find(in.parameters[i]);
            if (it != in.mapping.end()) {
                mp.push_back({i, in.parameters[i].get_name(), sexpr_d(it->second, o, 0)});
                seen.insert(in.parameters[i]);
            }
        }
        for (auto& kv : in.mapping)
            if (!seen.count(kv.first))
                mp.push_back({-1, symname(kv.first), sexpr_d(kv.second, o, 0)});
    }
    j["mapping"] = mp;
    j["restricted"] = names_of(in.restricted);
    return j;
}

static std::string loc_flags(const symbol_t& s)
{
    if (s == symbol_t())
        return "?";
    type_t t = s.get_type();
    std::string r;
    if (t.is(URGENT)) r += "U";
    if (t.is(COMMITTED)) r += "C";
    return r;
}

static json template_json(template_t& t, const SexprOpts& o)
{
    json j = instance_json(t, o);
    j["decl"] = decl_json(t, o);
    j["is_TA"] = t.is_TA;
    j["is_instantiated"] = t.is_instantiated;
    j["dynamic"] = t.dynamic;
    j["is_defined"] = t.is_defined;
    j["lsc_type"] = t.type;
    j["lsc_mode"] = t.mode;
    j["has_prechart"] = t.has_prechart;
    j["init"] = t.init == symbol_t() ? json(nullptr) : json(t.init.get_name());
    json ls = json::array();
    for (auto& l : t.locations) {
        json lj;
        lj["nr"] = l.nr;
        lj["name"] = symname(l.uid);
        lj["flags"] = loc_flags(l.uid);
        lj["inv"] = sexpr_d(l.invariant, o, 0);
        lj["exp_rate"] = sexpr_d(l.exp_rate, o, 0);
        lj["cost_rate"] = sexpr_d(l.cost_rate, o, 0);
        ls.push_back(lj);
    }
    j["locations"] = ls;
    json bs = json::array();
    for (auto& b : t.branchpoints)
        bs.push_back({{"nr", b.bpNr}, {"name", symname(b.uid)}});
    j["branchpoints"] = bs;
    json es = json::array();
    for (auto& e : t.edges) {
        json ej;
        ej["nr"] = e.nr;
        ej["control"] = e.control;
        ej["actname"] = e.actname;
        ej["src"] = e.src ? json(symname(e.src->uid)) : json(nullptr);
        ej["srcb"] = e.srcb ? json(symname(e.srcb->uid)) : json(nullptr);
        ej["dst"] = e.dst ? json(symname(e.dst->uid)) : json(nullptr);
        ej["dstb"] = e.dstb ? json(symname(e.dstb->uid)) : json(nullptr);
        ej["select"] = frame_sexpr(e.select);
        ej["guard"] = sexpr_d(e.guard, o, 0);
        ej["sync"] = sexpr_d(e.sync, o, 0);
        ej["assign"] = sexpr_d(e.assign, o, 0);
        ej["prob"] = sexpr_d(e.prob, o, 0);
        es.push_back(ej);
    }
    j["edges"] = es;
    // LSC parts
    json il = json::array();
    for (auto& i : t.instances) {
        json ij = instance_json(i, o);
        ij["nr"] = i.instance_nr;
        il.push_back(ij);
    }
    j["lsc_instances"] = il;
    json ms = json::array();
    for (auto& m : t.messages)
        ms.push_back({{"nr", m.nr}, {"loc", m.location}, {"pch", m.is_in_prechart},
                      {"src", m.src ? (int)m.src->instance_nr : -1}, {"dst", m.dst ? (int)m.dst->instance_nr : -1},
                      {"label", sexpr_d(m.label, o, 0)}});
    j["messages"] = ms;
    json cs = json::array();
    for (auto& c : t.conditions) {
        json a = json::array();
        for (auto* an : c.anchors) a.push_back(an ? (int)an->instance_nr : -1);
        cs.push_back({{"nr", c.nr}, {"loc", c.location}, {"pch", c.is_in_prechart}, {"hot", c.isHot}, {"anchors", a},
                      {"label", sexpr_d(c.label, o, 0)}});
    }
    j["conditions"] = cs;
    json us = json::array();
    for (auto& u : t.updates)
        us.push_back({{"nr", u.nr}, {"loc", u.location}, {"pch", u.is_in_prechart},
                      {"anchor", u.anchor ? (int)u.anchor->instance_nr : -1}, {"label", sexpr_d(u.label, o, 0)}});
    j["updates"] = us;
    return j;
}

json docdump(Document& doc, const SexprOpts& o)
{
    json j;
    struct Flag
    {
        bool old;
        explicit Flag(bool v): old(g_type_expr_syms) { g_type_expr_syms = v; }
        ~Flag() { g_type_expr_syms = old; }
    } flag(o.type_expr_syms);
    j["globals"] = decl_json(doc.get_globals(), o);
    json ts = json::array();
    for (auto& t : doc.get_templates())
        ts.push_back(template_json(t, o));
    j["templates"] = ts;
    json dts = json::array();
    for (auto& t : doc.dyn_templates)
        dts.push_back(template_json(t, o));
    j["dyn_templates"] = dts;
    json is = json::array();
    for (auto& i : doc.instances)
        is.push_back(instance_json(i, o));
    j["instances"] = is;
    json li = json::array();
    for (auto& i : doc.lsc_instances)
        li.push_back(instance_json(i, o));
    j["lsc_instances"] = li;
    json ps = json::array();
    for (auto& p : doc.get_processes()) {
        json pj = instance_json(p, o);
        pj["priority"] = p.uid == symbol_t() ? 0 : doc.get_proc_priority(p.uid.get_name().c_str());
        ps.push_back(pj);
    }
    j["processes"] = ps;
    json cp = json::array();
    for (auto& c : doc.get_chan_priorities()) {
        json cj = json::array();
        cj.push_back(sexpr_d(c.head, o, 0));
        for (auto& e : c.tail)
            cj.push_back(std::string(1, e.first) + sexpr_d(e.second, o, 0));
        cp.push_back(cj);
    }
    j["chan_priorities"] = cp;
    json qs = json::array();
    for (auto& q : doc.get_queries()) {
        json qj;
        qj["formula"] = q.formula;
        qj["comment"] = q.comment;
        qj["location"] = q.location;
        json os = json::array();
        for (auto& op : q.options) os.push_back({op.name, op.value});
        qj["options"] = os;
        qj["exp_type"] = (int)q.expectation.value_type;
        qj["exp_status"] = (int)q.expectation.status;
        qj["exp_value"] = q.expectation.value;
        json rs = json::array();
        for (auto& r : q.expectation.resources) rs.push_back({r.name, r.value, r.unit ? *r.unit : std::string("<none>")});
        qj["resources"] = rs;
        qs.push_back(qj);
    }
    j["queries"] = qs;
    json os = json::array();
    for (auto& op : doc.get_options()) os.push_back({op.name, op.value});
    j["options"] = os;
    j["before_update"] = sexpr_d(doc.get_before_update(), o, 0);
    j["after_update"] = sexpr_d(doc.get_after_update(), o, 0);
    j["flags"] = {{"urgent_trans", doc.has_urgent_transition()},
                  {"priorities", doc.has_priority_declaration()},
                  {"strict_inv", doc.has_strict_invariants()},
                  {"stop_watch", doc.has_stop_watch()},
                  {"strict_low_ctrl", doc.has_strict_lower_bound_on_controllable_edges()},
                  {"guard_recv_bcast", doc.has_clock_guard_recv_broadcast()},
                  {"sync_used", doc.get_sync_used()},
                  {"all_broadcast", doc.all_broadcast()},
                  {"dynamic", doc.has_dynamic_templates()}};
    j["strings"] = doc.get_strings();
    return j;
}

// ---------------------------------------------------------------------------
// C08 invariants

namespace {
struct Inv
{
    std::vector<std::string>& out;
    void fail(const std::string& s)
    {
        if (out.size() < 50)
            out.push_back(s);
    }
};

template <class T>
void check_uid(Inv& inv, const char* what, T& obj)
{
    if (obj.uid == symbol_t()) {
        inv.fail(std::string(what) + ": null symbol");
        return;
    }
    if (obj.uid.get_data() != (void*)&obj)
        inv.fail(std::string(what) + " '" + obj.uid.get_name() + "': symbol's user data is not the object");
}

void check_decls(Inv& inv, declarations_t& d, const std::string& where)
{
    for (auto& v : d.variables)
        check_uid(inv, ("variable in " + where).c_str(), v);
    for (auto& f : d.functions) {
        check_uid(inv, ("function in " + where).c_str(), f);
        for (auto& v : f.variables)
            check_uid(inv, ("function-local variable in " + where).c_str(), v);
    }
}

void check_instance(Inv& inv, instance_t& in, const std::string& what, bool is_template)
{
    std::string nm = what + " '" + symname(in.uid) + "'";
    if (in.uid == symbol_t()) {
        inv.fail(nm + ": null symbol");
        return;
    }
    // user object of own symbol
    void* d = in.uid.get_data();
    void* self = is_template ? (void*)static_cast<template_t*>(&in) : (void*)&in;
    // templates register `this` as template_t* or instance_t*; accept either base address
    if (d != (void*)&in && d != self)
        inv.fail(nm + ": symbol's user data is not the object");
    if (in.parameters == frame_t()) {
        if (in.unbound != 0 || !in.mapping.empty())
            inv.fail(nm + ": null parameter frame with unbound/mapping");
        return;
    }
    size_t n = in.parameters.get_size();
    if (in.unbound > n) {
        inv.fail(nm + ": unbound > number of parameters");
        return;
    }
    for (size_t i = 0; i < n; ++i) {
        bool mapped = in.mapping.count(in.parameters[i]) > 0;
        if (i < in.unbound && mapped)
            inv.fail(nm + ": unbound parameter " + in.parameters[i].get_name() + " has a mapping");
        if (i >= in.unbound && !mapped)
            inv.fail(nm + ": bound parameter " + in.parameters[i].get_name() + " has no mapping");
    }
    if (in.mapping.size() != n - in.unbound)
        inv.fail(nm + ": mapping size " + std::to_string(in.mapping.size()) + " != bound parameters " +
                 std::to_string(n - in.unbound));
    type_t t = in.uid.get_type();
    if (t.data == nullptr)
        inv.fail(nm + ": null type");
    else if ((t.get_kind() == INSTANCE || t.get_kind() == LSC_INSTANCE || t.get_kind() == PROCESS_SET) &&
             t.size() != in.unbound)  // a closed process has type PROCESS over its locals instead
        inv.fail(nm + ": type arity " + std::to_string(t.size()) + " != unbound " + std::to_string(in.unbound));
}

void check_template(Inv& inv, template_t& t, bool clean, const char* what)
{
    std::string nm = std::string(what) + " '" + symname(t.uid) + "'";
    check_instance(inv, t, what, true);
    check_decls(inv, t, nm);
    std::set<const location_t*> locs;
    std::set<const branchpoint_t*> bps;
    int i = 0;
    for (auto& l : t.locations) {
        check_uid(inv, ("location in " + nm).c_str(), l);
        if (l.nr != i)
            inv.fail(nm + ": location #" + std::to_string(i) + " has nr " + std::to_string(l.nr));
        locs.insert(&l);
        ++i;
    }
    i = 0;
    for (auto& b : t.branchpoints) {
        check_uid(inv, ("branchpoint in " + nm).c_str(), b);
        if (b.bpNr != i)
            inv.fail(nm + ": branchpoint #" + std::to_string(i) + " has nr " + std::to_string(b.bpNr));
        bps.insert(&b);
        ++i;
    }
    i = 0;
    for (auto& e : t.edges) {
        std::string en = nm + " edge #" + std::to_string(i);
        if (e.nr != i)
            inv.fail(en + ": has nr " + std::to_string(e.nr));
        if ((e.src != nullptr) + (e.srcb != nullptr) != 1)
            inv.fail(en + ": does not have exactly one source");
        if ((e.dst != nullptr) + (e.dstb != nullptr) != 1)
            inv.fail(en + ": does not have exactly one target");
        if (e.src && !locs.count(e.src))
            inv.fail(en + ": source location not in own template");
        if (e.dst && !locs.count(e.dst))
            inv.fail(en + ": target location not in own template");
        if (e.srcb && !bps.count(e.srcb))
            inv.fail(en + ": source branchpoint not in own template");
        if (e.dstb && !bps.count(e.dstb))
            inv.fail(en + ": target branchpoint not in own template");
        ++i;
    }
    if (clean && t.is_TA) {
        if (t.init == symbol_t())
            inv.fail(nm + ": accepted timed-automaton template without initial location");
        else {
            const void* d = t.init.get_data();
            bool found = false;
            for (auto& l : t.locations)
                if (d == (const void*)&l)
                    found = true;
            if (!found)
                inv.fail(nm + ": initial location is not one of the template's own locations");
        }
    }
    for (auto& il : t.instances)
        (void)il;
}
}  // namespace

std::vector<std::string> invcheck(Document& doc, bool clean)
{
    std::vector<std::string> out;
    Inv inv{out};
    check_decls(inv, doc.get_globals(), "globals");
    for (auto& t : doc.get_templates())
        check_template(inv, t, clean, "template");
    for (auto& t : doc.dyn_templates)
        check_template(inv, t, false, "dynamic template");
    for (auto& i : doc.instances)
        check_instance(inv, i, "instance", false);
    for (auto& p : doc.get_processes())
        check_instance(inv, p, "process", false);
    return out;
}

}  // namespace utapv
