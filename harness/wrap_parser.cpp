// Wrapper TU: the generated parser plus accessors for its file-static state.
// No line of /repo is changed; this TU replaces parser.cpp in verification builds.
#include "parser.cpp"

#include <string>

// Everything a later parse call could read from the parser/lexer globals.
void utapv_globals(std::string& out)
{
    // lib/build.py defines UTAPV_HAS_<name> for every file-static it finds declared in the generated parser, so that a
    // change of the tree under test that renames or removes one of them does not break the harness build
    out.clear();
#ifdef UTAPV_HAS_ch
    out += "ch=" + std::string(ch == nullptr ? "0" : "1");
#endif
#ifdef UTAPV_HAS_syntax
    out += " syntax=" + std::to_string(static_cast<unsigned>(syntax));
#endif
#ifdef UTAPV_HAS_syntax_token
    out += " syntax_token=" + std::to_string(syntax_token);
#endif
#ifdef UTAPV_HAS_types
    out += " types=" + std::to_string(types);
#endif
#ifdef UTAPV_HAS_rootTransId
    out += " rootTransId=" + std::string(rootTransId, strnlen(rootTransId, sizeof(rootTransId)));
#endif
    out += " yy_start=" + std::to_string(yy_start);
    out += " yy_init=" + std::to_string(yy_init);
    out += " buf_top=" + std::to_string(yy_buffer_stack_top);
    out += " cur_buf=" + std::string((yy_buffer_stack != nullptr && yy_buffer_stack[yy_buffer_stack_top] != nullptr) ? "1" : "0");
}
int utapv_lexer_start() { return yy_start; }
// text of the buffer the lexer is scanning right now (identifies which text block a parse belongs to)
const char* utapv_scan_text()
{
    if (yy_buffer_stack == nullptr || yy_buffer_stack[yy_buffer_stack_top] == nullptr)
        return nullptr;
    return yy_buffer_stack[yy_buffer_stack_top]->yy_ch_buf;
}
// spelling of the token the lexer returned last (bison shifts it before it reads another one)
const char* utapv_last_token_text() { return utap_text; }
