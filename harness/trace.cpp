#include "trace.h"

#include <cstdarg>
#include <cstring>

namespace utapv {
TraceSink* g_trace_sink = nullptr;
}

// bison's debug output arrives in fragments (one YYFPRINTF call each).  Only a handful of line kinds are
// observation material; everything else (rule reductions, symbol values) is dropped without formatting.
static bool interesting(const char* fmt, va_list ap)
{
    if (strncmp(fmt, "Starting parse", 14) == 0 || strncmp(fmt, "Stack now", 9) == 0 ||
        strncmp(fmt, "Reading a token", 15) == 0 || strncmp(fmt, "Now at end of input", 19) == 0)
        return true;
    if (strcmp(fmt, "%s ") == 0) {  // YY_SYMBOL_PRINT(title, ...): "Shifting", "Next token is", "-> $$ =", ...
        va_list cp;
        va_copy(cp, ap);
        const char* title = va_arg(cp, const char*);
        va_end(cp);
        return title != nullptr && strncmp(title, "Shifting", 8) == 0;
    }
    return false;
}

extern "C" int utapv_trace(FILE*, const char* fmt, ...)
{
    static thread_local char line[4096];
    static thread_local size_t len = 0;
    static thread_local bool at_line_start = true;
    static thread_local bool collecting = false;
    if (utapv::g_trace_sink == nullptr) {
        len = 0;
        at_line_start = true;
        collecting = false;
        return 0;
    }
    va_list ap;
    va_start(ap, fmt);
    if (at_line_start) {
        collecting = interesting(fmt, ap);
        len = 0;
    }
    size_t fl = strlen(fmt);
    bool ends_line = fl > 0 && fmt[fl - 1] == '\n';
    if (collecting) {
        int n = vsnprintf(line + len, sizeof(line) - len, fmt, ap);
        if (n > 0)
            len += (size_t)n < sizeof(line) - len ? (size_t)n : sizeof(line) - len - 1;
        if (ends_line) {
            if (len > 0 && line[len - 1] == '\n')
                line[len - 1] = '\0';
            utapv::g_trace_sink->line(line);
            len = 0;
        }
    }
    va_end(ap);
    at_line_start = ends_line;
    return 0;
}
