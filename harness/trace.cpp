#include "trace.h"

#include <cstdarg>
#include <cstring>

namespace utapv {
TraceSink* g_trace_sink = nullptr;
}

// bison debug output arrives in fragments; assemble lines.
extern "C" int utapv_trace(FILE*, const char* fmt, ...)
{
    static thread_local char line[8192];
    static thread_local size_t len = 0;
    if (utapv::g_trace_sink == nullptr) {
        len = 0;
        return 0;
    }
    va_list ap;
    va_start(ap, fmt);
    int n = vsnprintf(line + len, sizeof(line) - len, fmt, ap);
    va_end(ap);
    if (n < 0)
        return 0;
    len += (size_t)n < sizeof(line) - len ? (size_t)n : sizeof(line) - len - 1;
    char* nl;
    while ((nl = (char*)memchr(line, '\n', len)) != nullptr) {
        *nl = '\0';
        utapv::g_trace_sink->line(line);
        size_t used = (nl - line) + 1;
        memmove(line, nl + 1, len - used);
        len -= used;
    }
    return n;
}
