#ifndef UTAPV_TRACE_IMPL_H
#define UTAPV_TRACE_IMPL_H
#include <cstdio>
namespace utapv {
struct TraceSink
{
    virtual ~TraceSink() = default;
    virtual void line(const char* l) = 0;
};
extern TraceSink* g_trace_sink;
}  // namespace utapv
extern int utap_debug;
#endif
