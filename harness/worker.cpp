// utapv: the verification worker.  Line-delimited JSON requests on stdin, one
// JSON line per response on stdout.  Every op runs the *real* library code on
// one input (or a batch) and reports canonical observations; the Python
// drivers enumerate inputs and judge the observations.
#include "worker.h"

#include "utap/DocumentBuilder.hpp"
#include "utap/featurechecker.h"
#include "utap/prettyprinter.h"
#include "utap/property.h"
#include "utap/typechecker.h"

#include <cxxabi.h>
#include <fcntl.h>
#include <sys/mman.h>
#include <sys/personality.h>
#include <sys/stat.h>
#include <sys/resource.h>
#include <unistd.h>

#include <chrono>
#include <iostream>
#include <sstream>

using namespace UTAP;
using utapv::json;

extern "C" void* __real_dlopen(const char*, int);
extern "C" void* __wrap_dlopen(const char*, int fl)
{
    // enumerated `import "...";` declarations can never load a shared object
    return __real_dlopen("/nonexistent/utapv-blocked.so", fl);
}

namespace utapv {

static int g_stderr_fd = -1;
static off_t g_stderr_off = 0;

std::string take_stderr()
{
    if (g_stderr_fd < 0)
        return "";
    fflush(stderr);
    struct stat st;
    if (fstat(g_stderr_fd, &st) != 0 || st.st_size <= g_stderr_off)
        return "";
    size_t n = st.st_size - g_stderr_off;
    if (n > 6000)
        n = 6000;
    std::string s(n, '\0');
    ssize_t r = pread(g_stderr_fd, &s[0], n, g_stderr_off);
    g_stderr_off = st.st_size;
    if (r < 0)
        return "";
    s.resize(r);
    return s;
}

std::string demangle(const char* n)
{
    int st = 0;
    char* d = abi::__cxa_demangle(n, nullptr, nullptr, &st);
    std::string r = (st == 0 && d) ? d : n;
    free(d);
    return r;
}

// Runs f, classifies how it ended.  Fills j["exc"] (demangled dynamic type),
// j["what"], j["std"] (derived from std::exception?).
void guarded(json& j, const std::function<void()>& f)
{
    try {
        f();
        j["exc"] = nullptr;
    } catch (const std::exception& e) {
        j["exc"] = demangle(typeid(e).name());
        j["what"] = std::string(e.what()).substr(0, 300);
        j["std"] = true;
    } catch (...) {
        std::type_info* t = abi::__cxa_current_exception_type();
        j["exc"] = t ? demangle(t->name()) : std::string("<unknown>");
        j["std"] = false;
    }
}

static json methods_json(Document& doc)
{
    auto& m = doc.get_supported_methods();
    return {{"symbolic", m.symbolic}, {"stochastic", m.stochastic}, {"concrete", m.concrete}};
}

static bool wants(const json& req, const char* w)
{
    if (!req.contains("want"))
        return false;
    for (auto& x : req["want"])
        if (x == w)
            return true;
    return false;
}

static std::string write_xml(Document& doc, json& out)
{
    int fd = memfd_create("utapv-out", 0);
    if (fd < 0)
        return "";
    std::string path = "/proc/self/fd/" + std::to_string(fd);
    std::string res;
    json g;
    int rc = -99;
    guarded(g, [&] { rc = write_XML_file(path.c_str(), &doc); });
    out["write_rc"] = rc;
    out["write_exc"] = g["exc"];
    if (g.contains("what"))
        out["write_what"] = g["what"];
    struct stat st;
    if (fstat(fd, &st) == 0 && st.st_size > 0) {
        res.resize(st.st_size);
        ssize_t r = pread(fd, &res[0], st.st_size, 0);
        res.resize(r < 0 ? 0 : r);
    }
    close(fd);
    return res;
}

static json positions_json(Document& doc)
{
    // not needed by default
    std::ostringstream os;
    doc.get_positions().print(os);
    return os.str();
}

void observe_doc(const json& req, Document& doc, json& out, bool returned_normally)
{
    out["errors"] = dump_errors(doc.get_errors());
    out["warnings"] = dump_errors(doc.get_warnings());
    out["methods"] = methods_json(doc);
    bool clean = returned_normally && !doc.has_errors();
    if (!wants(req, "noinv"))
        out["inv"] = invcheck(doc, clean);
    SexprOpts so;
    if (wants(req, "exprtypes"))
        so.expr_types = true;
    if (wants(req, "nosymtypes"))
        so.sym_types = false;
    if (wants(req, "typeexprsyms"))
        so.type_expr_syms = true;
    if (wants(req, "dump"))
        out["dump"] = docdump(doc, so);
    if (wants(req, "positions"))
        out["positions"] = positions_json(doc);
    if (wants(req, "queries")) {
        // the queries of the document, parsed the way a client does it (one TigaPropertyBuilder per formula)
        json qs = json::array();
        for (auto& q : doc.get_queries()) {
            json qj;
            size_t nerr0 = doc.get_errors().size();
            guarded(qj, [&] {
                TigaPropertyBuilder pb(doc);
                qj["ret"] = parseProperty(q.formula.c_str(), &pb);
                json props = json::array();
                for (auto& p : pb.getProperties())
                    props.push_back({(int)p.type, sexpr(p.intermediate, so)});
                qj["props"] = props;
            });
            json msgs = json::array();
            for (size_t i = nerr0; i < doc.get_errors().size(); ++i)
                msgs.push_back(doc.get_errors()[i].msg);
            qj["msgs"] = msgs;
            qs.push_back(qj);
        }
        out["queries"] = qs;
    }
    if (wants(req, "write") && clean)
        out["written"] = write_xml(doc, out);
    if (wants(req, "writeany"))
        out["written"] = write_xml(doc, out);
}

// ---- whole-document entry points -------------------------------------------------

static json op_xta(const json& req);
static json op_xml(const json& req)
{
    json out;
    std::string buf = req["buf"];
    bool newxta = req.value("newxta", true);
    std::string via = req.value("via", "buffer");
    auto doc = std::make_unique<Document>();
    int ret = -99;
    std::string stat = req.value("static", "library");
    guarded(out, [&] {
        if (stat != "library") {
            // the steps of parse_XML_buffer(const char*, Document*, bool) spelled out, so that the harness knows
            // (or decides) whether static analysis ran: "auto" = as the library does, "off" = never
            DocumentBuilder builder(*doc);
            ret = parse_XML_buffer(buf.c_str(), &builder, newxta);
            bool run = ret == 0 && !doc->has_errors() && stat == "auto";
            out["static_ran"] = run;
            if (run) {
                TypeChecker checker(*doc);
                doc->accept(checker);
                FeatureChecker fchecker(*doc);
                doc->set_supported_methods(fchecker.get_supported_methods());
            }
        } else if (via == "buffer")
            ret = parse_XML_buffer(buf.c_str(), doc.get(), newxta);
        else {
            int fd = memfd_create("utapv-in", 0);
            if (write(fd, buf.data(), buf.size()) != (ssize_t)buf.size())
                throw std::runtime_error("harness: memfd write");
            lseek(fd, 0, SEEK_SET);
            if (via == "fd") {
                ret = parse_XML_fd(fd, doc.get(), newxta);
            } else {
                std::string p = "/proc/self/fd/" + std::to_string(fd);
                ret = parse_XML_file(p.c_str(), doc.get(), newxta);
            }
            close(fd);
        }
    });
    out["ret"] = ret;
    observe_doc(req, *doc, out, out["exc"].is_null() && ret == 0);
    return out;
}

// self-test of the C08 invariant checker: corrupt an accepted document in a known way, report what invcheck says
static json op_invselftest(const json& req)
{
    json out;
    std::string buf = req["buf"];
    int k = req.value("corruption", 0);
    auto doc = std::make_unique<Document>();
    auto doc2 = std::make_unique<Document>();
    parse_XML_buffer(buf.c_str(), doc.get(), true);
    parse_XML_buffer(buf.c_str(), doc2.get(), true);
    auto& t = doc->get_templates().front();
    auto& other = doc2->get_templates().front();
    switch (k) {
    case 0: break;                                             // control: untouched
    case 1: t.edges.front().src = &other.locations.front(); break;  // end point in another template/document
    case 2: t.edges.front().dst = nullptr; break;               // no target at all
    case 3: t.edges.front().srcb = &t.branchpoints.front(); break;  // two sources
    case 4: t.locations.back().nr = 7; break;                   // numbering not dense
    case 5: t.edges.back().nr = 0; break;
    case 6: t.init = symbol_t(); break;                         // accepted template without init
    case 7: t.init = other.locations.front().uid; break;        // init of another template
    case 8: doc->get_processes().front().mapping.clear(); break;  // bound parameter without argument
    case 9: doc->get_processes().front().unbound = 1; break;   // unbound parameter carrying a mapping
    case 10: {                                                  // symbol whose user data is not the object
        auto& g = doc->get_globals().variables;
        auto it = g.end();
        --it;
        auto it2 = it;
        --it2;
        std::swap(it->uid, it2->uid);
        break;
    }
    case 11: t.locations.front().uid = t.locations.back().uid; break;
    }
    out["inv"] = invcheck(*doc, true);
    return out;
}

// batch: {"tpl": "....\u0001....\u0001...", "fills": [[a,b],...]} or {"bufs":[...]}
static json op_xmls(const json& req)
{
    json out;
    json res = json::array();
    std::vector<std::string> parts;
    if (req.contains("tpl")) {
        std::string tpl = req["tpl"];
        size_t pos = 0, p;
        while ((p = tpl.find('\x01', pos)) != std::string::npos) {
            parts.push_back(tpl.substr(pos, p - pos));
            pos = p + 1;
        }
        parts.push_back(tpl.substr(pos));
    }
    auto run = [&](const std::string& buf) {
        json r = req;
        r.erase("fills");
        r.erase("bufs");
        r.erase("tpl");
        r["buf"] = buf;
        std::string kind = req.value("kind", "xml");
        struct timespec c0, c1;
        clock_gettime(CLOCK_THREAD_CPUTIME_ID, &c0);
        json o = kind == "xta" ? op_xta(r) : op_xml(r);
        clock_gettime(CLOCK_THREAD_CPUTIME_ID, &c1);
        o["us"] = (long)(c1.tv_sec - c0.tv_sec) * 1000000L + (c1.tv_nsec - c0.tv_nsec) / 1000;  // CPU time, load independent
        std::string se = take_stderr();
        if (!se.empty())
            o["stderr"] = se;
        res.push_back(o);
    };
    if (req.contains("fills")) {
        for (auto& f : req["fills"]) {
            std::string buf = parts[0];
            for (size_t i = 0; i + 1 < parts.size(); ++i) {
                buf += f.at(i).get<std::string>();
                buf += parts[i + 1];
            }
            run(buf);
        }
    } else {
        for (auto& b : req["bufs"])
            run(b.get<std::string>());
    }
    out["results"] = res;
    return out;
}

static json op_xta(const json& req)
{
    json out;
    std::string buf = req["buf"];
    bool newxta = req.value("newxta", true);
    auto doc = std::make_unique<Document>();
    int ret = -99;
    guarded(out, [&] { ret = parse_XTA(buf.c_str(), doc.get(), newxta) ? 1 : 0; });
    out["ret"] = ret;
    observe_doc(req, *doc, out, out["exc"].is_null());
    return out;
}

// ---- expression / query batches over one context ------------------------------------

struct Context
{
    std::unique_ptr<Document> doc;
    json info;
};

static std::unique_ptr<Context> make_context(const json& ctx)
{
    auto c = std::make_unique<Context>();
    c->doc = std::make_unique<Document>();
    std::string kind = ctx.value("kind", "decl");
    std::string text = ctx.value("text", "");
    bool newxta = ctx.value("newxta", true);
    guarded(c->info, [&] {
        if (kind == "xml") {
            c->info["ret"] = parse_XML_buffer(text.c_str(), c->doc.get(), newxta);
        } else if (kind == "xta") {
            c->info["ret"] = parse_XTA(text.c_str(), c->doc.get(), newxta);
        } else {
            DocumentBuilder db(*c->doc);
            if (newxta)
                parse_XTA(utap_builtin_declarations(), &db, true, S_DECLARATION, "");
            c->info["ret"] = parse_XTA(text.c_str(), &db, newxta, S_DECLARATION, "");
            if (!c->doc->has_errors()) {
                TypeChecker tc(*c->doc);
                c->doc->accept(tc);
            }
        }
    });
    c->info["errors"] = dump_errors(c->doc->get_errors());
    return c;
}

static std::string root_type_kind(const expression_t& e)
{
    if (e.empty())
        return "-";
    type_t t = e.get_type();
    if (t.data == nullptr)
        return "?";
    return kind_name(t.get_kind());
}

json expr_laws(Document& doc, expression_t e);  // laws.cpp

// One expression text: parse, (type check), print, re-parse.
static json one_expr(Document& doc, const std::string& text, bool newxta, int part, const json& req)
{
    json r;
    doc.clear_errors();
    doc.clear_warnings();
    SexprOpts so;
    so.sym_types = req.value("symtypes", false);
    expression_t e;
    size_t nfrag = 0;
    guarded(r, [&] {
        ExpressionBuilder eb(doc);
        r["ret"] = parse_XTA(text.c_str(), &eb, newxta, (xta_part_t)part, "");
        nfrag = eb.getExpressions().size();
        if (nfrag >= 1)
            e = eb.getExpressions()[0];
    });
    r["nfrag"] = nfrag;
    r["perr"] = dump_errors(doc.get_errors());
    if (!r["exc"].is_null() || nfrag != 1 || doc.has_errors())
        return r;
    r["sexpr"] = sexpr(e, so);
    if (req.value("typecheck", true)) {
        json g;
        guarded(g, [&] {
            TypeChecker tc(doc);
            tc.checkExpression(e);
        });
        if (!g["exc"].is_null()) {
            r["tc_exc"] = g["exc"];
            r["tc_what"] = g.value("what", "");
        }
        r["terr"] = dump_errors(doc.get_errors());
        r["twarn"] = dump_errors(doc.get_warnings());
        r["tkind"] = root_type_kind(e);
        r["tbase"] = (e.empty() || e.get_type().data == nullptr) ? std::string("?") : kind_name(e.get_type().strip().get_kind());
    }
    if (req.value("print", false)) {
        std::string s;
        json g;
        guarded(g, [&] { s = e.str(); });
        if (!g["exc"].is_null()) {
            r["str_exc"] = g["exc"];
            return r;
        }
        r["str"] = s;
        // re-parse in the same scope
        doc.clear_errors();
        doc.clear_warnings();
        expression_t e2;
        size_t n2 = 0;
        json g2;
        guarded(g2, [&] {
            ExpressionBuilder eb(doc);
            parse_XTA(s.c_str(), &eb, newxta, (xta_part_t)part, "");
            n2 = eb.getExpressions().size();
            if (n2 >= 1)
                e2 = eb.getExpressions()[0];
        });
        r["re_exc"] = g2["exc"];
        r["re_err"] = dump_errors(doc.get_errors());
        r["re_nfrag"] = n2;
        if (g2["exc"].is_null() && n2 == 1 && !doc.has_errors()) {
            r["re_sexpr"] = sexpr(e2, so);
            json g3;
            guarded(g3, [&] { r["re_str"] = e2.str(); });
            r["re_equal"] = e.equal(e2);
        }
    }
    if (req.value("laws", false))
        r["laws"] = expr_laws(doc, e);
    return r;
}

static std::unique_ptr<Context> g_ctx;
static std::string g_ctx_key;
static int g_ctx_uses = 0;

static Context& get_context(const json& ctx)
{
    std::string key = ctx.dump();
    if (!g_ctx || key != g_ctx_key || g_ctx_uses > 2000) {
        g_ctx.reset();
        g_ctx = make_context(ctx);
        g_ctx_key = key;
        g_ctx_uses = 0;
    }
    ++g_ctx_uses;
    return *g_ctx;
}

static json op_exprs(const json& req)
{
    json out;
    Context& c = get_context(req["ctx"]);
    out["ctx"] = c.info;
    bool newxta = req.value("newxta", true);
    int part = req.value("part", (int)S_EXPRESSION);
    json res = json::array();
    for (auto& it : req["items"])
        res.push_back(one_expr(*c.doc, it.get<std::string>(), newxta, part, req));
    out["results"] = res;
    return out;
}

// TigaPropertyBuilder strips the control wrapper from PropInfo::intermediate and records it in
// PropInfo::type; the text of the whole query is that prefix plus str(intermediate).
// C19: equality as a relation over a pool of expressions (symmetry, transitivity, text, discrimination)
static json op_equalpool(const json& req)
{
    json out;
    Context& c = get_context(req["ctx"]);
    out["ctx"] = c.info;
    Document& doc = *c.doc;
    bool newxta = req.value("newxta", true);
    std::vector<expression_t> es;
    std::vector<std::string> sx, st, src;
    SexprOpts so;
    so.sym_types = true;
    for (auto& it : req["items"]) {
        std::string text = it.get<std::string>();
        doc.clear_errors();
        expression_t e;
        size_t n = 0;
        json g;
        guarded(g, [&] {
            ExpressionBuilder eb(doc);
            parse_XTA(text.c_str(), &eb, newxta, S_EXPRESSION, "");
            n = eb.getExpressions().size();
            if (n >= 1)
                e = eb.getExpressions()[0];
        });
        if (!g["exc"].is_null() || n != 1 || doc.has_errors() || e.empty())
            continue;
        json g2;
        guarded(g2, [&] {
            TypeChecker tc(doc);
            tc.checkExpression(e);
        });
        doc.clear_errors();
        es.push_back(e);
        sx.push_back(sexpr(e, so));
        std::string s;
        json g3;
        guarded(g3, [&] { s = e.str(); });
        st.push_back(s);
        src.push_back(text);
    }
    size_t n = es.size();
    std::vector<std::vector<char>> eq(n, std::vector<char>(n, 0));
    std::vector<std::string> fails;
    auto fail = [&](const std::string& f) {
        if (fails.size() < 20)
            fails.push_back(f);
    };
    for (size_t i = 0; i < n; ++i)
        for (size_t j = 0; j < n; ++j)
            eq[i][j] = es[i].equal(es[j]) ? 1 : 0;
    size_t pairs = 0, triples = 0, equal_pairs = 0;
    for (size_t i = 0; i < n; ++i) {
        if (!eq[i][i])
            fail("not-reflexive: " + src[i]);
        for (size_t j = 0; j < n; ++j) {
            ++pairs;
            if (eq[i][j] != eq[j][i])
                fail("not-symmetric: " + src[i] + " | " + src[j]);
            if (eq[i][j] && i != j)
                ++equal_pairs;
            if (eq[i][j] && st[i] != st[j])
                fail("equal-but-different-text: " + src[i] + " | " + src[j]);
            if (sx[i] != sx[j] && eq[i][j])
                fail("equal-despite-different-tree: " + src[i] + " | " + src[j]);
            if (!eq[i][j])
                continue;
            for (size_t k = 0; k < n; ++k) {
                ++triples;
                if (eq[j][k] && !eq[i][k])
                    fail("not-transitive: " + src[i] + " | " + src[j] + " | " + src[k]);
            }
        }
    }
    out["n"] = n;
    out["pairs"] = pairs;
    out["triples"] = triples;
    out["equal_pairs"] = equal_pairs;
    out["fails"] = fails;
    return out;
}

static std::string query_prefix(int qt)
{
    switch ((quant_t)qt) {
    case quant_t::control_AF:
    case quant_t::control_AUntil:
    case quant_t::control_AG:
    case quant_t::control_AWeakUntil:
    case quant_t::control_ABuchi: return "control: ";
    case quant_t::control_AB: return "control: A[] ";
    case quant_t::EF_control_AF:
    case quant_t::EF_control_AUntil:
    case quant_t::EF_control_AG:
    case quant_t::EF_control_AWeakUntil: return "E<> control: ";
    case quant_t::control_opt_Def2_AF:
    case quant_t::control_opt_Def2_AUntil: return "control_t*: ";
    default: return "";
    }
}

static json one_query(Document& doc, const std::string& text, const json& req)
{
    json r;
    doc.clear_errors();
    doc.clear_warnings();
    SexprOpts so;
    so.sym_types = req.value("symtypes", false);
    expression_t e;
    size_t nprops = 0;
    int qt = -1;
    // "preamble": property lines (strategy declarations) parsed in front of the query, in the same call; the query is the last line
    const std::string preamble = req.value("preamble", std::string());
    const size_t npre = req.value("preamble_props", 0);
    guarded(r, [&] {
        TigaPropertyBuilder pb(doc);
        r["ret"] = parseProperty((preamble.empty() ? text : preamble + "\n" + text).c_str(), &pb);
        nprops = pb.getProperties().size();
        if (nprops >= 1) {
            e = pb.getProperties().back().intermediate;
            qt = (int)pb.getProperties().back().type;
        }
        nprops = nprops >= npre ? nprops - npre : 0;
    });
    r["nprops"] = nprops;
    r["quant"] = qt;
    r["err"] = dump_errors(doc.get_errors());
    r["warn"] = dump_errors(doc.get_warnings());
    if (!r["exc"].is_null() || nprops != 1 || doc.has_errors() || e.empty())
        return r;
    r["sexpr"] = sexpr(e, so);
    if (req.value("print", false)) {
        std::string s;
        json g;
        guarded(g, [&] { s = e.str(); });
        if (!g["exc"].is_null()) {
            r["str_exc"] = g["exc"];
            r["str_what"] = g.value("what", "");
            return r;
        }
        s = query_prefix(qt) + s;
        r["str"] = s;
        doc.clear_errors();
        doc.clear_warnings();
        expression_t e2;
        size_t n2 = 0;
        json g2;
        guarded(g2, [&] {
            TigaPropertyBuilder pb(doc);
            parseProperty((preamble.empty() ? s : preamble + "\n" + s).c_str(), &pb);
            n2 = pb.getProperties().size();
            if (n2 >= 1) {
                e2 = pb.getProperties().back().intermediate;
                r["re_quant"] = (int)pb.getProperties().back().type;
            }
            n2 = n2 >= npre ? n2 - npre : 0;
        });
        r["re_exc"] = g2["exc"];
        r["re_err"] = dump_errors(doc.get_errors());
        r["re_nprops"] = n2;
        if (g2["exc"].is_null() && n2 == 1 && !doc.has_errors() && !e2.empty()) {
            r["re_sexpr"] = sexpr(e2, so);
            json g3;
            guarded(g3, [&] { r["re_str"] = query_prefix(r.value("re_quant", -1)) + e2.str(); });
            r["re_equal"] = e.equal(e2);
        }
    }
    if (req.value("laws", false))
        r["laws"] = expr_laws(doc, e);
    return r;
}

static json op_queries(const json& req)
{
    json out;
    Context& c = get_context(req["ctx"]);
    out["ctx"] = c.info;
    json res = json::array();
    for (auto& it : req["items"])
        res.push_back(one_query(*c.doc, it.get<std::string>(), req));
    out["results"] = res;
    return out;
}

json op_exprseq_impl(Document& doc, const json& req);   // exprseq.cpp
static json op_exprseq(const json& req)
{
    Context& c = get_context(req["ctx"]);
    json out = op_exprseq_impl(*c.doc, req);
    out["ctx"] = c.info;
    return out;
}
json op_pm(const json& req);        // pm.cpp
json op_block(const json& req);     // pm.cpp
json op_history(const json& req);   // history.cpp

static json dispatch(const json& req)
{
    std::string op = req.value("op", "");
    if (op == "ping")
        return json{{"pong", true}};
    if (op == "xml")
        return op_xml(req);
    if (op == "xta")
        return op_xta(req);
    if (op == "xmls")
        return op_xmls(req);
    if (op == "invselftest")
        return op_invselftest(req);
    if (op == "exprs")
        return op_exprs(req);
    if (op == "queries")
        return op_queries(req);
    if (op == "equalpool")
        return op_equalpool(req);
    if (op == "exprseq")
        return op_exprseq(req);
    if (op == "pm")
        return op_pm(req);
    if (op == "block")
        return op_block(req);
    if (op == "history")
        return op_history(req);
    return json{{"harness_error", "unknown op " + op}};
}

}  // namespace utapv

int main(int argc, char** argv)
{
    // identical addresses in every run: pointer-ordered containers iterate reproducibly
    bool norand = true;
    for (int i = 1; i < argc; ++i)
        if (std::string(argv[i]) == "--aslr")
            norand = false;
    if (norand) {
        int p = personality(0xffffffff);
        if (p != -1 && !(p & ADDR_NO_RANDOMIZE)) {
            if (personality(p | ADDR_NO_RANDOMIZE) != -1)
                execv("/proc/self/exe", argv);
        }
    }
    for (int i = 1; i + 1 < argc; ++i) {
        if (std::string(argv[i]) == "--stderr") {
            int fd = open(argv[i + 1], O_CREAT | O_TRUNC | O_RDWR | O_APPEND, 0644);
            if (fd >= 0) {
                dup2(fd, 2);
                utapv::g_stderr_fd = fd;
            }
        }
        if (std::string(argv[i]) == "--never") {
            struct rlimit rl;
            getrlimit(RLIMIT_STACK, &rl);
            (void)rl;
        }
    }
    for (int i = 1; i < argc; ++i)
        if (std::string(argv[i]) == "--stderr-inherit") {
            struct stat st;
            if (fstat(2, &st) == 0 && S_ISREG(st.st_mode)) {
                utapv::g_stderr_fd = 2;
                utapv::g_stderr_off = st.st_size;
            }
        }
    std::ios::sync_with_stdio(false);
    std::string line;
    while (std::getline(std::cin, line)) {
        if (line.empty())
            continue;
        json resp;
        auto t0 = std::chrono::steady_clock::now();
        try {
            json req = json::parse(line);
            resp = utapv::dispatch(req);
        } catch (const std::exception& e) {
            resp = json{{"harness_error", std::string("worker: ") + e.what()}};
        }
        auto t1 = std::chrono::steady_clock::now();
        resp["us"] = std::chrono::duration_cast<std::chrono::microseconds>(t1 - t0).count();
        std::string se = utapv::take_stderr();
        if (!se.empty())
            resp["stderr"] = se;
        std::string s = resp.dump(-1, ' ', false, json::error_handler_t::replace);
        s += '\n';
        fwrite(s.data(), 1, s.size(), stdout);
        fflush(stdout);
    }
    return 0;
}
