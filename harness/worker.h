#ifndef UTAPV_WORKER_H
#define UTAPV_WORKER_H
#include "dump.h"

#include <functional>
#include <string>

namespace utapv {
std::string take_stderr();
std::string demangle(const char* n);
void guarded(json& j, const std::function<void()>& f);
void observe_doc(const json& req, UTAP::Document& doc, json& out, bool returned_normally);
}  // namespace utapv
#endif
