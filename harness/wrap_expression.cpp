// Wrapper TU: expression.cpp plus accessors for the private node struct
// (compiled in place of expression.cpp in verification builds; /repo untouched).
#include "expression.cpp"

#include <string>

namespace utapv {
const void* expr_node(const UTAP::expression_t& e) { return e.data.get(); }
size_t expr_stored_children(const UTAP::expression_t& e) { return e.data ? e.data->sub.size() : 0; }
const UTAP::expression_t* expr_child(const UTAP::expression_t& e, size_t i) { return &e.data->sub[i]; }
// 0:int32 1:sync 2:double 3:string
int expr_value_index(const UTAP::expression_t& e) { return e.data ? (int)e.data->value.index() : -1; }
bool expr_value_int(const UTAP::expression_t& e, int32_t& v)
{
    if (!e.data) return false;
    if (auto* p = std::get_if<int32_t>(&e.data->value)) { v = *p; return true; }
    return false;
}
bool expr_value_double(const UTAP::expression_t& e, double& v)
{
    if (!e.data) return false;
    if (auto* p = std::get_if<double>(&e.data->value)) { v = *p; return true; }
    return false;
}
bool expr_value_string(const UTAP::expression_t& e, std::string& v)
{
    if (!e.data) return false;
    if (auto* p = std::get_if<UTAP::StringIndex>(&e.data->value)) { v = p->str(); return true; }
    return false;
}
bool expr_value_sync(const UTAP::expression_t& e, int& v)
{
    if (!e.data) return false;
    if (auto* p = std::get_if<UTAP::Constants::synchronisation_t>(&e.data->value)) { v = (int)*p; return true; }
    return false;
}
bool expr_has_symbol(const UTAP::expression_t& e) { return e.data && e.data->symbol != UTAP::symbol_t(); }
UTAP::symbol_t expr_symbol_raw(const UTAP::expression_t& e) { return e.data ? e.data->symbol : UTAP::symbol_t(); }
}  // namespace utapv

namespace utapv {
// perturbation helpers for the C19 laws (operate on a private deep clone only)
void expr_set_kind(UTAP::expression_t& e, int kind) { e.data->kind = (UTAP::Constants::kind_t)kind; }
void expr_set_child(UTAP::expression_t& e, size_t i, const UTAP::expression_t& c) { e.data->sub[i] = c; }
void expr_set_int(UTAP::expression_t& e, int32_t v) { e.data->value = v; }
void expr_set_double(UTAP::expression_t& e, double v) { e.data->value = v; }
void expr_set_symbol(UTAP::expression_t& e, UTAP::symbol_t s) { e.data->symbol = s; }
}  // namespace utapv
