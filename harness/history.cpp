// C15: call histories.  The worker that serves "history" requests is a zygote: it has never parsed anything
// itself.  For every history it forks a child; the child seeds UTAP::tracker, performs the calls of the history
// in order on the real library and reports, per call, the canonical observable result (return value or
// exception class, diagnostics as the library renders them, document dump, supported methods) and the
// process-global lexer/parser/tracker state left behind.  The Python driver compares every result with the
// result of the same call made first in a fresh child and uses the global-state digests to merge histories.
#include "worker.h"

#include "libparser.h"
#include "utap/DocumentBuilder.hpp"
#include "utap/featurechecker.h"
#include "utap/prettyprinter.h"
#include "utap/property.h"
#include "utap/typechecker.h"

#include <sys/mman.h>
#include <sys/wait.h>
#include <unistd.h>

#include <cerrno>
#include <cstring>
#include <map>
#include <memory>
#include <sstream>

using namespace UTAP;

void utapv_globals(std::string& out);  // wrap_parser.cpp

namespace utapv {

static uint64_t fnv(const std::string& s)
{
    uint64_t h = 1469598103934665603ULL;
    for (unsigned char c : s) {
        h ^= c;
        h *= 1099511628211ULL;
    }
    return h;
}

static std::string hex(uint64_t v)
{
    char b[20];
    snprintf(b, sizeof b, "%016llx", (unsigned long long)v);
    return b;
}

// A client-side builder (ParserBuilder is a public interface): behaves like DocumentBuilder but aborts the
// parse with a non-TypeException from inside the grammar / from inside a comment.
struct ThrowingBuilder : DocumentBuilder
{
    using DocumentBuilder::DocumentBuilder;
    void handle_expect(const char* text) override
    {
        if (text != nullptr && strncmp(text, "throw", 5) == 0)
            throw std::runtime_error("client builder: expect");
    }
    void expr_nat(int32_t v) override
    {
        if (v == 666)
            throw std::runtime_error("client builder: 666");
        DocumentBuilder::expr_nat(v);
    }
};

static json errs_as_library_renders(const std::vector<UTAP::error_t>& errs)
{
    json a = json::array();
    for (auto& e : errs) {
        json j;
        j["msg"] = e.msg;
        j["path"] = e.start.path ? *e.start.path : std::string();
        j["line"] = e.start.line;
        j["eline"] = e.end.line;
        // the library's own column arithmetic (uint32_t)
        j["sc"] = (uint32_t)(e.position.start - e.start.position);
        j["ec"] = (uint32_t)(e.position.end - e.end.position);
        j["str"] = e.str();
        a.push_back(j);
    }
    return a;
}


// documents that a client keeps alive between calls: slot name -> (id of the model it was read from, the document)
struct Slot
{
    std::string model;
    std::unique_ptr<Document> doc;
    uint32_t loaded_at = 0;
    int uses = 0;
};
static std::map<std::string, Slot> slots;

// the document in `slot` holds model `model`; read it (XML buffer, or XTA text when "ctxkind" says so) if the slot holds
// something else.  What the read itself returns is not part of the event's result: the event is "this call on that document".
static Document& slot_document(const json& ev, json& out)
{
    std::string name = ev.value("slot", "A");
    std::string model = ev.value("model", "");
    Slot& s = slots[name];
    if (!s.doc || s.model != model) {
        s.doc = std::make_unique<Document>();
        s.model = model;
        s.loaded_at = tracker.position;
        s.uses = 0;
        std::string ctx = ev.value("ctx", "");
        bool ok = ev.value("ctxkind", "xml") == "xta" ? parse_XTA(ctx.c_str(), s.doc.get(), true)
                                                       : parse_XML_buffer(ctx.c_str(), s.doc.get(), true) == 0;
        if (!ok || s.doc->has_errors())
            out["harness_error"] = "slot model rejected: " + (s.doc->get_errors().empty() ? std::string("?") : s.doc->get_errors()[0].msg);
    }
    ++s.uses;
    return *s.doc;
}

static json errs_from(const std::vector<UTAP::error_t>& errs, size_t from)
{
    return errs_as_library_renders(std::vector<UTAP::error_t>(errs.begin() + std::min(from, errs.size()), errs.end()));
}

static void observe(Document& doc, json& out, bool dump)
{
    out["errors"] = errs_as_library_renders(doc.get_errors());
    out["warnings"] = errs_as_library_renders(doc.get_warnings());
    auto& m = doc.get_supported_methods();
    out["methods"] = {m.symbolic, m.stochastic, m.concrete};
    if (dump) {
        SexprOpts so;
        out["dump"] = docdump(doc, so);
    }
}

static json run_event(const json& ev)
{
    json out;
    std::string kind = ev.value("kind", "");
    bool newxta = ev.value("newxta", true);
    auto doc = std::make_unique<Document>();
    if (kind == "xml") {
        std::string buf = ev["buf"];
        std::string via = ev.value("via", "buffer");
        int ret = -99;
        guarded(out, [&] {
            if (via == "buffer")
                ret = parse_XML_buffer(buf.c_str(), doc.get(), newxta);
            else {
                int fd = memfd_create("utapv-in", 0);
                if (write(fd, buf.data(), buf.size()) != (ssize_t)buf.size())
                    throw std::runtime_error("harness: memfd write");
                lseek(fd, 0, SEEK_SET);
                if (via == "fd")
                    ret = parse_XML_fd(fd, doc.get(), newxta);
                else {
                    std::string p = "/proc/self/fd/" + std::to_string(fd);
                    ret = parse_XML_file(p.c_str(), doc.get(), newxta);
                }
                close(fd);
            }
        });
        out["ret"] = ret;
        observe(*doc, out, true);
        // queries of the document, parsed the way a client does it
        if (ev.value("queries", false) && out["exc"].is_null()) {
            json qs = json::array();
            for (auto& q : doc->get_queries()) {
                json qj;
                guarded(qj, [&] {
                    TigaPropertyBuilder pb(*doc);
                    qj["ret"] = parseProperty(q.formula.c_str(), &pb);
                    json props = json::array();
                    for (auto& p : pb.getProperties())
                        props.push_back({(int)p.type, sexpr(p.intermediate, {})});
                    qj["props"] = props;
                });
                qs.push_back(qj);
            }
            out["queries"] = qs;
            out["errors_after_queries"] = errs_as_library_renders(doc->get_errors());
        }
    } else if (kind == "xta") {
        std::string buf = ev["buf"];
        int ret = -99;
        guarded(out, [&] { ret = parse_XTA(buf.c_str(), doc.get(), newxta) ? 1 : 0; });
        out["ret"] = ret;
        observe(*doc, out, true);
    } else if (kind == "xtafile" || kind == "xtafile_throwing") {
        // whole XTA document from a FILE* (flex reads it through yyin with its own buffer)
        std::string buf = ev["buf"];
        int ret = -99;
        FILE* f = fmemopen((void*)buf.data(), buf.size(), "r");
        guarded(out, [&] {
            if (kind == "xtafile")
                ret = parse_XTA(f, doc.get(), newxta) ? 1 : 0;
            else {
                ThrowingBuilder tb(*doc);
                ret = parse_XTA(f, &tb, newxta);
            }
        });
        if (f)
            fclose(f);
        out["ret"] = ret;
        observe(*doc, out, true);
    } else if (kind == "queryfile") {
        std::string ctx = ev.value("ctx", "");
        std::string text = ev["text"];
        FILE* f = fmemopen((void*)text.data(), text.size(), "r");
        guarded(out, [&] {
            if (!ctx.empty())
                out["ctxret"] = parse_XML_buffer(ctx.c_str(), doc.get(), newxta);
            TigaPropertyBuilder pb(*doc);
            out["ret"] = parseProperty(f, &pb);
            json props = json::array();
            for (auto& p : pb.getProperties())
                props.push_back({(int)p.type, sexpr(p.intermediate, {})});
            out["props"] = props;
        });
        if (f)
            fclose(f);
        observe(*doc, out, false);
    } else if (kind == "query") {
        // context declarations + one query text through TigaPropertyBuilder
        std::string ctx = ev.value("ctx", "");
        std::string text = ev["text"];
        guarded(out, [&] {
            if (!ctx.empty())
                out["ctxret"] = parse_XML_buffer(ctx.c_str(), doc.get(), newxta);
            TigaPropertyBuilder pb(*doc);
            out["ret"] = parseProperty(text.c_str(), &pb);
            json props = json::array();
            for (auto& p : pb.getProperties())
                props.push_back({(int)p.type, sexpr(p.intermediate, {})});
            out["props"] = props;
        });
        observe(*doc, out, false);
    } else if (kind == "block") {
        std::string text = ev["text"];
        int part = ev.value("part", (int)S_EXPRESSION);
        std::string builder = ev.value("builder", "expr");
        std::string xpath = ev.value("xpath", "");
        guarded(out, [&] {
            if (builder == "pretty") {
                std::ostringstream os;
                PrettyPrinter pp(os);
                out["ret"] = parse_XTA(text.c_str(), &pp, newxta, (xta_part_t)part, xpath);
                out["text"] = os.str();
            } else if (builder == "throwing") {
                ThrowingBuilder tb(*doc);
                parse_XTA(utap_builtin_declarations(), &tb, true, S_DECLARATION, "");
                out["ret"] = parse_XTA(text.c_str(), &tb, newxta, (xta_part_t)part, xpath);
            } else if (builder == "doc") {
                DocumentBuilder db(*doc);
                if (!ev.value("nopreamble", false))
                    parse_XTA(utap_builtin_declarations(), &db, true, S_DECLARATION, "");
                out["ret"] = parse_XTA(text.c_str(), &db, newxta, (xta_part_t)part, xpath);
            } else {
                ExpressionBuilder eb(*doc);
                out["ret"] = parse_XTA(text.c_str(), &eb, newxta, (xta_part_t)part, xpath);
                json fr = json::array();
                for (size_t i = 0; i < eb.getExpressions().size(); ++i)
                    fr.push_back(sexpr(eb.getExpressions()[i], {}));
                out["frags"] = fr;
            }
        });
        observe(*doc, out, builder == "doc" || builder == "throwing");
    } else if (kind == "query_on" || kind == "block_on") {
        // one call against a document that stays alive between calls
        std::string text = ev["text"];
        guarded(out, [&] {
            Document& d = slot_document(ev, out);
            size_t ne = d.get_errors().size(), nw = d.get_warnings().size();
            if (kind == "query_on") {
                TigaPropertyBuilder pb(d);
                out["ret"] = parseProperty(text.c_str(), &pb);
                json props = json::array();
                for (auto& p : pb.getProperties())
                    props.push_back({(int)p.type, sexpr(p.intermediate, {})});
                out["props"] = props;
            } else {
                ExpressionBuilder eb(d);
                out["ret"] = parse_XTA(text.c_str(), &eb, newxta, (xta_part_t)ev.value("part", (int)S_EXPRESSION), ev.value("xpath", ""));
                json fr = json::array();
                for (size_t i = 0; i < eb.getExpressions().size(); ++i)
                    fr.push_back(sexpr(eb.getExpressions()[i], {}));
                out["frags"] = fr;
            }
            out["errors"] = errs_from(d.get_errors(), ne);
            out["warnings"] = errs_from(d.get_warnings(), nw);
        });
        // the client has read the diagnostics of this call and clears them: a document that still holds errors is a different
        // input for the next call (PropertyBuilder drops every property while Document::has_errors())
        if (auto it = slots.find(ev.value("slot", "A")); it != slots.end() && it->second.doc) {
            it->second.doc->clear_errors();
            it->second.doc->clear_warnings();
        }
    } else if (kind == "drop") {
        slots.erase(ev.value("slot", "A"));
        out["ret"] = 0;
    } else if (kind == "xmlthrowing") {
        // whole XML document through the client builder
        std::string buf = ev["buf"];
        int ret = -99;
        guarded(out, [&] {
            ThrowingBuilder tb(*doc);
            ret = parse_XML_buffer(buf.c_str(), &tb, newxta);
        });
        out["ret"] = ret;
        observe(*doc, out, true);
    } else {
        out["harness_error"] = "unknown event kind " + kind;
    }
    return out;
}

static std::string global_state()
{
    int e = errno;
    std::string g;
    utapv_globals(g);
    g += " line=" + std::to_string(tracker.line) + " offset=" + std::to_string(tracker.offset) +
         " position=" + std::to_string(tracker.position) + " path=" + (tracker.path ? *tracker.path : std::string("<null>"));
    g += " errno=" + std::to_string(e);
    for (auto& [name, sl] : slots)
        g += " slot:" + name + "=" + sl.model + "@" + std::to_string(sl.loaded_at) + "#" + std::to_string(sl.uses);
    return g;
}

// the exception *class* is the observable; the message (which may quote errno text) travels beside the record
static void take_what(json& r, json& line)
{
    if (r.contains("what")) {
        line["what"] = r["what"];
        r.erase("what");
    }
}

static void write_all(int fd, const std::string& l)
{
    size_t off = 0;
    while (off < l.size()) {
        ssize_t w = write(fd, l.data() + off, l.size() - off);
        if (w <= 0)
            _exit(3);
        off += w;
    }
}

// req: {events:[...], histories:[[i,...],...], seed_position:uint, full:bool}
json op_history(const json& req)
{
    json out;
    static bool checked = false;
    if (!checked) {
        std::string g0;
        utapv_globals(g0);
        out["zygote_globals"] = g0;
        if (tracker.position != 0)
            return json{{"harness_error", "history zygote has parsed before"}};
        checked = true;
    }
    const json& events = req["events"];
    uint32_t seed = req.value("seed_position", (uint64_t)0);
    bool full = req.value("full", false);
    bool fan = req.value("fan", false);
    double limit_s = req.value("child_timeout", 20.0);
    json res = json::array();
    for (auto& h : req["histories"]) {
        int fds[2];
        if (pipe(fds) != 0)
            return json{{"harness_error", "pipe"}};
        fflush(stdout);
        fflush(stderr);
        pid_t pid = fork();
        if (pid < 0)
            return json{{"harness_error", "fork"}};
        if (pid == 0) {
            close(fds[0]);
            alarm((unsigned)limit_s + 1);
            tracker.position = seed;
            for (auto& idx : h) {
                json line;
                json r = run_event(events.at(idx.get<size_t>()));
                take_what(r, line);
                std::string s = r.dump(-1, ' ', false, json::error_handler_t::replace);
                line["h"] = hex(fnv(s));
                line["g"] = global_state();
                if (r.contains("harness_error"))
                    line["harness_error"] = r["harness_error"];
                if (full)
                    line["r"] = r;
                write_all(fds[1], line.dump(-1, ' ', false, json::error_handler_t::replace) + "\n");
            }
            if (fan) {
                // fan-out: every event once as the next call, each in its own grandchild forked from this state
                for (size_t e = 0; e < events.size(); ++e) {
                    pid_t gp = fork();
                    if (gp < 0)
                        _exit(4);
                    if (gp == 0) {
                        alarm((unsigned)limit_s + 1);
                        json line;
                        json r = run_event(events.at(e));
                        take_what(r, line);
                        std::string s = r.dump(-1, ' ', false, json::error_handler_t::replace);
                        line["e"] = e;
                        line["h"] = hex(fnv(s));
                        line["g"] = global_state();
                        write_all(fds[1], line.dump(-1, ' ', false, json::error_handler_t::replace) + "\n");
                        _exit(0);
                    }
                    int gst = 0;
                    waitpid(gp, &gst, 0);
                    if (!(WIFEXITED(gst) && WEXITSTATUS(gst) == 0)) {
                        json line;
                        line["e"] = e;
                        line["sig"] = WIFSIGNALED(gst) ? WTERMSIG(gst) : -WEXITSTATUS(gst);
                        write_all(fds[1], line.dump() + "\n");
                    }
                }
            }
            _exit(0);
        }
        close(fds[1]);
        std::string data;
        char buf[65536];
        ssize_t n;
        while ((n = read(fds[0], buf, sizeof buf)) > 0)
            data.append(buf, n);
        close(fds[0]);
        int st = 0;
        waitpid(pid, &st, 0);
        json hr;
        json calls = json::array();
        json fans = json::array();
        size_t pos = 0, p;
        while ((p = data.find('\n', pos)) != std::string::npos) {
            try {
                json ln = json::parse(data.substr(pos, p - pos));
                if (ln.contains("e"))
                    fans.push_back(ln);
                else
                    calls.push_back(ln);
            } catch (const std::exception&) {
                break;
            }
            pos = p + 1;
        }
        hr["calls"] = calls;
        if (fan)
            hr["fan"] = fans;
        if (WIFSIGNALED(st))
            hr["sig"] = WTERMSIG(st);
        else if (WIFEXITED(st) && WEXITSTATUS(st) != 0)
            hr["exit"] = WEXITSTATUS(st);
        std::string se = take_stderr();
        if (!se.empty())
            hr["stderr"] = se;
        res.push_back(hr);
    }
    out["results"] = res;
    return out;
}

}  // namespace utapv
