#include "worker.h"
namespace utapv {
json op_history(const json&) { return json{{"harness_error", "history not built"}}; }
}
