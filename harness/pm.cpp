#include "worker.h"
namespace utapv {
json op_pm(const json&) { return json{{"harness_error", "pm not built"}}; }
json op_block(const json&) { return json{{"harness_error", "block not built"}}; }
}
