// Parser-machine explorer (DESIGN.md §3/C01 (1), §3/C16 phase A): explicit-state
// breadth-first search over token strings.  A state is the configuration of
// bison automaton + lexer + builder + document after a token prefix; a
// transition appends one token of the alphabet.  Objects cannot be copied, so a
// state *is* the prefix that reaches it, replayed on fresh objects through the
// real entry point; the digest (taken at the "Reading a token" observation
// point that precedes end of input) only decides what is pruned.
#include "trace.h"
#include "worker.h"

#include <ctime>

#include "utap/DocumentBuilder.hpp"
#include "utap/featurechecker.h"
#include "utap/prettyprinter.h"
#include "utap/property.h"
#include "utap/typechecker.h"

#include <fcntl.h>
#include <signal.h>
#include <unistd.h>

#include <chrono>
#include <deque>
#include <iostream>
#include <regex>
#include <sstream>
#include <unordered_set>

using namespace UTAP;

int utapv_lexer_start();
void utapv_globals(std::string& out);
const char* utapv_scan_text();
const char* utapv_last_token_text();

namespace utapv {

namespace {

uint64_t fnv(const std::string& s)
{
    uint64_t h = 1469598103934665603ull;
    for (unsigned char c : s) {
        h ^= c;
        h *= 1099511628211ull;
    }
    return h;
}

// Everything a later callback can read from the builder, rendered canonically.
std::string builder_state(ParserBuilder* pb, bool fine)
{
    std::string s;
    if (auto* eb = dynamic_cast<ExpressionBuilder*>(pb)) {
        SexprOpts o;
        o.sym_types = false;
        s += "F" + std::to_string(eb->fragments.size());
        if (fine) {
            for (uint32_t i = 0; i < eb->fragments.size(); ++i)
                s += "|" + sexpr(eb->fragments.data[i], o);
        } else if (eb->fragments.size() > 0) {
            auto& top = eb->fragments.data.back();
            s += top.empty() ? "|e" : std::string("|") + kind_name(top.get_kind());
        }
#ifdef UTAPV_M_typeFragments
        s += " T" + std::to_string(eb->typeFragments.data.size());
        if (fine)
            for (auto& t : eb->typeFragments.data)
                s += "|" + type_sexpr(t);
#endif
        // frame chain: sizes (and names when fine)
        std::stack<frame_t> fs = eb->frames;
        s += " R" + std::to_string(fs.size());
        int nth = 0;
        while (!fs.empty()) {
            frame_t f = fs.top();
            fs.pop();
            ++nth;
            if (f == frame_t()) {
                s += "|null";
                continue;
            }
            s += "|" + std::to_string(f.get_size());
            if (fine) {
                // names everywhere; types for the two innermost frames and for the newest symbols of outer ones
                // (the rest of an outer frame is the fixed prelude of the run)
                for (uint32_t i = 0; i < f.get_size(); ++i) {
                    s += "," + f[i].get_name();
                    if (nth <= 2 || i + 4 >= f.get_size())
                        s += ":" + type_sexpr(f[i].get_type());
                }
            }
        }
        // (private members are read through -fno-access-control; one that a tree does not have is left out of the digest)
#ifdef UTAPV_M_currentTemplate
        s += " ct=" + std::string(eb->currentTemplate ? eb->currentTemplate->uid.get_name() : "-");
#endif
#ifdef UTAPV_M_scalar_count
        s += " sc=" + std::to_string(eb->scalar_count);
#endif
        if (auto* sb = dynamic_cast<StatementBuilder*>(pb)) {
#ifdef UTAPV_M_params
            s += " P" + std::to_string(sb->params == frame_t() ? -1 : (int)sb->params.get_size());
            if (fine && !(sb->params == frame_t()))
                for (uint32_t i = 0; i < sb->params.get_size(); ++i)
                    s += "," + sb->params[i].get_name() + ":" + type_sexpr(sb->params[i].get_type());
#endif
#ifdef UTAPV_M_blocks
            s += " B" + std::to_string(sb->blocks.size());
            if (fine)
                for (auto& b : sb->blocks)
                    s += "|" + stmt_sexpr(b.get(), o);
#endif
#if defined(UTAPV_M_fields) && defined(UTAPV_M_labels)
            s += " fl" + std::to_string(sb->fields.size()) + "/" + std::to_string(sb->labels.size());
#endif
#ifdef UTAPV_M_currentFun
            s += " cf=" + std::string(sb->currentFun ? sb->currentFun->uid.get_name() : "-");
#endif
        }
        if (auto* db = dynamic_cast<DocumentBuilder*>(pb)) {
            int ei = -1;
#if defined(UTAPV_M_currentEdge) && defined(UTAPV_M_currentTemplate)
            if (db->currentEdge && db->currentTemplate) {
                int k = 0;
                for (auto& e : db->currentTemplate->edges) {
                    if (&e == db->currentEdge)
                        ei = k;
                    ++k;
                }
                if (ei < 0)
                    ei = -2;  // points somewhere else
            }
#endif
            s += " ce=" + std::to_string(ei);
#if defined(UTAPV_M_currentQuery) && defined(UTAPV_M_currentExpectation) && defined(UTAPV_M_currentGantt) && \
    defined(UTAPV_M_currentIODecl) && defined(UTAPV_M_currentProcPriority)
            s += " cq=" + std::string(db->currentQuery ? "1" : "0") + (db->currentExpectation ? "x" : "") +
                 (db->currentGantt ? "g" : "") + (db->currentIODecl ? "i" : "") + " pp=" +
                 std::to_string(db->currentProcPriority);
#endif
        }
        // document summary
        Document& d = eb->document;
        s += " D:e" + std::to_string(d.get_errors().size()) + "w" + std::to_string(d.get_warnings().size());
        s += "t" + std::to_string(d.get_templates().size());
        for (auto& t : d.get_templates()) {
            s += "[" + std::to_string(t.locations.size()) + "," + std::to_string(t.branchpoints.size()) + "," +
                 std::to_string(t.edges.size()) + "," + std::to_string(t.variables.size()) + "," +
                 std::to_string(t.functions.size()) + (t.init == symbol_t() ? "-" : "i") + "]";
            if (fine)
                for (auto& e : t.edges)
                    s += "{" + sexpr(e.guard, o) + sexpr(e.sync, o) + sexpr(e.assign, o) + sexpr(e.prob, o) +
                         std::to_string(e.select == frame_t() ? -1 : (int)e.select.get_size()) + "}";
        }
        s += "g" + std::to_string(d.get_globals().variables.size()) + "/" + std::to_string(d.get_globals().functions.size());
        s += "i" + std::to_string(d.instances.size()) + "p" + std::to_string(d.get_processes().size());
        s += "q" + std::to_string(d.get_queries().size()) + "c" + std::to_string(d.get_chan_priorities().size());
        if (fine && !d.get_errors().empty())
            s += "E:" + d.get_errors().back().msg;
    } else if (auto* pp = dynamic_cast<PrettyPrinter*>(pb)) {
        s += "PP st" + std::to_string(pp->st.size()) + " ty" + std::to_string(pp->type.size()) + " ar" +
             std::to_string(pp->array.size()) + " fi" + std::to_string(pp->fields.size()) + " o" + std::to_string(pp->o.size()) +
             " lv" + std::to_string(pp->level) + " s" + std::to_string(pp->select) + "g" + std::to_string(pp->guard) + "y" +
             std::to_string(pp->sync) + "u" + std::to_string(pp->update) + "p" + std::to_string(pp->probability);
        if (fine) {
            for (auto& x : pp->st)
                s += "|" + x;
            s += "#" + pp->param + "#" + pp->urgent + "#" + pp->committed + "#" + pp->branchpoints;
        }
    }
    return s;
}

struct Observer : TraceSink
{
    ParserBuilder* builder = nullptr;
    bool fine = true;
    int target_block = 0;      // (fallback) which utap_parse() call of the run is explored
    std::string target_text;   // the text block that is explored, recognised by its content
    bool in_target = false;
    const std::vector<std::string>* tokens = nullptr;
    // per run
    int block = -1;
    int reads = 0;
    int shifts = 0;
    bool eof_seen = false;     // the target block's parse reached end of input
    bool target_done = false;
    std::string last_stack;
    std::string shifted;
    std::string digest_src;    // state at the last "Reading a token" of the target block

    void reset()
    {
        block = -1;
        in_target = false;
        reads = 0;
        shifts = 0;
        eof_seen = false;
        target_done = false;
        last_stack.clear();
        shifted.clear();
        digest_src.clear();
    }
    void line(const char* l) override
    {
        if (strncmp(l, "Starting parse", 14) == 0) {
            ++block;
            const char* cur = utapv_scan_text();
            bool was = in_target;
            in_target = !target_done && cur != nullptr && target_text == cur;
            if (was && !in_target)
                target_done = true;
            return;
        }
        if (!in_target)
            return;
        if (strncmp(l, "Stack now", 9) == 0) {
            last_stack = l + 9;
        } else if (strncmp(l, "Reading a token", 15) == 0) {
            ++reads;
        } else if (strncmp(l, "Shifting token", 14) == 0) {
            // value-carrying tokens: remember the spelling (bison's value stack is a function of these)
            const char* t = utapv_last_token_text();
            if (++shifts == 1)
                t = nullptr;  // the start token that selects the sub-grammar: no text of its own
            if (t != nullptr && (isalnum((unsigned char)t[0]) || t[0] == '_' || t[0] == '"'))
                shifted += std::string(t).substr(0, 40) + " ";
        } else if (strncmp(l, "Now at end of input", 19) == 0) {
            // the observation point: the whole text is consumed, nothing has been reduced on behalf of EOF yet
            eof_seen = true;
            digest_src = last_stack;
            digest_src += " L" + std::to_string(utapv_lexer_start());
            digest_src += " S[" + shifted + "]";
            digest_src += " " + builder_state(builder, fine);
        }
    }
};

Observer g_obs;

// bison's trace is only wanted inside the explored block: parse_XTA announces every block through
// add_position() (tracker.setPath) right before it calls the parser - the place to switch the trace on.
inline void block_starts()
{
    const char* cur = utapv_scan_text();
    bool target = !g_obs.target_done && !g_obs.in_target && cur != nullptr && g_obs.target_text == cur;
    utap_debug = target ? 1 : 0;
    if (!target && g_obs.in_target) {
        g_obs.in_target = false;
        g_obs.target_done = true;
    }
}

struct PMDocumentBuilder : DocumentBuilder
{
    using DocumentBuilder::DocumentBuilder;
    void add_position(uint32_t position, uint32_t offset, uint32_t line, std::shared_ptr<std::string> path) override
    {
        if (line == 1 && offset == 0)
            block_starts();
        DocumentBuilder::add_position(position, offset, line, std::move(path));
    }
};

struct PMPrettyPrinter : PrettyPrinter
{
    using PrettyPrinter::PrettyPrinter;
    void add_position(uint32_t position, uint32_t offset, uint32_t line, std::shared_ptr<std::string> path) override
    {
        if (line == 1 && offset == 0)
            block_starts();
        PrettyPrinter::add_position(position, offset, line, std::move(path));
    }
};

struct Run
{
    bool died = false;
    bool eof = false;
    std::string exc;
    bool nonstd = false;
    std::string what;
    uint64_t digest = 0;
    std::string digest_src;
    long us = 0;
    size_t errors = 0;
    std::vector<std::string> inv;
};

struct Config
{
    std::string mode;      // xml | xta | property | pretty-xml | block
    std::string tpl_pre, tpl_post;
    std::string model;     // property mode: the XML model that provides the scope
    bool newxta = true;
    int part = 0;          // block mode
    std::string builder;   // block mode: expr | pretty
    int target_block = 0;
    bool fine = true;
    bool invcheck = false;
};

std::string join(const std::vector<std::string>& toks)
{
    std::string s;
    for (auto& t : toks) {
        if (!s.empty())
            s += ' ';
        s += t;
    }
    return s;
}

std::string xml_escape(const std::string& s)
{
    std::string r;
    for (char c : s) {
        if (c == '&')
            r += "&amp;";
        else if (c == '<')
            r += "&lt;";
        else if (c == '>')
            r += "&gt;";
        else
            r += c;
    }
    return r;
}

std::string xml_unescape(std::string s)
{
    for (auto [from, to] : {std::pair<const char*, const char*>{"&lt;", "<"}, {"&gt;", ">"}, {"&amp;", "&"}}) {
        size_t p = 0;
        while ((p = s.find(from, p)) != std::string::npos) {
            s.replace(p, strlen(from), to);
            p += 1;
        }
    }
    return s;
}

Run run_once(const Config& cfg, const std::vector<std::string>& toks)
{
    Run r;
    std::string text = join(toks);
    // CPU time of this thread, not wall time: the "takes time out of proportion" oracle must not depend on machine load
    auto cpu_now = [] {
        struct timespec ts;
        clock_gettime(CLOCK_THREAD_CPUTIME_ID, &ts);
        return (long)ts.tv_sec * 1000000L + ts.tv_nsec / 1000;
    };
    long t0 = cpu_now();
    g_obs.reset();
    g_obs.tokens = &toks;
    g_obs.fine = cfg.fine;
    g_obs.target_block = cfg.target_block;
    // the lexer sees the decoded text of the block (XML modes) or the whole buffer (plain-text modes)
    if (cfg.mode == "xml" || cfg.mode == "pretty-xml") {
        // the decoded text of the element that contains the slot
        size_t a = cfg.tpl_pre.rfind('>');
        size_t b = cfg.tpl_post.find('<');
        g_obs.target_text = xml_unescape(cfg.tpl_pre.substr(a == std::string::npos ? 0 : a + 1)) + text +
                            xml_unescape(cfg.tpl_post.substr(0, b));
    } else {
        g_obs.target_text = cfg.tpl_pre + text + cfg.tpl_post;
    }
    json g;
    auto doc = std::make_unique<Document>();
    std::ostringstream sink;
    std::unique_ptr<Document> scope;
    auto body = [&] {
        if (cfg.mode == "xml") {
            std::string buf = cfg.tpl_pre + xml_escape(text) + cfg.tpl_post;
            // the same steps as parse_XML_buffer(const char*, Document*, bool) in typechecker.cpp
            PMDocumentBuilder b(*doc);
            g_obs.builder = &b;
            g_trace_sink = &g_obs;
            int err = parse_XML_buffer(buf.c_str(), &b, cfg.newxta);
            utap_debug = 0;
            g_trace_sink = nullptr;
            g_obs.builder = nullptr;
            if (err == 0 && !doc->has_errors()) {
                TypeChecker tc(*doc);
                doc->accept(tc);
                FeatureChecker fc(*doc);
                doc->set_supported_methods(fc.get_supported_methods());
            }
        } else if (cfg.mode == "xta") {
            std::string buf = cfg.tpl_pre + text + cfg.tpl_post;
            PMDocumentBuilder b(*doc);
            g_obs.builder = &b;
            g_trace_sink = &g_obs;
            parse_XTA(buf.c_str(), &b, cfg.newxta);
            utap_debug = 0;
            g_trace_sink = nullptr;
            g_obs.builder = nullptr;
            if (!doc->has_errors()) {
                TypeChecker tc(*doc);
                doc->accept(tc);
                FeatureChecker fc(*doc);
                doc->set_supported_methods(fc.get_supported_methods());
            }
        } else if (cfg.mode == "property") {
            parse_XML_buffer(cfg.model.c_str(), doc.get(), true);
            doc->clear_errors();
            TigaPropertyBuilder b(*doc);
            g_obs.builder = &b;
            g_trace_sink = &g_obs;
            utap_debug = 1;
            std::string buf = cfg.tpl_pre + text + cfg.tpl_post;
            parseProperty(buf.c_str(), &b);
            utap_debug = 0;
            g_trace_sink = nullptr;
            g_obs.builder = nullptr;
        } else if (cfg.mode == "pretty-xml") {
            std::string buf = cfg.tpl_pre + xml_escape(text) + cfg.tpl_post;
            PMPrettyPrinter b(sink);
            g_obs.builder = &b;
            g_trace_sink = &g_obs;
            parse_XML_buffer(buf.c_str(), &b, cfg.newxta);
            utap_debug = 0;
            g_trace_sink = nullptr;
            g_obs.builder = nullptr;
        } else {  // block: one text block through parse_XTA(text, builder, newxta, part, xpath)
            std::string buf = cfg.tpl_pre + text + cfg.tpl_post;
            if (cfg.builder == "pretty") {
                PrettyPrinter b(sink);
                g_obs.builder = &b;
                g_trace_sink = &g_obs;
                utap_debug = 1;
                parse_XTA(buf.c_str(), &b, cfg.newxta, (xta_part_t)cfg.part, "");
                utap_debug = 0;
            } else if (cfg.builder == "doc") {
                // the document builder on its own, not driven by the XML reader: no template, edge or instance line is open
                DocumentBuilder b(*doc);
                if (cfg.newxta)
                    parse_XTA(utap_builtin_declarations(), &b, true, S_DECLARATION, "");
                g_obs.builder = &b;
                g_trace_sink = &g_obs;
                utap_debug = 1;
                parse_XTA(buf.c_str(), &b, cfg.newxta, (xta_part_t)cfg.part, "");
                utap_debug = 0;
            } else {
                ExpressionBuilder b(*doc);
                g_obs.builder = &b;
                g_trace_sink = &g_obs;
                utap_debug = 1;
                parse_XTA(buf.c_str(), &b, cfg.newxta, (xta_part_t)cfg.part, "");
                utap_debug = 0;
            }
            g_trace_sink = nullptr;
            g_obs.builder = nullptr;
        }
    };
    guarded(g, body);
    utap_debug = 0;
    g_trace_sink = nullptr;
    g_obs.builder = nullptr;
    if (!g["exc"].is_null()) {
        r.exc = g["exc"].get<std::string>();
        r.nonstd = !g.value("std", true);
        r.what = g.value("what", "");
    }
    r.eof = g_obs.eof_seen;
    r.digest_src = g_obs.digest_src;
    r.digest = fnv(g_obs.digest_src);
    r.errors = doc->get_errors().size();
    if (cfg.invcheck && (cfg.mode == "xml" || cfg.mode == "xta"))
        r.inv = invcheck(*doc, r.exc.empty() && !doc->has_errors());
    r.us = cpu_now() - t0;
    return r;
}

}  // namespace

// a single run that does not come back is a hang: the process reports it and exits (the driver reads the breadcrumb)
static void on_alarm(int)
{
    const char msg[] = "UTAPV-HANG: a single run exceeded its time limit\n";
    if (write(2, msg, sizeof(msg) - 1) < 0) {}
    _exit(124);
}

json op_pm(const json& req)
{
    signal(SIGALRM, on_alarm);
    int run_limit_s = req.value("run_limit_s", 10);
    double budget_s = req.value("budget_s", 1e9);
    auto t_begin = std::chrono::steady_clock::now();
    Config cfg;
    cfg.mode = req.value("mode", "xml");
    std::string tpl = req.value("tpl", std::string("\x01"));
    size_t p = tpl.find('\x01');
    cfg.tpl_pre = tpl.substr(0, p);
    cfg.tpl_post = p == std::string::npos ? "" : tpl.substr(p + 1);
    cfg.model = req.value("model", "");
    cfg.newxta = req.value("newxta", true);
    cfg.part = req.value("part", 0);
    cfg.builder = req.value("builder", "expr");
    cfg.target_block = req.value("target_block", 0);
    std::string dk = req.value("digest", "fine");
    cfg.fine = dk == "fine";
    bool prune = dk != "none";
    cfg.invcheck = req.value("invcheck", false);
    int depth = req.value("depth", 2);
    size_t max_runs = req.value("max_runs", 2000000);
    double slow_us = req.value("slow_us", 300000.0);
    std::vector<std::string> alphabet = req["alphabet"].get<std::vector<std::string>>();
    std::vector<std::string> seed = req.value("seed", std::vector<std::string>{});
    std::unordered_set<std::string> skip;
    if (req.contains("skip"))
        for (auto& s : req["skip"])
            skip.insert(s.get<std::string>());
    int crumb = -1;
    if (req.contains("crumb"))
        crumb = open(req["crumb"].get<std::string>().c_str(), O_CREAT | O_WRONLY, 0644);

    json out;
    json viol = json::array();
    std::unordered_set<uint64_t> seen;
    size_t runs = 0, transitions = 0, dead = 0, pruned = 0, skipped = 0, with_exc = 0, with_inv = 0;
    long max_us = 0;
    std::string slowest;
    std::vector<size_t> level_states;
    std::vector<std::string> samples;
    bool truncated = false;

    auto exec = [&](const std::vector<std::string>& toks, bool& keep) {
        keep = false;
        std::string text = join(toks);
        if (skip.count(text)) {
            ++skipped;
            return;
        }
        if (crumb >= 0) {
            if (pwrite(crumb, text.data(), text.size(), 0) < 0) {}
            if (ftruncate(crumb, text.size()) < 0) {}
        }
        alarm(run_limit_s);
        Run r = run_once(cfg, toks);
        alarm(0);
        ++runs;
        if (r.us > max_us) {
            max_us = r.us;
            slowest = text;
        }
        if (r.nonstd && viol.size() < 50)
            viol.push_back({{"input", text}, {"kind", "non-std-exception"}, {"detail", r.exc}});
        if (!r.exc.empty())
            ++with_exc;
        if (r.us > slow_us && viol.size() < 50)
            viol.push_back({{"input", text}, {"kind", "slow"}, {"detail", std::to_string(r.us) + "us"}});
        if (!r.inv.empty()) {
            ++with_inv;
            if (viol.size() < 50)
                viol.push_back({{"input", text}, {"kind", "invariant"}, {"detail", r.inv[0]}});
        }
        std::string se = take_stderr();
        if (!se.empty() && viol.size() < 50)
            viol.push_back({{"input", text}, {"kind", "stderr"}, {"detail", se.substr(0, 1500)}});
        if (!r.eof) {
            ++dead;  // the parse stopped before the end of the text: every extension behaves the same
            return;
        }
        if (prune) {
            if (!seen.insert(r.digest).second) {
                ++pruned;
                return;
            }
        }
        if (samples.size() < 3 && toks.size() >= 2)
            samples.push_back(text + "  =>  " + r.digest_src.substr(0, 200));
        keep = true;
    };

    std::vector<std::vector<std::string>> frontier;
    {
        bool keep;
        exec(seed, keep);
        if (keep || seed.empty())
            frontier.push_back(seed);
        level_states.push_back(frontier.size());
    }
    for (int lv = 1; lv <= depth && !frontier.empty() && !truncated; ++lv) {
        std::vector<std::vector<std::string>> next;
        for (auto& st : frontier) {
            for (auto& tok : alphabet) {
                if (runs >= max_runs ||
                    ((runs & 255) == 0 &&
                     std::chrono::duration<double>(std::chrono::steady_clock::now() - t_begin).count() > budget_s)) {
                    truncated = true;
                    break;
                }
                std::vector<std::string> t = st;
                t.push_back(tok);
                bool keep;
                ++transitions;
                exec(t, keep);
                if (keep && lv < depth)
                    next.push_back(std::move(t));
                else if (keep)
                    next.push_back({});  // counted, not expanded
            }
            if (truncated)
                break;
        }
        level_states.push_back(next.size());
        if (lv < depth)
            frontier = std::move(next);
    }
    if (crumb >= 0)
        close(crumb);
    out["runs"] = runs;
    out["transitions"] = transitions;
    out["states"] = prune ? seen.size() : runs - dead;
    out["dead"] = dead;
    out["pruned"] = pruned;
    out["skipped"] = skipped;
    out["with_exception"] = with_exc;
    out["with_invariant_violation"] = with_inv;
    out["level_states"] = level_states;
    out["max_us"] = max_us;
    out["slowest"] = slowest;
    out["truncated"] = truncated;
    out["violations"] = viol;
    out["samples"] = samples;
    return out;
}

// one text through one entry point with a chosen builder (replay / single runs)
json op_block(const json& req)
{
    Config cfg;
    cfg.mode = req.value("mode", "block");
    std::string tpl = req.value("tpl", std::string("\x01"));
    size_t p = tpl.find('\x01');
    cfg.tpl_pre = tpl.substr(0, p);
    cfg.tpl_post = p == std::string::npos ? "" : tpl.substr(p + 1);
    cfg.model = req.value("model", "");
    cfg.newxta = req.value("newxta", true);
    cfg.part = req.value("part", 0);
    cfg.builder = req.value("builder", "expr");
    cfg.target_block = req.value("target_block", 0);
    cfg.invcheck = req.value("invcheck", false);
    std::vector<std::string> toks;
    {
        std::istringstream is(req.value("text", ""));
        std::string t;
        while (is >> t)
            toks.push_back(t);
    }
    Run r = run_once(cfg, toks);
    json out;
    out["eof"] = r.eof;
    out["exc"] = r.exc.empty() ? json(nullptr) : json(r.exc);
    out["std"] = !r.nonstd;
    out["what"] = r.what;
    out["digest_src"] = r.digest_src;
    out["us"] = r.us;
    out["errors"] = r.errors;
    out["inv"] = r.inv;
    return out;
}

}  // namespace utapv
