#include "worker.h"
namespace utapv {
json expr_laws(UTAP::Document&, UTAP::expression_t) { return json{{"harness_error", "laws not built"}}; }
}
