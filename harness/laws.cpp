// C19: algebraic laws of clone / subst / equal / get_size on one parsed expression.
#include "worker.h"

#include <cmath>
#include <functional>
#include <set>

using namespace UTAP;
using namespace UTAP::Constants;

namespace utapv {
void expr_set_kind(expression_t& e, int kind);
void expr_set_child(expression_t& e, size_t i, const expression_t& c);
void expr_set_int(expression_t& e, int32_t v);
void expr_set_double(expression_t& e, double v);
void expr_set_symbol(expression_t& e, symbol_t s);

namespace {
void collect_nodes(const expression_t& e, std::set<const void*>& out, size_t& count)
{
    if (e.empty())
        return;
    out.insert(expr_node(e));
    ++count;
    for (size_t i = 0; i < expr_stored_children(e); ++i)
        collect_nodes(*expr_child(e, i), out, count);
}

void collect_symbols(const expression_t& e, std::vector<symbol_t>& out)
{
    if (e.empty())
        return;
    if (e.get_kind() == IDENTIFIER) {
        symbol_t s = expr_symbol_raw(e);
        bool seen = false;
        for (auto& o : out)
            if (o == s)
                seen = true;
        if (!seen && !(s == symbol_t()))
            out.push_back(s);
    }
    for (size_t i = 0; i < expr_stored_children(e); ++i)
        collect_symbols(*expr_child(e, i), out);
}

// ---- the types attached to the nodes: type_t::subst (used for process members, P.x with P's arguments substituted) ----------
static void type_exprs(const type_t& t, std::vector<expression_t>& out, int depth = 0)
{
    if (t.data == nullptr || depth > 12)
        return;
    expression_t ex = t.get_expression();
    if (!ex.empty())
        out.push_back(ex);
    int k = t.get_kind();
    if (k == PROCESS || k == INSTANCE || k == LSC_INSTANCE || k == PROCESS_SET)
        return;     // children are whole frames
    for (size_t i = 0; i < t.size(); ++i)
        type_exprs(t.get(i), out, depth + 1);
}

static size_t count_symbol(const expression_t& e, const symbol_t& s)
{
    if (e.empty())
        return 0;
    size_t n = (e.get_kind() == IDENTIFIER && expr_symbol_raw(e) == s) ? 1 : 0;
    for (size_t i = 0; i < expr_stored_children(e); ++i)
        n += count_symbol(*expr_child(e, i), s);
    return n;
}

static size_t count_in_type(const type_t& t, const symbol_t& s)
{
    std::vector<expression_t> xs;
    type_exprs(t, xs);
    size_t n = 0;
    for (auto& x : xs)
        n += count_symbol(x, s);
    return n;
}

/** for the type of every node of e and every symbol in a bound or size expression of that type: substitution replaces every
    occurrence, touches no other symbol, does not change the original, and substituting a symbol by itself changes nothing */
static void type_subst_laws(const expression_t& e, int& checks, const std::function<void(const std::string&)>& fail, int depth = 0)
{
    if (e.empty() || depth > 30)
        return;
    type_t t = e.get_type();
    if (t.data != nullptr) {
        int k = t.get_kind();
        if (!(k == PROCESS || k == INSTANCE || k == LSC_INSTANCE || k == PROCESS_SET)) {
            std::vector<expression_t> xs;
            type_exprs(t, xs);
            std::vector<symbol_t> syms;
            for (auto& x : xs)
                collect_symbols(x, syms);
            const std::string before = type_sexpr(t, 0);
            for (size_t i = 0; i < syms.size() && i < 4; ++i) {
                const symbol_t& s = syms[i];
                type_t t2 = t.subst(s, expression_t::create_constant(424243));
                ++checks;
                if (count_in_type(t2, s) != 0)
                    fail("type-subst:symbol-left:" + s.get_name() + ":" + std::string(kind_name(e.get_kind())));
                for (auto& o : syms)
                    if (!(o == s) && count_in_type(t2, o) != count_in_type(t, o))
                        fail("type-subst:other-symbol-changed:" + o.get_name());
                if (type_sexpr(t, 0) != before)
                    fail("type-subst:original-changed:" + s.get_name());
                type_t t3 = t.subst(s, expression_t::create_identifier(s));
                if (type_sexpr(t3, 0) != before)
                    fail("type-subst:identity-changes-type:" + s.get_name());
            }
        }
    }
    for (size_t i = 0; i < expr_stored_children(e); ++i)
        type_subst_laws(*expr_child(e, i), checks, fail, depth + 1);
}

// reference substitution, on the rendering
// reference substitution: the rendering of e in which every identifier bound to s is replaced by repl
// (one renderer for both sides of the comparison, harness/dump.cpp; DOT member decorations off because they are
// derived from the operand's type, which a substitution may change)
std::string ref_subst(const expression_t& e, const symbol_t& s, const std::string& repl, const SexprOpts& o)
{
    SexprOpts o2 = o;
    o2.subst_sym = &s;
    o2.subst_text = &repl;
    return sexpr(e, o2);
}

void all_nodes(expression_t& e, std::vector<std::vector<size_t>>& paths, std::vector<size_t>& cur)
{
    if (e.empty())
        return;
    paths.push_back(cur);
    for (size_t i = 0; i < expr_stored_children(e); ++i) {
        cur.push_back(i);
        all_nodes(const_cast<expression_t&>(*expr_child(e, i)), paths, cur);
        cur.pop_back();
    }
}

expression_t& at(expression_t& root, const std::vector<size_t>& path)
{
    expression_t* p = &root;
    for (size_t i : path)
        p = const_cast<expression_t*>(expr_child(*p, i));
    return *p;
}

void check_sizes(const expression_t& e, std::vector<std::string>& fails)
{
    if (e.empty())
        return;
    size_t stored = expr_stored_children(e);
    size_t reported = (size_t)-1;
    try {
        reported = e.get_size();
    } catch (const std::exception& ex) {
        fails.push_back(std::string("get_size-throws:") + kind_name(e.get_kind()));
    }
    if (reported != (size_t)-1 && reported != stored)
        fails.push_back(std::string("get_size:") + kind_name(e.get_kind()) + ":reported=" + std::to_string(reported) +
                        ":stored=" + std::to_string(stored));
    for (size_t i = 0; i < stored; ++i)
        check_sizes(*expr_child(e, i), fails);
}

// kinds of equal arity that can stand in for one another (kind perturbation)
int sibling_kind(int k)
{
    switch (k) {
    case PLUS: return MINUS;
    case MINUS: return PLUS;
    case MULT: return DIV;
    case DIV: return MOD;
    case MOD: return MULT;
    case BIT_AND: return BIT_OR;
    case BIT_OR: return BIT_XOR;
    case BIT_XOR: return BIT_AND;
    case BIT_LSHIFT: return BIT_RSHIFT;
    case BIT_RSHIFT: return BIT_LSHIFT;
    case AND: return OR;
    case OR: return AND;
    case XOR: return OR;
    case POW: return MULT;
    case MIN: return MAX;
    case MAX: return MIN;
    case LT: return LE;
    case LE: return LT;
    case EQ: return NEQ;
    case NEQ: return EQ;
    case GE: return GT;
    case GT: return GE;
    case ASSIGN: return ASS_PLUS;
    case ASS_PLUS: return ASS_MINUS;
    case ASS_MINUS: return ASS_PLUS;
    case ASS_DIV: return ASS_MOD;
    case ASS_MOD: return ASS_MULT;
    case ASS_MULT: return ASS_DIV;
    case ASS_AND: return ASS_OR;
    case ASS_OR: return ASS_XOR;
    case ASS_XOR: return ASS_AND;
    case ASS_LSHIFT: return ASS_RSHIFT;
    case ASS_RSHIFT: return ASS_LSHIFT;
    case NOT: return UNARY_MINUS;
    case UNARY_MINUS: return NOT;
    case PRE_INCREMENT: return PRE_DECREMENT;
    case PRE_DECREMENT: return PRE_INCREMENT;
    case POST_INCREMENT: return POST_DECREMENT;
    case POST_DECREMENT: return POST_INCREMENT;
    case FORALL: return EXISTS;
    case EXISTS: return SUM;
    case SUM: return FORALL;
    case FMOD_F: return POW_F;
    case POW_F: return FMOD_F;
    case ABS_F: return SQRT_F;
    case SQRT_F: return ABS_F;
    case EF: return EG;
    case EG: return AF;
    case AF: return AG;
    case AG: return EF;
    case A_UNTIL: return A_WEAK_UNTIL;
    case A_WEAK_UNTIL: return A_UNTIL;
    case PROBA_BOX: return PROBA_DIAMOND;
    case PROBA_DIAMOND: return PROBA_BOX;
    case SUP_VAR: return INF_VAR;
    case INF_VAR: return SUP_VAR;
    default: return -1;
    }
}
}  // namespace

json expr_laws(Document& doc, expression_t e)
{
    json out;
    std::vector<std::string> fails;
    SexprOpts o;
    o.sym_types = true;
    int checks = 0, perturbations = 0;
    auto fail = [&](const std::string& s) {
        if (fails.size() < 20)
            fails.push_back(s);
    };
    try {
        const std::string before = sexpr(e, o);
        const std::string kroot = kind_name(e.get_kind());
        // --- clone
        expression_t c = e.clone_deeper();
        ++checks;
        if (!c.equal(e) || !e.equal(c))
            fail("clone-not-equal:" + kroot);
        if (sexpr(c, o) != before)
            fail("clone-renders-differently:" + kroot);
        std::set<const void*> n1, n2;
        size_t cnt1 = 0, cnt2 = 0;
        collect_nodes(e, n1, cnt1);
        collect_nodes(c, n2, cnt2);
        ++checks;
        for (auto* p : n2)
            if (n1.count(p)) {
                fail("clone-shares-node:" + kroot);
                break;
            }
        if (cnt1 != cnt2)
            fail("clone-node-count:" + kroot);
        // --- independence: change every node position of a clone in turn; the original must not move
        {
            std::vector<std::vector<size_t>> paths;
            std::vector<size_t> cur;
            expression_t a = e.clone_deeper();
            all_nodes(a, paths, cur);
            for (auto& p : paths) {
                if (p.empty())
                    continue;
                expression_t a2 = e.clone_deeper();
                std::vector<size_t> parent(p.begin(), p.end() - 1);
                expression_t& par = at(a2, parent);
                // through the public API: operator[] hands out a reference to the stored child
                if (p.back() < par.get_size())
                    par[p.back()] = expression_t::create_constant(424242);
                else
                    expr_set_child(par, p.back(), expression_t::create_constant(424242));
                ++checks;
                if (sexpr(e, o) != before) {
                    fail("clone-mutation-leaks-into-original:" + kroot);
                    break;
                }
                // and the other direction: change the original's copy `c`, the second clone stays
            }
            expression_t b = e.clone_deeper();
            expression_t b2 = b.clone_deeper();
            const std::string bs = sexpr(b2, o);
            std::vector<std::vector<size_t>> bp;
            all_nodes(b, bp, cur);
            for (auto& p : bp) {
                if (p.empty())
                    continue;
                std::vector<size_t> parent(p.begin(), p.end() - 1);
                expr_set_child(at(b, parent), p.back(), expression_t::create_constant(-7));
                break;
            }
            ++checks;
            if (sexpr(b2, o) != bs)
                fail("original-mutation-leaks-into-clone:" + kroot);
        }
        // --- substitution
        std::vector<symbol_t> syms;
        collect_symbols(e, syms);
        expression_t repl = expression_t::create_constant(777);
        const std::string repl_s = sexpr(repl, o);
        for (auto& s : syms) {
            ++checks;
            expression_t r = e.subst(s, repl);
            if (sexpr(e, o) != before)
                fail("subst-mutates-original:" + s.get_name());
            SexprOpts os = o;
            os.dot_members = false;
            std::string exp = ref_subst(e, s, repl_s, os);
            std::string got = sexpr(r, os);
            if (got != exp)
                fail("subst-wrong-result:" + kroot + ":" + s.get_name() + (getenv("UTAPV_DEBUG") ? " exp=" + exp + " got=" + got : std::string()));
            expression_t idr = e.subst(s, expression_t::create_identifier(s));
            ++checks;
            if (!idr.equal(e) || !e.equal(idr))
                fail("subst-identity-not-equal:" + kroot + ":" + s.get_name());
        }
        // a symbol that does not occur: result equal
        {
            frame_t f = frame_t::create();
            symbol_t fresh = f.add_symbol("utapv_fresh", type_t::create_primitive(INT), position_t());
            ++checks;
            if (!e.subst(fresh, repl).equal(e))
                fail("subst-absent-symbol-changes:" + kroot);
        }
        // --- equality
        ++checks;
        if (!e.equal(e))
            fail("equal-not-reflexive:" + kroot);
        {
            std::string s1, s2;
            s1 = e.str();
            s2 = c.str();
            if (s1 != s2)
                fail("equal-but-different-text:" + kroot);
        }
        // --- perturbations: every single-node change must be detected by equal()
        {
            std::vector<std::vector<size_t>> paths;
            std::vector<size_t> cur;
            expression_t probe = e.clone_deeper();
            all_nodes(probe, paths, cur);
            frame_t f = frame_t::create();
            symbol_t other = f.add_symbol("utapv_other", type_t::create_primitive(INT), position_t());
            for (auto& p : paths) {
                expression_t pr = e.clone_deeper();
                expression_t& node = at(pr, p);
                int k = node.get_kind();
                std::string what;
                bool changed = false;
                int32_t iv;
                double dv;
                if (k == CONSTANT && expr_value_int(node, iv)) {
                    expr_set_int(node, iv == INT32_MAX ? iv - 1 : iv + 1);
                    // booleans are compared as 0/1: 1 -> 2 is not an observable change for a bool-typed constant
                    if (node.get_type().isBoolean())
                        expr_set_int(node, iv ? 0 : 1);
                    what = "constant+1";
                    changed = true;
                } else if (k == CONSTANT && expr_value_double(node, dv)) {
                    expr_set_double(node, std::nextafter(dv, INFINITY));
                    what = "double+1ulp";
                    changed = true;
                } else if (k == IDENTIFIER) {
                    expr_set_symbol(node, other);
                    what = "symbol";
                    changed = true;
                } else if (sibling_kind(k) >= 0) {
                    expr_set_kind(node, sibling_kind(k));
                    what = std::string("kind:") + kind_name(k);
                    changed = true;
                }
                if (changed) {
                    ++perturbations;
                    if (pr.equal(e) || e.equal(pr))
                        fail("perturbation-undetected:" + what + ":" + kroot);
                }
                // swap two children that differ
                size_t n = expr_stored_children(node);
                if (n >= 2) {
                    expression_t pr2 = e.clone_deeper();
                    expression_t& nd = at(pr2, p);
                    for (size_t i = 0; i + 1 < n; ++i) {
                        expression_t ci = *expr_child(nd, i), cj = *expr_child(nd, i + 1);
                        if (sexpr(ci, o) != sexpr(cj, o)) {
                            expr_set_child(nd, i, cj);
                            expr_set_child(nd, i + 1, ci);
                            ++perturbations;
                            if (pr2.equal(e) || e.equal(pr2))
                                fail(std::string("perturbation-undetected:swap:") + kind_name(k));
                            break;
                        }
                    }
                }
            }
        }
        // --- substitution inside the types of the nodes
        type_subst_laws(e, checks, fail);
        // --- get_size
        ++checks;
        check_sizes(e, fails);
        if (sexpr(e, o) != before)
            fail("laws-changed-the-expression:" + kroot);
    } catch (const std::exception& ex) {
        fails.push_back(std::string("law-throws:") + demangle(typeid(ex).name()) + ":" + ex.what());
    }
    out["checks"] = checks;
    out["perturbations"] = perturbations;
    out["fails"] = fails;
    return out;
}

}  // namespace utapv
