// C19: bounded-exhaustive exploration of *operation sequences* on expression_t against a reference model.
// State: three expression variables X0..X2 (X0 = the parsed expression, X1 = its deep clone, X2 = a second expression).
// Alphabet: equal(i,j), Xj = Xi.clone_deeper(), Xj = Xi.clone(), Xj = Xi.subst(sym, X2-or-constant), Xi[k] = Xj (root level).
// Every sequence up to the depth bound starts from freshly parsed objects; after every operation every variable's rendering
// must equal the reference model's (plain trees of strings) and every equal() must answer what the reference says.
#include "worker.h"

#include "utap/ExpressionBuilder.hpp"
#include "utap/typechecker.h"

#include <memory>

using namespace UTAP;

namespace utapv {
namespace {
void collect_symbols(const expression_t& e, std::vector<symbol_t>& out)
{
    if (e.empty())
        return;
    if (e.get_kind() == Constants::IDENTIFIER && expr_has_symbol(e)) {
        symbol_t s = expr_symbol_raw(e);
        bool seen = false;
        for (auto& x : out)
            seen = seen || x == s;
        if (!seen && !(s == symbol_t()))
            out.push_back(s);
    }
    for (size_t i = 0; i < expr_stored_children(e); ++i)
        collect_symbols(*expr_child(e, i), out);
}

struct Ref
{
    std::string head;  // "(KIND..." without children and without the closing parenthesis; leaves: the full text
    bool leaf = false;
    std::string ident;  // name of the symbol for identifier leaves
    std::vector<std::shared_ptr<Ref>> kids;
};
using RefP = std::shared_ptr<Ref>;

SexprOpts opts()
{
    SexprOpts o;
    o.sym_types = true;
    o.dot_members = false;
    return o;
}

RefP build(const expression_t& e)
{
    auto r = std::make_shared<Ref>();
    const std::string full = sexpr(e, opts());
    size_t n = e.empty() ? 0 : expr_stored_children(e);
    if (n == 0) {
        r->leaf = true;
        r->head = full;
        if (!e.empty() && e.get_kind() == Constants::IDENTIFIER && expr_has_symbol(e))
            r->ident = expr_symbol_raw(e).get_name() + "@" + std::to_string((uintptr_t)expr_symbol_raw(e).get_data());
        return r;
    }
    size_t tail = 1;  // the closing parenthesis
    for (size_t i = 0; i < n; ++i) {
        r->kids.push_back(build(*expr_child(e, i)));
    }
    std::string kidstext;
    for (auto& k : r->kids)
        kidstext += " " + (k->leaf ? k->head : std::string());
    // head = full minus " child1 child2 ... )": compute by rendering the children
    std::string rest;
    std::function<std::string(const RefP&)> show = [&](const RefP& x) -> std::string {
        if (x->leaf)
            return x->head;
        std::string s = x->head;
        for (auto& k : x->kids)
            s += " " + show(k);
        return s + ")";
    };
    for (auto& k : r->kids)
        rest += " " + show(k);
    rest += ")";
    (void)tail;
    if (full.size() >= rest.size() && full.compare(full.size() - rest.size(), rest.size(), rest) == 0)
        r->head = full.substr(0, full.size() - rest.size());
    else
        r->head = "<?head " + full + ">";  // a node printed with a suffix (type annotations are off, so this does not happen)
    return r;
}

std::string show(const RefP& x)
{
    if (!x)
        return "()";
    if (x->leaf)
        return x->head;
    std::string s = x->head;
    for (auto& k : x->kids)
        s += " " + show(k);
    return s + ")";
}

RefP copy(const RefP& x)
{
    auto r = std::make_shared<Ref>(*x);
    for (auto& k : r->kids)
        k = copy(k);
    return r;
}

RefP subst(const RefP& x, const std::string& ident, const RefP& repl)
{
    if (x->leaf)
        return (!ident.empty() && x->ident == ident) ? copy(repl) : copy(x);
    auto r = std::make_shared<Ref>(*x);
    for (auto& k : r->kids)
        k = subst(k, ident, repl);
    return r;
}

struct Op
{
    int kind;  // 0 equal 1 clone_deeper 2 clone 3 subst 4 setchild
    int i, j, k;
    std::string str() const
    {
        static const char* nm[] = {"equal", "clone_deeper", "clone", "subst", "setchild"};
        return std::string(nm[kind]) + "(" + std::to_string(i) + "," + std::to_string(j) + "," + std::to_string(k) + ")";
    }
};
}  // namespace

// req: {ctx, items:[text...], second: text, depth: n}
json op_exprseq_impl(Document& doc, const json& req)
{
    json out;
    bool newxta = req.value("newxta", true);
    int depth = req.value("depth", 3);
    const std::string second = req.value("second", "1");
    long sequences = 0, operations = 0, equal_calls = 0, equal_true = 0;
    std::vector<std::string> fails;
    json per = json::array();
    auto parse = [&](const std::string& text, expression_t& e) {
        doc.clear_errors();
        ExpressionBuilder eb(doc);
        parse_XTA(text.c_str(), &eb, newxta, S_EXPRESSION, "");
        if (eb.getExpressions().size() != 1 || doc.has_errors())
            return false;
        e = eb.getExpressions()[0];
        return true;
    };
    for (auto& it : req["items"]) {
        const std::string text = it.get<std::string>();
        expression_t probe, probe2;
        if (!parse(text, probe) || !parse(second, probe2))
            continue;
        std::vector<symbol_t> syms;
        collect_symbols(probe, syms);
        size_t nchild = expr_stored_children(probe);
        // alphabet
        std::vector<Op> sigma;
        for (int i = 0; i < 3; ++i)
            for (int j = 0; j < 3; ++j)
                if (i != j || i == 0)
                    sigma.push_back({0, i, j, 0});
        for (int i = 0; i < 3; ++i)
            for (int j = 0; j < 2; ++j)
                if (i != j) {
                    sigma.push_back({1, i, j, 0});
                    sigma.push_back({2, i, j, 0});
                }
        for (int i = 0; i < 2; ++i)
            for (size_t s = 0; s < syms.size() && s < 2; ++s)
                for (int r = 0; r < 2; ++r)   // replacement: X2 / the symbol itself
                    sigma.push_back({3, i, 1 - i, (int)(s * 2 + r)});
        for (int i = 0; i < 2; ++i)
            for (size_t k = 0; k < nchild && k < 2; ++k)
                sigma.push_back({4, i, 2, (int)k});
        long seqs_here = 0;
        std::vector<int> idx(depth, 0);
        // enumerate all sequences of length exactly `depth` (prefixes are checked on the way)
        bool with_probes = false;
        std::function<void(std::vector<int>&)> run = [&](std::vector<int>& seq) {
            expression_t X[3];
            if (!parse(text, X[0]) || !parse(second, X[2]))
                return;
            X[1] = X[0].clone_deeper();
            RefP R[3] = {build(X[0]), nullptr, build(X[2])};
            R[1] = copy(R[0]);
            std::vector<symbol_t> ss;
            collect_symbols(X[0], ss);
            std::string trace;
            for (int step : seq) {
                const Op& op = sigma[step];
                trace += op.str() + " ";
                ++operations;
                switch (op.kind) {
                case 0: {
                    bool got = X[op.i].equal(X[op.j]);
                    bool exp = show(R[op.i]) == show(R[op.j]);
                    ++equal_calls;
                    equal_true += got;
                    if (got != exp && fails.size() < 10)
                        fails.push_back("equal-disagrees-with-structure: `" + text + "` after " + trace + ": equal says " +
                                        (got ? "true" : "false"));
                    break;
                }
                case 1:
                    X[op.j] = X[op.i].clone_deeper();
                    R[op.j] = copy(R[op.i]);
                    break;
                case 2:
                    X[op.j] = X[op.i].clone();
                    R[op.j] = copy(R[op.i]);
                    break;
                case 3: {
                    size_t s = op.k / 2;
                    if (s >= ss.size())
                        break;
                    bool self = op.k % 2;
                    expression_t repl = self ? expression_t::create_identifier(ss[s]) : X[2];
                    std::string ident = ss[s].get_name() + "@" + std::to_string((uintptr_t)ss[s].get_data());
                    RefP rr = self ? build(repl) : R[2];
                    X[op.j] = X[op.i].subst(ss[s], repl);
                    R[op.j] = subst(R[op.i], ident, rr);
                    break;
                }
                case 4:
                    if ((size_t)op.k < expr_stored_children(X[op.i]) && !R[op.i]->leaf && (size_t)op.k < R[op.i]->kids.size()) {
                        // through the public non-const accessor where it reaches the child, else directly
                        if ((size_t)op.k < X[op.i].get_size())
                            X[op.i][op.k] = X[op.j];
                        else
                            break;
                        auto fresh = std::make_shared<Ref>(*R[op.i]);
                        fresh->kids[op.k] = R[op.j];
                        R[op.i] = fresh;
                    }
                    break;
                }
                if (with_probes) {
                    // a fresh deep copy of any reachable value must compare equal to it, both ways (this also calls equal(),
                    // so the sequence is run once without and once with these probes)
                    for (int v = 0; v < 3; ++v) {
                        expression_t c = X[v].clone_deeper();
                        ++equal_calls;
                        if ((!X[v].equal(c) || !c.equal(X[v])) && fails.size() < 10) {
                            fails.push_back("not-equal-to-own-deep-copy: `" + text + "` after " + trace + ": X" + std::to_string(v) + " = " +
                                            sexpr(X[v], opts()).substr(0, 160));
                            return;
                        }
                    }
                }
                for (int v = 0; v < 3; ++v) {
                    if (sexpr(X[v], opts()) != show(R[v]) && fails.size() < 10) {
                        fails.push_back("state-differs-from-reference: `" + text + "` after " + trace + ": X" + std::to_string(v) + " = " +
                                        sexpr(X[v], opts()).substr(0, 200) + " expected " + show(R[v]).substr(0, 200));
                        return;
                    }
                }
            }
            ++sequences;
            ++seqs_here;
        };
        std::vector<int> seq;
        std::function<void(int)> rec = [&](int d) {
            if (d == depth) {
                with_probes = false;
                run(seq);
                with_probes = true;
                run(seq);
                return;
            }
            for (size_t a = 0; a < sigma.size(); ++a) {
                seq.push_back((int)a);
                rec(d + 1);
                seq.pop_back();
                if (fails.size() >= 10)
                    return;
            }
        };
        rec(0);
        per.push_back({{"expr", text}, {"alphabet", sigma.size()}, {"sequences", seqs_here}});
    }
    out["sequences"] = sequences;
    out["operations"] = operations;
    out["equal_calls"] = equal_calls;
    out["equal_true"] = equal_true;
    out["fails"] = fails;
    out["per_expression"] = per;
    return out;
}
}  // namespace utapv
