// Canonical, null-safe renderings of expressions, types and documents
// (DESIGN.md §2.4).  Trusted base of most checks; written against public
// members only (plus the expression wrapper accessors for node internals).
#ifndef UTAPV_DUMP_H
#define UTAPV_DUMP_H

#include "utap/document.h"
#include "utap/statement.h"
#include "utap/utap.h"

#include <nlohmann/json.hpp>

#include <string>
#include <vector>

namespace utapv {
using json = nlohmann::json;

const char* kind_name(int kind);

// accessors defined in wrap_expression.cpp
const void* expr_node(const UTAP::expression_t& e);
size_t expr_stored_children(const UTAP::expression_t& e);
const UTAP::expression_t* expr_child(const UTAP::expression_t& e, size_t i);
int expr_value_index(const UTAP::expression_t& e);
bool expr_value_int(const UTAP::expression_t& e, int32_t& v);
bool expr_value_double(const UTAP::expression_t& e, double& v);
bool expr_value_string(const UTAP::expression_t& e, std::string& v);
bool expr_value_sync(const UTAP::expression_t& e, int& v);
bool expr_has_symbol(const UTAP::expression_t& e);
UTAP::symbol_t expr_symbol_raw(const UTAP::expression_t& e);

struct SexprOpts
{
    bool sym_types = true;   // print the declared type of the symbol an identifier is bound to
    bool expr_types = false;  // print the kind of every node's type (after type checking)
    bool type_expr_syms = false;  // identifiers inside type expressions (bounds, sizes) carry their symbol's type too (depth limited)
    bool dot_members = true;  // decorate DOT nodes with the selected member's name and type
    // reference substitution (C19): identifiers bound to *subst_sym are rendered as *subst_text
    const UTAP::symbol_t* subst_sym = nullptr;
    const std::string* subst_text = nullptr;
};

std::string type_sexpr(const UTAP::type_t& t, int depth = 0);
std::string sexpr(const UTAP::expression_t& e, const SexprOpts& o = {});
std::string stmt_sexpr(UTAP::Statement* s, const SexprOpts& o = {});
std::string hexdouble(double d);

json dump_errors(const std::vector<UTAP::error_t>& errs);
json docdump(UTAP::Document& doc, const SexprOpts& o = {});
// C08 structural invariants; returns the list of violated invariants (empty = fine).
// `clean` = the call returned normally and reported no errors.
std::vector<std::string> invcheck(UTAP::Document& doc, bool clean);
}  // namespace utapv

#endif
