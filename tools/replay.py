#!/usr/bin/env python3
"""Re-run one recorded violation without the explorer:  tools/replay.py <replay.json> [flavour]
The artefact's "replay" member is a worker request (or a description for
stand-alone programs); the worker's full response is printed."""
import json
import os
import sys

sys.path.insert(0, os.path.join(os.path.dirname(os.path.abspath(__file__)), "..", "lib"))
import engine


def main():
    art = json.load(open(sys.argv[1]))
    flavour = sys.argv[2] if len(sys.argv) > 2 else "fast"
    print("property :", art.get("property"))
    print("signature:", art.get("signature"))
    print("detail   :", art.get("detail"))
    rp = art.get("replay")
    if not isinstance(rp, dict) or "op" not in rp:
        print("replay   :", json.dumps(rp, indent=1))
        return 0
    if "request" in rp:
        rp = rp["request"]
    w = engine.Worker(flavour)
    r = w.call_safe(rp, timeout=120)
    print(json.dumps(r, indent=1)[:20000])
    w.stop()
    return 0


if __name__ == "__main__":
    sys.exit(main())
