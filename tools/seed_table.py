#!/usr/bin/env python3
"""Writes seeded/README.md from seeded/*/meta.json (one row per seeded change)."""
import json
import os

VERIF = os.path.dirname(os.path.dirname(os.path.abspath(__file__)))
rows = []
for name in sorted(os.listdir(os.path.join(VERIF, "seeded"))):
    p = os.path.join(VERIF, "seeded", name, "meta.json")
    if not os.path.exists(p):
        continue
    m = json.load(open(p))
    r = m["result"]
    checks = "; ".join("%s %s (%d violation lines, %ss)" % (c, "DETECTS" if v["detected"] else "misses", v["violations"], v["wall_s"])
                       for c, v in r.get("checks", {}).items())
    rows.append((name, m["property"], (m.get("breaks") or "")[:260].replace("\n", " ").replace("|", "/"),
                 (m.get("needs_to_manifest") or "")[:260].replace("\n", " ").replace("|", "/"),
                 ("yes" if r.get("confirmed") else "NO") + ((" (see history: " + m["history"][:200].replace("|", "/") + "...)") if m.get("history") else ""), checks, r.get("repo_head", "")))
with open(os.path.join(VERIF, "seeded", "README.md"), "w") as fh:
    fh.write("# Seeded changes\n\nEach directory holds `patch.diff` (apply with `git -C /repo apply`, undo with `git -C /repo checkout -- .`), "
             "the demonstration (`demo/run_demo.sh`, run with `REPO=<tree>`; exit 0 = property holds on the scenario) and `meta.json` "
             "(written by `tools/seed_eval.py`: suite result, demo with/without the change, what each check said). "
             "Changes were written by independent sub-agents that saw only the property text and a scratch worktree.\n\n"
             "| seeded change | property | what it breaks | what it needs to manifest | confirmed (suite green, demo red/green) | quick tier of the checks | evaluated at /repo |\n"
             "|---|---|---|---|---|---|---|\n")
    for r in rows:
        fh.write("| %s |\n" % " | ".join(r))
print("%d seeded changes" % len(rows))
