#!/bin/bash
# Runs every registered check of MANIFEST.json at the given tier (default quick), one after the other,
# and prints one summary line per check: id, exit status, wall seconds, last line of output.
# Logs go to /verif/scratch/run_all/<id>.log (ignored by git).
TIER=${1:-quick}
shift
ONLY="$*"
cd "$(dirname "$0")/.."
mkdir -p scratch/run_all
python3 - "$TIER" <<'PY' > scratch/run_all/cmds.txt
import json, sys
m = json.load(open("MANIFEST.json"))
for c in m["checks"]:
    cmd = c["quick_cmd"] if sys.argv[1] == "quick" else c.get("thorough_cmd", c["quick_cmd"])
    print(c["property_id"] + "\t" + cmd)
PY
rc_all=0
while IFS=$'\t' read -r id cmd; do
  if [ -n "$ONLY" ] && ! echo " $ONLY " | grep -q " $id "; then continue; fi
  t0=$(date +%s)
  VERIF_TIER=$TIER bash -c "$cmd" > scratch/run_all/$id.log 2>&1
  rc=$?
  t1=$(date +%s)
  nv=$(grep -c '^VIOLATION' scratch/run_all/$id.log)
  nk=$(grep -c '^KNOWN-FINDING' scratch/run_all/$id.log)
  echo "$id rc=$rc wall=$((t1-t0))s violations=$nv known=$nk :: $(tail -1 scratch/run_all/$id.log | cut -c1-160)"
  [ $rc -ne 0 ] && rc_all=1
done < scratch/run_all/cmds.txt
exit $rc_all
