#!/usr/bin/env python3
"""Re-validates every seeded change against /repo's current HEAD:  tools/seed_recheck.py [name ...]
For each seeded/<name>/ the patch is applied to a fresh worktree (suite, demonstration with/without) and the checks named in
its meta.json are run against the patched tree (tools/seed_eval.py does the work); meta.json and seeded/README.md are rewritten.
A patch that no longer applies is reported (it has to be rebased by hand)."""
import json
import os
import shutil
import subprocess
import sys
import tempfile

VERIF = os.path.dirname(os.path.dirname(os.path.abspath(__file__)))
names = sys.argv[1:] or sorted(d for d in os.listdir(os.path.join(VERIF, "seeded")) if os.path.isdir(os.path.join(VERIF, "seeded", d)))
bad = []
for name in names:
    d = os.path.join(VERIF, "seeded", name)
    meta = json.load(open(os.path.join(d, "meta.json")))
    tmp = tempfile.mkdtemp(prefix="seed-recheck-", dir="/tmp")
    src = os.path.join(tmp, "out")
    shutil.copytree(os.path.join(d, "demo"), src)
    shutil.copy(os.path.join(d, "patch.diff"), src)
    json.dump(meta["result"].get("agent_meta", {}), open(os.path.join(src, "meta.json"), "w"))
    extra = {k: meta[k] for k in meta if k not in ("property", "breaks", "needs_to_manifest", "what_was_run", "result")}
    keep = {f: os.path.join(d, f) for f in os.listdir(d) if f not in ("demo", "patch.diff", "meta.json")}
    for f, p in keep.items():
        shutil.move(p, os.path.join(tmp, "keep_" + f))
    checks = ",".join(meta["result"].get("checks", {}).keys()) or meta["property"]
    p = subprocess.run([sys.executable, os.path.join(VERIF, "tools", "seed_eval.py"), meta["property"], src, name, "--checks", checks],
                       stdout=subprocess.PIPE, stderr=subprocess.STDOUT)
    out = p.stdout.decode(errors="replace").strip().splitlines()
    print("== %s: %s" % (name, " | ".join(out[-2:])))
    for f in keep:
        shutil.move(os.path.join(tmp, "keep_" + f), os.path.join(d, f))
    if extra:
        m2 = json.load(open(os.path.join(d, "meta.json")))
        m2.update(extra)
        json.dump(m2, open(os.path.join(d, "meta.json"), "w"), indent=1)
    shutil.rmtree(tmp, ignore_errors=True)
    m2 = json.load(open(os.path.join(d, "meta.json")))
    r = m2["result"]
    if not r.get("confirmed") or not any(c.get("detected") for c in r.get("checks", {}).values()):
        bad.append(name)
subprocess.run([sys.executable, os.path.join(VERIF, "tools", "seed_table.py")])
print("needs attention:", bad or "none")
sys.exit(1 if bad else 0)
