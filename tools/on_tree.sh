#!/bin/bash
# Run a command (usually a check) against a scratch copy of the repository:
#   tools/on_tree.sh <commit-ish|-> [patch.diff|-] -- <command...>
# A git worktree of /repo at <commit-ish> (default HEAD) is created under /tmp,
# the optional patch is applied, UTAPV_REPO points the checks at it, and the
# worktree is removed afterwards.
set -u
REV=${1:-HEAD}; [ "$REV" = "-" ] && REV=HEAD
PATCH=${2:--}
shift 2; [ "${1:-}" = "--" ] && shift
D=$(mktemp -d /tmp/utap-tree.XXXXXX)
git -C /repo worktree add -q --detach "$D" "$REV" || exit 2
if [ "$PATCH" != "-" ]; then PATCH=$(readlink -f "$PATCH"); git -C "$D" apply "$PATCH" || { git -C /repo worktree remove --force "$D"; exit 2; }; fi
# evidence and replay files of a run against a scratch tree never go to /verif/evidence (KEEP_OUT=1 keeps them for inspection)
OUT=${UTAPV_OUT_DIR:-$D.out}
mkdir -p "$OUT"
UTAPV_REPO="$D" UTAPV_OUT_DIR="$OUT" "$@"
rc=$?
git -C /repo worktree remove --force "$D"
[ "${KEEP_OUT:-0}" = "1" ] && echo "output kept in $OUT" || rm -rf "$D.out"
exit $rc
