#!/bin/bash
# Run a command (usually a check) against a scratch copy of the repository:
#   tools/on_tree.sh <commit-ish|-> [patch.diff|-] -- <command...>
# A git worktree of /repo at <commit-ish> (default HEAD) is created under /tmp,
# the optional patch is applied, UTAPV_REPO points the checks at it, and the
# worktree is removed afterwards.
set -u
REV=${1:-HEAD}; [ "$REV" = "-" ] && REV=HEAD
PATCH=${2:--}
shift 2; [ "${1:-}" = "--" ] && shift
D=$(mktemp -d /tmp/utap-tree.XXXXXX)
git -C /repo worktree add -q --detach "$D" "$REV" || exit 2
if [ "$PATCH" != "-" ]; then PATCH=$(readlink -f "$PATCH"); git -C "$D" apply "$PATCH" || { git -C /repo worktree remove --force "$D"; exit 2; }; fi
UTAPV_REPO="$D" "$@"
rc=$?
git -C /repo worktree remove --force "$D"
exit $rc
