#!/bin/bash
# Diagnostic, not a check: runs the quick tier of the given checks (default: all but C18, whose subject is a header) on a
# gcov-instrumented build of /repo and prints, per source file of the library, line coverage and the functions never called.
#   tools/coverage.sh [C01 C05 ...]
# Evidence and replay files of these runs go to a scratch directory, not to /verif/evidence.
cd "$(dirname "$0")/.."
OUT=$(mktemp -d /tmp/utapv-cov.XXXXXX)
IDS=${*:-C01 C02 C03 C04 C05 C06 C07 C08 C09 C10 C11 C12 C13 C14 C15 C16 C17 C19 C20}
export UTAPV_COV=1 UTAPV_OUT_DIR=$OUT
B=$(python3 -c "import sys; sys.path.insert(0,'lib'); import build; print(build.ensure('cov'))")
find "$B" -name '*.gcda' -delete
for id in $IDS; do
  lc=$(echo "$id" | tr 'A-Z' 'a-z')
  timeout 3600 python3 checks/$lc.py --tier quick 2>&1 | tail -1 | cut -c1-160
done
cd "$B/obj" && for o in *.o; do gcov -f -o . "$o" >/dev/null 2>&1; done
python3 - "$B/obj" <<'PY'
import glob, os, re, sys
d = sys.argv[1]
tot = {}
for g in glob.glob(os.path.join(d, "*.gcov")):
    src = None
    lines = open(g, errors="replace").read().split("\n")
    for ln in lines[:3]:
        m = re.match(r"\s*-:\s*0:Source:(.*)", ln)
        if m:
            src = m.group(1)
    if not src or "/src/" not in src and "gen/" not in src and "/include/utap" not in src:
        continue
    ex = nx = 0
    for ln in lines:
        m = re.match(r"\s*([^:]+):\s*(\d+):", ln)
        if not m or m.group(2) == "0":
            continue
        c = m.group(1).strip()
        if c == "-":
            continue
        if c.startswith("#") or c.startswith("="):
            nx += 1
        else:
            ex += 1
    k = os.path.basename(src)
    a, b = tot.get(k, (0, 0))
    tot[k] = (a + ex, b + nx)
for k in sorted(tot):
    ex, nx = tot[k]
    if ex + nx:
        print("%-28s %5d of %5d lines (%.0f%%)" % (k, ex, ex + nx, 100.0 * ex / (ex + nx)))
PY
echo "per-line files (*.gcov) are in $B/obj ; scratch evidence in $OUT"
