#!/bin/bash
# Runs the repository's own pinned test suite with the verification guard OFF
# (stock CMake build, no -DUTAP_VERIF anywhere).  Optional arg: repo dir.
set -e
REPO=${1:-/repo}
B=$REPO/_build
if [ ! -f "$B/build.ninja" ]; then
  cmake -G Ninja -S "$REPO" -B "$B" -DCMAKE_BUILD_TYPE=RelWithDebInfo >/dev/null
fi
cmake --build "$B" -j16 >/dev/null
ctest --test-dir "$B" -j8 --timeout 900 2>&1 | tail -5
