#!/usr/bin/env python3
"""Writes the prompts and scratch worktrees of one round of seeded changes:  tools/seed_prompts.py <round dir, e.g. /tmp/seed4> [ids...]
Each prompt holds only the text of one property, the build instructions and a short description of the earlier seeded changes for
that property (so that a new mechanism is chosen) - nothing else from /verif.  Worktrees: <round dir>/<ID>/repo (detached HEAD of /repo)."""
import glob
import json
import os
import subprocess
import sys

VERIF = os.path.dirname(os.path.dirname(os.path.abspath(__file__)))
TMPL = open(os.path.join(VERIF, "tools", "seed_prompt.tmpl")).read()
root = sys.argv[1]
ids = sys.argv[2:] or ["C%02d" % i for i in range(1, 21)]
props = {json.loads(l)["id"]: json.loads(l) for l in open(os.path.join(VERIF, "properties.jsonl"))}
prev = {}
touched = {}
for d in sorted(glob.glob(os.path.join(VERIF, "seeded", "*", "meta.json"))):
    m = json.load(open(d))
    prev.setdefault(m["property"], []).append(m)
    for l in m["result"].get("files_changed", []):
        f = l.split("|")[0].strip()
        if f.startswith(("src/", "include/")):
            touched.setdefault(m["property"], set()).add(f)
os.makedirs(root, exist_ok=True)
for pid in ids:
    p = props[pid]
    d = os.path.join(root, pid)
    os.makedirs(os.path.join(d, "out"), exist_ok=True)
    json.dump(p, open(os.path.join(d, "property.json"), "w"), indent=1)
    text = "id: %s\ntitle: %s\nstatement: %s\nquantifier: %s\nwhy tests cannot settle it: %s\nanchors: %s" % (
        pid, p["title"], p["statement"], p["quantifier"]["text"], p["why_tests_cant"], json.dumps(p.get("anchors", {})))
    before = ""
    if prev.get(pid):
        before = ("Previous seeded changes for this property are described below. Do NOT repeat any of them or a close variant: choose a different\n"
                  "mechanism, in a different function (preferably a different file: so far %s were changed), that needs a different kind of input or\n"
                  "history to manifest. Parts of the library and of the language that are easily overlooked are welcome (3.x syntax, priorities,\n"
                  "progress/gantt/io declarations, LSC templates, SMC and strategy queries, dynamic templates, the XML writer, the pretty printer,\n"
                  "partial instantiation, scalar sets, records and arrays of them, external functions).\n\n" % ", ".join(sorted(touched.get(pid, []))))
        for m in prev[pid]:
            before += "- %s\n  needs: %s\n" % ((m.get("breaks") or "")[:700], (m.get("needs_to_manifest") or "")[:400])
        before += "\n"
    s = TMPL.replace("/tmp/seed/", root.rstrip("/") + "/").replace("@ID@", pid).replace("@PROPERTY@", text).replace("@PREVIOUS@", before)
    open(os.path.join(root, "PROMPT_%s.txt" % pid), "w").write(s)
    tree = os.path.join(d, "repo")
    if not os.path.isdir(tree):
        subprocess.check_call(["git", "-C", "/repo", "worktree", "add", "-q", "--detach", tree, "HEAD"])
print("prompts in", root)
