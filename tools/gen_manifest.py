#!/usr/bin/env python3
"""Writes /verif/MANIFEST.json from the table below (kept valid at all times)."""
import json
import os

VERIF = os.path.dirname(os.path.dirname(os.path.abspath(__file__)))

CHECKS = {}
NA = {}


def check(pid, category, text, note, technique, design_ref, thorough=True):
    CHECKS[pid] = {
        "property_id": pid,
        "quick_cmd": "python3 checks/%s.py --tier quick" % pid.lower(),
        "evidence_file": "/verif/evidence/%s.json" % pid,
        "replay_cmd_template": "python3 tools/replay.py {path}",
        "engine": "utapv",
        "level_claimed": {"category": category, "text": text, "design_ref": design_ref},
        "level_note": note,
        "technique": technique,
    }
    if thorough:
        CHECKS[pid]["thorough_cmd"] = "python3 checks/%s.py --tier thorough" % pid.lower()


check("C16", "fault_enumeration",
      "Exhaustive fault enumeration on the real reader/builder/checker: for each of the six non-declaring label kinds the "
      "label is replaced by every single-token fault of its base texts (delete, truncate, open comment, replace by / insert "
      "each of 39 tokens - a string literal among them - at every token position) and by every token string of length <= 2 (quick) / 3 (thorough) over the "
      "same alphabet, (location labels: the first location carries an invariant and a rate, base texts with quantifiers) inside a model that shadows one name globally, template-locally and in select binders and uses it again "
      "in later edges, the next template and the system section; the resulting document with that one label masked must equal "
      "the fault-free document and every diagnostic must point at the faulted label. Declarations: 343 lists of three "
      "declarations x fault in the 2nd/3rd x every truncation and token deletion, globally and template-locally: earlier "
      "declarations present and unchanged. A second model with two dynamic templates: labels quantifying over dynamic "
      "instances (forall/exists/sum, nested, one binder name over different templates, also in the later labels) under the "
      "same single-token faults. "
      "With a template-local fault the global declarations must be unchanged and no diagnostic may land outside the faulted block. "
      "The templates after a faulted template-local block must be unchanged.",
      "Reference = the fault-free document parsed the same way (static analysis iff the faulted parse ran it). The faulted "
      "label's value and document-wide summary flags are masked.",
      "exhaustive fault enumeration (token positions x fault operators, all short token strings) with a differential oracle against the fault-free run",
      "DESIGN.md §3/C16")

check("C17", "exploration",
      "Matrix of (restricting feature, placement) cells decided on the real FeatureChecker: clock compared with a double "
      "literal/variable/call/expression under < <= == >= > in either operand order, alone and at each of three conjunct "
      "positions of guards and invariants; floating-point assignments at each update-list position; clock initialisers; "
      "constant clock rates 2/3/2.5/0.5 at each conjunct position and reversed; dynamic templates; non-broadcast channels "
      "(global, urgent, arrays, typedef, template-local, used); the comparisons also under ||, imply, forall, nested "
      "conjunctions, inline-if bounds and on clock-array elements; assignments hidden in global / template-local functions "
      "and their statements; clock-array initialisers; rates under forall; pairs of features for different methods in two "
      "templates in both orders; every channel-priority list of 1-3 elements with every choice of separators, process priorities "
      "at every position of the system line; records containing clocks initialised by named fields in every declaration x initialiser order "
      "(variable, array element, nested); the features applied through `clock &` / `hybrid clock &` parameters of functions and templates "
      "bound to ordinary and hybrid clocks - each instantiated "
      "(explicitly and directly), uninstantiated, and in two declaration orders. Oracle: a method is reported supported only "
      "if the generator's feature flag permits it; unused templates and declaration order do not change the verdict. "
      "Restricting invariants on urgent and committed locations. "
      "Every cell also with the carrying template as a process set (free parameter) and as a process set of a partial instance. "
      "Hidden assignments in 17 statement placements, including code after statements that may return.",
      "Only the statement's 'only if' direction and invariance clauses are demanded; variable-valued rates are not claimed "
      "(the suite's rate_expression.xml fixes that they keep symbolic analysis). Only accepted models count. Known finding: a non-hybrid "
      "clock bound to a hybrid clock reference (known_findings.txt).",
      "bounded-exhaustive matrix enumeration on the real code against a reference feature oracle (generator flags)",
      "DESIGN.md §3/C17")

check("C18", "exploration",
      "Exhaustive enumeration of the real header on every int8_t interval x element (and every interval pair in the "
      "thorough tier) against set semantics computed in wider arithmetic, plus the full product of boundary grids for "
      "int32_t and double, every compound operation again with operands that alias the receiver (its own bounds, the range itself), "
      "plus the same enumeration under UBSan for the overflow clause. For int8_t this is a complete "
      "decision of the property; for the wide types it is exhaustive over the grid only. "
      "Element equality, && with an element and the named aliases are enumerated on all grids; grids for float, int16_t, int64_t and fractional double bounds. "
      "contains() and && are applied to every result, empty ones included.",
      "Trusts the reference semantics in harness/standalone_c18.cpp (set definitions evaluated in int/__int128) and "
      "gcc's UBSan. Cases whose true result leaves the element type are skipped, as the statement allows.",
      "bounded-exhaustive enumeration of all operand tuples on the real code (explicit reference model)",
      "DESIGN.md §3/C18")

check("C01", "model_checking",
      "Explicit-state breadth-first search of the 'parser machine' executed on the real code: a state is the configuration of "
      "bison automaton + lexer + builder stacks + document after a token prefix, a transition appends one token of the "
      "alphabet; 288 searches from grammar-context seeds through every entry point (17 XML text-block kinds incl. LSC, whole "
      "XTA, queries with TigaPropertyBuilder, PrettyPrinter, 3.x syntax, bare blocks), sanitized build (ASan+UBSan) at depth 2 "
      "(quick) / 3 (thorough) plus -O2+libstdc++-assertions build one level deeper, pruned on a state digest taken at the "
      "observation point before end of input; then every single structural/byte fault and truncation of a kitchen-sink XML "
      "document and the repository models (buffer/fd/file), 35 growth families for recursion depth and time "
      "proportionality (CPU time, re-measured alone), a grid of token lengths around the lexer's 4000-byte limit in 16 position classes, and 1100+ documents with semantically invalid but syntactically clean declarations and labels (the builder's error branches; alone, in pairs, in four slots), every dynamic-template construct (4 quantifiers over instances x 7 kinds of template operand x 28 body shapes, spawn/exit/numOf x 21 operand shapes, in labels, function bodies and queries) and 55 more searches with a dynamic template in scope; initialiser lists of up to 3/4 elements for records and arrays; 396 synchronisation x guard x controllability x invariant combinations; 2488 ill-typed queries (every query form with one operand or the bound of the wrong kind); 12000+ whole texts through the pretty-printing back end. Oracle: returns or throws std::exception, no sanitizer/assertion report, process alive, in time. "
      "Chains of 1-3 (partial) instantiations (every own-parameter list x every argument list, XML and XTA) are part of the semantic corpus. "
      "Queries that select a member on 49 kinds of operand (operators, calls, quantifiers over processes, records, channels).",
      "No hand model: every transition is an execution of the implementation (traces_validated_against_impl = runs). Pruning "
      "is sound if the digest covers what later callbacks read (DESIGN.md §3/C01); 'shape'-digest runs are heuristic. Bounded: "
      "token strings up to the depth from the listed seeds/alphabets; single (thorough: sampled pairs of) XML faults.",
      "explicit-state BFS with state-digest pruning over the real parser/builder (stateless replay of prefixes) + exhaustive fault enumeration",
      "DESIGN.md §3/C01")

check("C02", "exploration",
      "Every abstract expression tree of the enumeration (all constructors; all parent/slot/child triples; in the thorough "
      "tier all depth-3 chains and all binary parents with two compound operands) is rendered with full and with "
      "table-minimal parentheses and parsed by the real parser as a bare expression and inside an initialiser, a guard, an "
      "update, a statement and a query; the tree handed to clients must equal the abstract tree (kinds, operand order, "
      "symbols, constants); every depth-1 tree also in 12 positions of control statements (conditions, for-init/step, return, assert, "
      "inner statements) next to 11 bodies with declarations. Literal boundary grid: integers exact or diagnosed, floats bit-equal to the correctly rounded "
      "double. Exhaustive within the stated tree shapes. "
      "Postfix chains on process sets: every argument tuple over 6 expressions for sets of arity 1-3 x 4 member forms (1 032 query trees). "
      "String literal trees: all ordered pairs of 8 strings (prefixes of one another included), alone and after other strings.",
      "Trusts the reference operator table R1 (lib/exprgen.py), the harness s-expression renderer and Python float() as "
      "correctly rounded reference. Small scope: depth <= 3, one representative per operator class.",
      "bounded-exhaustive tree enumeration on the real parser against a reference operator table (render/parse round trip)",
      "DESIGN.md §3/C02")

check("C03", "exploration",
      "Every expression tree of the C02 enumeration that the library itself accepts (parses and type checks without "
      "diagnostics), a grid of double/int literals, 28 string literals (text that reads as a declared name / number / operator, characters "
      "outside ASCII, backslashes and escaped quotes) as arguments in five expression shapes, and 59 query forms x boolean/numeric operand pools are printed with the "
      "library's str(), re-parsed by the same parser in the same scope and compared: no throw, no diagnostics, identical "
      "tree (kinds, order, symbols, constants bit-exact), identical query kind, identical second str(). "
      "Binders over 7 named and anonymous types x 7 bodies as expressions and queries. "
      "All ordered pairs of bound kinds in comparisons of two probabilities; clock expressions as run bounds; saveStrategy with a string constant.",
      "The text of a control-synthesis query is taken to be the prefix recorded in PropInfo::type plus str(intermediate), as "
      "TigaPropertyBuilder strips the wrapper on purpose. Trusts the harness s-expression as tree identity. Small scope: the "
      "tree shapes and operand pools listed in the evidence.",
      "bounded-exhaustive tree/query-form enumeration on the real printer+parser (print/parse round trip oracle)",
      "DESIGN.md §3/C03")

check("C04", "exploration",
      "Choice-tree exploration (CHESS-style deviation bounding over ~75 input-shape choice points; all sequences with <= 2 "
      "(quick) / <= 3 (thorough) deviations from a rich base model) of an abstract model generator; every model is rendered "
      "to XML, parsed by the real library, and the built document (templates, parameters, locals, locations with "
      "names/labels/flags, branchpoints, init, edges with resolved end points/controllable/all labels, globals, instances "
      "and processes with positional argument binding and priorities) is compared with the document computed from the "
      "abstract model. Every label/initialiser/argument carries a site-unique constant. "
      "The generator declares channels with one and two prefixes (globals, arrays, reference parameters), meta / const bool / double globals and nested quantifiers whose binder shadows a global; declared types of globals are compared.",
      "Trusts the reference lib/modelgen.py expected() and harness docdump. Small scope: <= 3 templates, <= 4 locations, <= 2 "
      "branchpoints, <= 8 edges.",
      "choice-tree DFS with deviation bound on the real parser against a reference model of the document",
      "DESIGN.md §3/C04")

check("C05", "exploration",
      "The same choice-tree space restricted to the XML/XTA common subset: each model rendered as .xml and as .xta (chained and "
      "fully written transitions), both parsed by the real library; whole-document dumps (minus the XML-only action "
      "attribute), diagnostic multisets and supported-method verdicts must agree, and the XTA document must equal the abstract "
      "model; plus four faults injected at the same site in both renderings (rejected twins); plus 21 constructs beyond the "
      "abstract model as verbatim text in both renderings (scalar sets, records, functions with every statement kind, channel "
      "priorities, before/after update, template-local types, system-section declarations, progress measures, gantt charts), "
      "alone and in all ordered pairs, which must also be present in the documents. "
      "Name clashes (templates named like templates, variables, types, constants; globals declared twice) are among the injected faults. "
      "The same XML text through the buffer, file and file-descriptor entry points must give the same result.",
      "Trusts the two renderers in lib/modelgen.py to express the same model; edge_t::actname ignored.",
      "choice-tree DFS with deviation bound, differential oracle between the two front ends of the real code",
      "DESIGN.md §3/C05")

check("C06", "fault_enumeration",
      "Fault enumeration on the real XML reader/lexer/type checker: accepted base models x 12 text blocks (incl. the exponential rate of a location) x 9 fault kinds "
      "(undeclared identifier, clock for operand, token deleted, bracket deleted, stray ) ] }, semicolon deleted, side "
      "effect, unterminated comment) at every token position x 10 layout variants (blank lines, whitespace-only lines, trailing blanks, mixed line ends, "
      "&#13;&#10; line ends, block and line comments, tabs, backslash continuations). Every error and warning is resolved "
      "against an independent DOM of the same bytes: XPath selects exactly one element, lines within the element's text, "
      "columns within the line, start not after end; an error lies in the faulted block (only there for non-declaring "
      "labels); an unknown identifier is covered exactly. "
      "Type-checker diagnostics: 57 semantically wrong declarations (global / local, three leads) and 18 semantically wrong system sections - every diagnostic inside its block. "
      "14 type-checker-only faults in declarations of every type shape must each be diagnosed inside their block.",
      "ElementTree is the independent DOM. An edit of a declaring block that leaves it valid (renamed declaration etc.) "
      "legitimately surfaces at the uses; 'an error inside the block' is then not demanded.",
      "exhaustive single-fault enumeration (every token position x fault kind x layout) on the real code, independent-DOM oracle",
      "DESIGN.md §3/C06")

check("C07", "exploration",
      "One name declared at any subset of nine scope levels (global, template parameter/local, function parameter/local, "
      "nested block, iteration/quantifier/select binder; all 288 admissible subsets) with "
      "pairwise distinguishable types; every model carries 23 use sites (before/after each declaration, inside/outside each "
      "scope, labels with and without select binder, invariant, another template, system section, a later declaration) and 4 "
      "queries (v, P.v, P.w with argument substitution, T2.v). The declaration each use is bound to is read from the real "
      "document and compared with a reference lexical resolver; unknown uses must be diagnosed, one diagnostic each. Error-recovery histories: the same use sites after each of 12 erroneous declarations (missing return, unknown names, syntax errors in statements / nested blocks / quantifiers / iterations / parameter lists / initialisers, duplicates) that declare the name in scopes of their own, at three positions; declarations after a syntactically well-formed erroneous one must stay where they were declared. Use sites inside types (array sizes, range bounds, 7 positions), statements starting with the name after unbraced constructs, two processes of one template in one query. Members of dynamic instances: 16 subsets of {global, enclosing template, two dynamic templates} x 10 labels (member of the bound instance, bare names in and after the body, nested binders of one name, a binder named like the variable, a failed member lookup followed by a bare name) + 2 SMC queries. "
      "Extent of binder scopes: forall / exists / sum with 13-16 unparenthesised bodies in guards, invariants, updates, functions and queries. "
      "Disturbances include syntax errors from which the grammar recovers around a quantifier.",
      "The bound declaration is identified through the upper bound of the symbol's declared range. Parameter+local of the "
      "same name share a frame (duplicate definition) and are excluded.",
      "bounded-exhaustive enumeration of declaration subsets x use sites on the real parser against a reference scope resolver",
      "DESIGN.md §3/C07")

check("C08", "exploration",
      "A C++ invariant checker (uid<->object identity for variables/locations/branchpoints/functions/templates/instances/"
      "processes, exactly one source and target per edge within the own template, dense numbering, unbound-first parameter "
      "lists, type arity, bound parameters mapped, initial location of accepted TA templates) runs on the Document left by "
      "every parse of a union corpus enumerated exhaustively: the C04 choice-tree space as XML and XTA, every text block x 19 "
      "hostile texts, every single structural XML fault at every site, duplicate names over all ordered pairs of 16 "
      "declaration kinds, degenerate XTA processes in both syntaxes, the 21 constructs of C05 alone / in pairs / cut off after "
      "every token in both formats - after normal return, diagnostics or exception. "
      "Dynamic templates announced and defined with different parameter lists (9 x 12 pairs, XML and XTA).",
      "Trusts harness/dump.cpp:invcheck (self-tested against 11 hand-made corruptions on every run). Documents of crashed "
      "processes cannot be inspected (C01).",
      "bounded-exhaustive fault/shape enumeration on the real parser with an invariant oracle on every resulting state",
      "DESIGN.md §3/C08")

check("C10", "exploration",
      "Every boolean formula tree up to depth 3 over the atom/connective alphabet (and every depth-2 tree over 20 atom spellings), "
      "placed as guard (plain edge, edge into / out of a branchpoint, edge with select and synchronisation) and as invariant "
      "(ordinary, urgent, committed location, second template), and with the label written as a CDATA section, is type "
      "checked by the real library and compared with a reference convexity classifier transcribed from the statement; "
      "a plain conjunction of atoms that are accepted alone must be accepted. Exhaustive within the stated alphabet/depth. "
      "Placements include unused templates and spawned dynamic templates. "
      "Guards read through parse_XML_fd, invariants through parse_XML_file.",
      "Trusts the reference classifier R4 in checks/c10.py and the small-scope hypothesis (depth <= 3, 3 (quick) / 6 (thorough) "
      "atom kinds).",
      "bounded-exhaustive enumeration of all formula trees on the real code against a reference classifier",
      "DESIGN.md §3/C10")

check("C11", "exploration",
      "Full matrix of 21 side-effect-free contexts (guard, invariant, sync index, probability weight, select bound, global/"
      "local initialiser, array size, range bound, instantiation argument, forall/exists/sum body, assert, channel priority "
      "index, four query forms) x 112 write forms (all assignment operators bare and inside functions, ++/-- pre/post, array "
      "element, struct field, inline-if/comma lvalues, writer calls and call chains of depth 1-3, the write placed in 13 "
      "statement forms, reference parameters; 13 target shapes - conditional lvalues mixing locals, parameters and globals, "
      "indexed and selected targets - x 4 operators inside functions), the core forms at 10 positions inside the context's "
      "expression; each cell is paired with a read-only twin that must be accepted and a "
      "local-only-writer control, so that the real type checker's verdicts are decided cell by cell. Plus template-local writers "
      "around later same-named declarations, and six contexts inside the definition of a dynamic template whose announcement "
      "stands before / between / after the called functions; invariants of urgent and committed locations; queries calling template-local "
      "functions through a process or an element of a process set (7 writers, 3 readers, 9 query forms); the writing expression in the "
      "initialiser, every size and the range bound of a variable of every declared-type shape (0-3 dimensions cut into typedef groups, "
      "const / meta prefixes, four bases, three scopes: 1041 places x 8 write forms quick, 1218 x 54 thorough). "
      "Arguments of partial instances and of partial instances of partial instances are contexts too. "
      "Function-local initialisers and sizes, also in blocks, loop bodies and branches that consist of declarations only.",
      "Twins in compile-time contexts read constants only. Progress measures are not in the statement's list and are not "
      "enumerated. Small scope: chains <= 3, one representative per statement form.",
      "bounded-exhaustive matrix enumeration on the real type checker with a twin (differential) oracle",
      "DESIGN.md §3/C11")

check("C12", "exploration",
      "Matrix of constness sources (const global/template local/function local, value and reference parameters of functions "
      "and templates, typedef'd const, select/iteration/forall/exists/sum binders) x type shapes (int, bounded typedef, array "
      "element with constant/variable index, struct field, array-of-struct field, matrix element) x 16 write forms "
      "(assignment operators, ++/--, inline-if lvalues, chained assignment, non-const reference arguments direct and chained): "
      "1524 documents decided by the real type checker; const cell must be rejected, its mutable twin accepted. Plus constness "
      "buried in 11 composite types (records of arrays of a typedef'd const, arrays of records, nested records): every scalar "
      "access path x 8 write forms x {update, function body, reference parameter of the composite type}. Dynamic templates with "
      "const / reference parameters and spawn arguments; 14 shapes of a constant reaching a written reference parameter through the "
      "own parameters of one and two partial instances; constants whose initialiser or size contains a quantifier. "
      "Record types written out in place (`const struct { .. } s`) are among the type shapes. "
      "Writes as arguments of built-in functions: every function x argument position x 4 write forms. "
      "Constants bound to written reference parameters of LSC charts. "
      "Writes inside the global before_update / after_update hooks.",
      "Quantifier binders have no accepted twin. Small scope: listed shapes/forms.",
      "bounded-exhaustive matrix enumeration on the real type checker with a twin (differential) oracle",
      "DESIGN.md §3/C12")

check("C13", "exploration",
      "Matrix of 26 compile-time contexts (array sizes, range bounds, scalar-set sizes in global/typedef/struct/template-"
      "local/function-local/parameter/select/quantifier position; global, const, array, struct and template-local "
      "initialisers; arguments for value, const-value and const-reference parameters and partial instantiations) x 26 "
      "expressions (12 constant ones incl. functions of constants with chains 1-3; 14 depending on a mutable variable "
      "directly, through arrays/structs/inline-if, through functions of depth 1-3, statements, loops, arguments, meta "
      "variables), plus free process parameters inside array sizes with bound twins, plus 7 function-local contexts x 11 "
      "dependence chains that stay inside one function body (parameters, local variables, local constants initialised from "
      "run-time values), const-typed template parameters through functions, chains of 1-3 partial instantiations, and 8 chains "
      "through template-local constant arrays / records / arrays of records x 4 sinks, and 14 functions that read the variable in exactly one "
      "syntactic position; a named type declared a second time (8 scope pairs and same-scope pairs of different names x 6 kinds x 3 uses x "
      "8 expressions, either order); mutable cell must be rejected, constant twin accepted. "
      "Contexts on LSC templates (arguments, partial instances, own-parameter ranges) and arguments of partial instances of partial instances. "
      "Forwarded own parameters of partial instances (references to variables, constants, two levels). "
      "20 read positions inside functions (do-while condition, for step / initialisation, iteration body, nested conditions, branch returns).",
      "Every declared type is used. Function-local initialisers are outside the statement. Small scope: chains <= 3.",
      "bounded-exhaustive matrix enumeration on the real type checker with a twin (differential) oracle",
      "DESIGN.md §3/C13")

check("C14", "exploration",
      "Full matrix: all ordered operand pairs from a typed pool x 11 commutative operators (a op b vs b op a), all ordered "
      "pairs as inline-if branches (c?a:b vs !c?b:a), and all ordered pairs of 22 typedef'd types incl. aliases of aliases as (argument, reference "
      "parameter) for functions and templates, each executed on the real type checker; oracle = same verdict and same base "
      "kind under the swap, and acceptance of a reference argument iff the types are equivalent. "
      "The swap inside whole documents: 15 operands x operators and 9 conditions x 36 branch pairs in 7 contexts (initialisers, array size, range bound, template argument, guard, update) - same verdict and messages.",
      "Trusts the equivalence table of the 16 types in checks/c14.py; kinds are compared after stripping const/range/label "
      "wrappers. Small scope: the operand pool.",
      "bounded-exhaustive matrix enumeration on the real code with a metamorphic (swap) oracle",
      "DESIGN.md §3/C14")

check("C15", "model_checking",
      "Explicit-state search over call histories executed on the real library. State = the process-global lexer/parser/tracker "
      "state (parser statics read through a wrapper TU, flex start condition and buffer stack, UTAP::tracker, errno); "
      "transition = one more call of a public entry point, executed in a process forked from that state. 43 events (XML by "
      "buffer/fd, XTA by buffer/FILE*, queries by buffer/FILE*, bare blocks; accepted, diagnosed, throwing XMLReaderError / "
      "XMLDocError / runtime_error / TypeException from inside the grammar, unterminated comments, 3.x syntax, a client builder "
      "aborting inside a comment / an array declarator / a label, literals that leave errno set, models accepted with every kind of warning). All histories of length <= 2 (quick) / 3 (thorough) from "
      "five counter seeds without pruning, then BFS to depth 3 / 6 merging histories that leave identical global state, then "
      "every alignment of the 32-bit position counter relative to 2^31 and 2^32 for every event, then all histories of length <= 3 / 4 over 18 "
      "events on documents that stay alive between calls (queries and expression blocks against three kept documents, replacing and dropping "
      "them, reads of other documents in between). Oracle: each call's canonical "
      "result (return value or exception class, diagnostics with path/line/columns as the library renders them, document "
      "dump, supported methods, parsed queries) equals that of the same call made first in a fresh process.",
      "No hand model: every transition is an execution of the implementation. Pruning is sound if the digest is all a later "
      "call can read from earlier ones (libxml2's own globals are not in it). The counter is seeded instead of parsing 4 GiB. "
      "Known finding: wrap of the counter at 2^32 (known_findings.txt).",
      "explicit-state BFS over call histories of the real library with fork-per-transition and global-state digests",
      "DESIGN.md §3/C15")

check("C09", "exploration",
      "Metamorphic enumeration on the real parser/type checker: for a rich accepted model and one rejected variant per "
      "diagnostic class (unknown identifier, type error, side effect in a guard, non-convex guard, write to a constant, "
      "non-computable array size, syntax errors in a label and in a declaration; thorough: duplicate definition, wrong argument "
      "count, side effect in an invariant, failing query, unterminated comment) every site of three rewrite families is applied "
      "singly: layout (blank, tab, newline, CR LF, block / line / EXPECT comment, backslash continuation at every token boundary "
      "of every text block; a redundant pair of parentheses around every sub-expression), consistent renaming of every user "
      "identifier (33 of every identifier class) to a fresh name and to each soft keyword A U W R E M sup inf bounds "
      "simulation, every scoped declaration (binders, parameters, locals) renamed to every outer name that is not used in its "
      "scope (shadowing vs. fresh name), and keyword-operator aliases in either direction at every occurrence. Diagnostic messages (renaming mapped "
      "back, positions ignored), supported methods, document dump and parsed queries must equal the base model's. Plus a "
      "redundant pair of parentheses around every node of every depth-2 expression tree of the C02 enumeration. One name declared "
      "in two scopes: 7 kinds of declaration x every pair of {global, two templates, function body} x every pair of well-formed / "
      "ill-formed spellings x renaming either declaration alone (522 pairs of models). Models of the 3.x syntax (XTA and XML): the word "
      "operators and / or / not / imply at every slot of 10 texts against their symbolic forms. "
      "White space around the identifier of every <name> element; rejected variants with refused template / location names.",
      "Trusts lib/exprgen.py to render the same tree with extra parentheses / alias spellings. sup, inf, bounds, simulation are "
      "not used for template/location names (the XML reader deliberately refuses keywords there). Newlines are not inserted "
      "into queries (they separate queries). Small scope: the base models of checks/c09.py, one rewrite at a time.",
      "bounded-exhaustive rewrite-site enumeration on the real code with a metamorphic oracle (verdict and document unchanged)",
      "DESIGN.md §3/C09")

check("C19", "exploration",
      "For every parsed expression of the C02 enumeration and the C03 query forms (n-ary LIST/FUN_CALL/SIMULATE/PROBA nodes "
      "included) the real clone_deeper/subst/equal/get_size are run against their laws: clone equal, no shared node, mutation "
      "of either side invisible to the other at every node position, subst = reference substitution for every occurring "
      "symbol and non-mutating, identity substitution, every single-node perturbation (kind, symbol, constant, operand swap) "
      "detected by equal, get_size() = stored children at every node; equal as a relation over pools (all pairs/triples); every "
      "sequence of up to 3 (thorough: 4) operations from {equal, clone, clone_deeper, subst, operand replacement} over three "
      "variables for 19 expressions against a reference model of plain trees; the same laws for every quantifier over the "
      "instances of a dynamic template (forall/exists/sum x template x body x surrounding, all nestings) and numOf/foreach/sum "
      "in SMC queries.",
      "Node identity / stored children / perturbations go through harness/wrap_expression.cpp (a wrapper TU including "
      "expression.cpp). Small scope as in C02.",
      "bounded-exhaustive enumeration of expressions x node positions x perturbations on the real code (law oracles)",
      "DESIGN.md §3/C19")

check("C20", "exploration",
      "Every accepted model of the choice-tree space (branchpoint-free base, <= 2/3 deviations) is parsed, written with "
      "write_XML_file into a memfd, and the bytes are read by an independent XML parser (ElementTree): template count/names, "
      "one location element per location with unique id/name/invariant+rate labels/urgent+committed, exactly one init "
      "resolving to the initial location, one transition per edge in order with end points, controllable attribute and label "
      "presence; label texts are judged by parsing the written file again and comparing the expression trees. Branchpoints "
      "(also in a template that is not the first): one element each with a unique id, and the references of edges through "
      "them resolve to the right branchpoint. Every label kind x 20 string literals (characters of 2-4 bytes, XML-special text, escaped "
      "quotes): a model rebuilt from the written elements and label texts alone must give the same expressions. "
      "Dynamic templates are counted among the templates the file must hold (known finding: they are not written).",
      "ElementTree as independent reader; label text equivalence via re-parse by the library (expression trees).",
      "choice-tree DFS with deviation bound on the real parser+writer, independent-reader oracle",
      "DESIGN.md §3/C20")

ALL = ["C%02d" % i for i in range(1, 21)]
for pid in ALL:
    if pid not in CHECKS:
        NA[pid] = "check not built yet in this round (planned in DESIGN.md §3/%s); nothing is claimed for it" % pid

manifest = {
    "version": 1,
    "setup_cmd": "python3 lib/build.py fast san",
    "hooks": {
        "guard": "UTAP_VERIF",
        "enable": "no source hooks are needed: checks compile /repo's working tree themselves (lib/build.py) with "
                  "-DUTAP_VERIF (inert), wrapper TUs that #include the generated parser / expression.cpp, "
                  "-DYYDEBUG/-DYYFPRINTF for the parser trace and -Wl,--wrap=dlopen",
        "baseline_off_cmd": "bash tools/baseline.sh",
        "source_commits": [],
        "add_only": True,
    },
    "engines": [
        {"name": "utapv", "path": "harness/", "serves_properties": sorted(CHECKS.keys()),
         "kind_free_text": "C++ worker linked against libutap built from the current tree (fast: -O2 + libstdc++ "
                           "assertions; san: ASan+UBSan); Python drivers enumerate bounded input spaces exhaustively"},
    ],
    "checks": [CHECKS[k] for k in sorted(CHECKS)],
    "not_applicable": [{"property_id": k, "reason": NA[k]} for k in sorted(NA)],
    "notes": "See DESIGN.md. known_findings.txt lists recorded findings and repaired defects.",
}
with open(os.path.join(VERIF, "MANIFEST.json"), "w") as fh:
    json.dump(manifest, fh, indent=1)
print("MANIFEST.json: %d checks, %d not_applicable" % (len(CHECKS), len(NA)))
