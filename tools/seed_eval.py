#!/usr/bin/env python3
"""Confirm a seeded change produced by a sub-agent and file it under /verif/seeded/<name>/.

    tools/seed_eval.py <property id> <dir with patch.diff, run_demo.sh, demo files, meta.json> [name] [--checks C01,C08] [--tier quick]

Steps (everything in scratch worktrees under /tmp, removed afterwards):
  1. fresh worktree of /repo HEAD + patch: stock CMake build, the repository's test suite must pass;
  2. the demonstration must fail with the patch and pass without it (the demo's run_demo.sh is run with the
     worktree as $REPO; it builds against $REPO/_build);
  3. the property's check (and any extra ones) is run against the patched tree (UTAPV_REPO): exit status and the
     VIOLATION lines are recorded.
Writes seeded/<name>/{patch.diff, demo/..., meta.json}; meta.json records what was run and what each check said."""
import json
import os
import shutil
import subprocess
import sys
import tempfile
import time

VERIF = os.path.dirname(os.path.dirname(os.path.abspath(__file__)))


def sh(cmd, cwd=None, env=None, timeout=3600):
    p = subprocess.run(cmd, shell=True, cwd=cwd, env=env, stdout=subprocess.PIPE, stderr=subprocess.STDOUT, timeout=timeout)
    return p.returncode, p.stdout.decode(errors="replace")


def build_and_test(tree):
    rc, out = sh("cmake -G Ninja -S . -B _build -DCMAKE_BUILD_TYPE=RelWithDebInfo >/dev/null && cmake --build _build -j16 2>&1 | tail -5", cwd=tree)
    if rc != 0:
        return False, "build failed: " + out[-1500:]
    rc, out = sh("ctest --test-dir _build -j8 --timeout 900 2>&1 | tail -4", cwd=tree)
    ok = rc == 0 and "100% tests passed" in out
    return ok, out.strip()[-400:]


def run_demo(src, tree):
    """copies the demo dir next to the tree the way the agent had it (<x>/repo, <x>/out) and runs run_demo.sh"""
    root = os.path.dirname(tree)
    out = os.path.join(root, "out")
    shutil.rmtree(out, ignore_errors=True)
    shutil.copytree(src, out)
    env = dict(os.environ, REPO=tree)
    rc, txt = sh("bash run_demo.sh", cwd=out, env=env, timeout=1200)
    return rc, txt[-1200:]


def main():
    args = [a for a in sys.argv[1:] if not a.startswith("--")]
    pid, src = args[0], os.path.abspath(args[1])
    name = args[2] if len(args) > 2 else pid
    checks = [pid]
    tier = "quick"
    for i, a in enumerate(sys.argv):
        if a == "--checks":
            checks = sys.argv[i + 1].split(",")
        if a == "--tier":
            tier = sys.argv[i + 1]
    patch = os.path.join(src, "patch.diff")
    rec = {"property": pid, "name": name, "evaluated_at": time.strftime("%Y-%m-%d %H:%M:%S"),
           "repo_head": sh("git -C /repo rev-parse --short HEAD")[1].strip()}
    try:
        rec["agent_meta"] = json.load(open(os.path.join(src, "meta.json")))
    except Exception as e:           # noqa: BLE001
        rec["agent_meta"] = {"error": str(e)}
    # the agents worked in /tmp/seed/<id>/{repo,out}; demos refer to ../repo, so the scratch copy keeps that layout
    root = tempfile.mkdtemp(prefix="seed-eval-", dir="/tmp")
    tree = os.path.join(root, "repo")
    ok = True
    try:
        rc, out = sh("git -C /repo worktree add -q --detach %s HEAD" % tree)
        if rc:
            raise RuntimeError(out)
        rc, out = sh("git apply --whitespace=nowarn %s" % patch, cwd=tree)
        rec["patch_applies"] = rc == 0
        if rc:
            rec["patch_error"] = out[-500:]
            ok = False
        else:
            rec["files_changed"] = sh("git diff --stat | cat", cwd=tree)[1].strip().splitlines()
            good, txt = build_and_test(tree)
            rec["suite_passes_with_change"] = good
            rec["suite_output"] = txt
            rc1, t1 = run_demo(src, tree)
            rec["demo_with_change"] = {"exit": rc1, "tail": t1[-600:]}
            sh("git apply -R --whitespace=nowarn %s" % patch, cwd=tree)
            good0, _ = build_and_test(tree)
            rc0, t0 = run_demo(src, tree)
            rec["demo_without_change"] = {"exit": rc0, "tail": t0[-300:]}
            rec["confirmed"] = bool(good and rc1 != 0 and rc0 == 0 and good0)
            ok = rec["confirmed"]
    finally:
        sh("git -C /repo worktree remove --force %s" % tree)
        shutil.rmtree(root, ignore_errors=True)
    # 3. our checks against the patched tree
    rec["checks"] = {}
    if rec.get("patch_applies"):
        for c in checks:
            t0 = time.time()
            rc, out = sh("bash tools/on_tree.sh - %s -- python3 checks/%s.py --tier %s" % (patch, c.lower(), tier), cwd=VERIF, timeout=7200)
            viol = [l for l in out.splitlines() if l.startswith("VIOLATION")]
            rec["checks"][c] = {"tier": tier, "exit": rc, "violations": len(viol), "first": [v[:400] for v in viol[:3]],
                                "wall_s": round(time.time() - t0, 1), "detected": rc == 1 and len(viol) > 0,
                                "tail": out.strip().splitlines()[-1][:300] if out.strip() else ""}
    dst = os.path.join(VERIF, "seeded", name)
    shutil.rmtree(dst, ignore_errors=True)
    os.makedirs(os.path.join(dst, "demo"))
    shutil.copy(patch, os.path.join(dst, "patch.diff"))
    for f in os.listdir(src):
        p = os.path.join(src, f)
        if f in ("patch.diff", "meta.json") or os.path.isdir(p) or os.path.getsize(p) > 300000:
            continue
        if os.access(p, os.X_OK) and not f.endswith(".sh"):
            continue        # compiled demo binaries are not kept
        shutil.copy(p, os.path.join(dst, "demo", f))
    am = rec.get("agent_meta", {})
    meta = {"property": pid, "breaks": am.get("summary"), "needs_to_manifest": am.get("needs_to_manifest"),
            "what_was_run": ["fresh worktree of /repo %s + patch.diff: cmake build, ctest" % rec["repo_head"],
                             "demo/run_demo.sh with and without the patch",
                             "tools/on_tree.sh - patch.diff -- python3 checks/<id>.py --tier %s" % tier],
            "result": rec}
    with open(os.path.join(dst, "meta.json"), "w") as fh:
        json.dump(meta, fh, indent=1)
    print(json.dumps({k: rec.get(k) for k in ("confirmed", "suite_passes_with_change", "patch_applies")}),
          json.dumps({c: (v["detected"], v["violations"], v["wall_s"]) for c, v in rec["checks"].items()}))
    print("demo with change: exit", rec.get("demo_with_change", {}).get("exit"), "| without:", rec.get("demo_without_change", {}).get("exit"))
    return 0 if ok else 2


if __name__ == "__main__":
    sys.exit(main())
